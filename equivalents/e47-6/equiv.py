"""Equivalence check for refactoring 6 (``sar_trailer.read_sar_trailer`` and
``sar_trailer.image_data.parse_image_data``).

Run as ``python _eq/6/equiv.py`` (or through pytest).  The expected outcomes below were
recorded from the unchanged code (``python _eq/6/equiv.py --record`` prints them).
"""

import io
import pprint
import struct
import sys

import fsspec
import numpy as np

from ceos_alos2.sar_trailer import read_sar_trailer
from ceos_alos2.sar_trailer.image_data import parse_image_data
from ceos_alos2.utils import to_dict


def field(value, width):
    text = str(value)
    assert len(text) <= width, (value, width)
    return text.rjust(width).encode("ascii")


def build_header(images, declared=None, size=720):
    """the 720 byte file descriptor record of a trailer file

    ``images``: sequence of (record_length, n_pixels, n_lines, n_bytes); any item may be ""
    """
    chunks = [struct.pack(">IBBBBI", 1, 63, 192, 18, 18, 720)]
    chunks += [b"A ", b"  ", b"CEOS-SAR    ", b" A", b" A", b"001.001     "]
    chunks += [field(4, 4), b"TRL             ", b"FSEQ", field(1, 8), field(4, 4)]
    chunks += [b"FTYP", field(5, 8), field(4, 4), b"FLGT", field(9, 8), field(4, 4)]
    chunks += [b" " * 68]
    assert sum(map(len, chunks)) == 180
    chunks += [field(index % 2, 6) + field(index * 10, 6) for index in range(15)]
    chunks += [b" " * 60]
    chunks += [field(index, 6) + field(index * 1000, 8) for index in range(5)]
    assert sum(map(len, chunks)) == 490
    chunks += [field(len(images) if declared is None else declared, 6)]
    for record_length, n_pixels, n_lines, n_bytes in images:
        chunks += [field(record_length, 8), field(n_pixels, 6), field(n_lines, 6), field(n_bytes, 6)]
    header = b"".join(chunks)
    return header.ljust(size)[:size]


def image_bytes(n_pixels, n_lines, n_bytes, seed):
    # deterministic byte pattern that exercises the sign bit and all byte positions
    count = n_pixels * n_lines * n_bytes
    return bytes((seed * 37 + index * 29 + (index // 3) * 101) % 256 for index in range(count))


def trailer(specs, extra=b"", **kwargs):
    """specs: (n_pixels, n_lines, n_bytes) -> consistent header + data"""
    images = [(p * l * b, p, l, b) for p, l, b in specs]
    data = b"".join(image_bytes(p, l, b, seed) for seed, (p, l, b) in enumerate(specs))
    return build_header(images, **kwargs) + data + extra


def files():
    yield "none", trailer([])
    yield "none-trailing-data", trailer([], extra=b"\x01\x02\x03")
    yield "one-int8", trailer([(3, 2, 1)])
    yield "one-int16", trailer([(4, 3, 2)])
    yield "one-int32", trailer([(2, 5, 4)])
    yield "one-int64", trailer([(2, 2, 8)])
    yield "one-single-sample", trailer([(1, 1, 2)])
    yield "two", trailer([(4, 3, 2), (2, 3, 4)])
    yield "three-mixed", trailer([(5, 1, 1), (1, 7, 2), (3, 3, 8)])
    yield "seven", trailer([(n + 1, 2, 2) for n in range(7)])
    yield "trailing-data", trailer([(4, 3, 2)], extra=b"\xff" * 11)
    yield "empty-image", trailer([(0, 4, 2), (2, 2, 2)])
    yield "empty-image-last", trailer([(2, 2, 2), (3, 0, 4)])
    # record length and shape disagree
    yield "record-longer-than-shape", build_header([(32, 4, 3, 2)]) + image_bytes(4, 4, 2, 0)
    yield "record-shorter-than-shape", build_header([(16, 4, 3, 2)]) + image_bytes(4, 3, 2, 0)
    yield "second-shape-wrong", (
        build_header([(24, 4, 3, 2), (24, 5, 5, 1)]) + image_bytes(4, 3, 2, 0) + bytes(range(24))
    )
    # the records need not cover the data and later records start where the previous one ended
    yield "gap-consumed-by-first", (
        build_header([(12, 3, 2, 2), (4, 2, 2, 1)]) + image_bytes(3, 2, 2, 5) + b"\x01\x02\x03\x04\x05"
    )
    yield "zero-record-length", build_header([(0, 0, 3, 2), (6, 3, 1, 2)]) + image_bytes(3, 1, 2, 1)
    # not enough data
    yield "data-missing", build_header([(24, 4, 3, 2)])
    yield "data-short", build_header([(24, 4, 3, 2)]) + image_bytes(4, 3, 2, 0)[:-2]
    yield "data-short-odd", build_header([(24, 4, 3, 2)]) + image_bytes(4, 3, 2, 0)[:-1]
    yield "second-data-short", trailer([(4, 3, 2), (2, 3, 4)])[:-4]
    yield "record-not-multiple-of-itemsize", build_header([(7, 1, 1, 4)]) + bytes(range(7))
    # odd values of the sample size
    yield "three-byte-samples", build_header([(6, 2, 1, 3)]) + bytes(range(6))
    yield "zero-byte-samples", build_header([(6, 2, 1, 0)]) + bytes(range(6))
    yield "sixteen-byte-samples", build_header([(16, 1, 1, 16)]) + bytes(range(16))
    yield "second-sample-size-wrong", (
        build_header([(4, 2, 1, 2), (6, 2, 1, 3)]) + bytes(range(10))
    )
    # blank fields are decoded as -1
    yield "blank-record-length", build_header([("", 2, 2, 1)]) + bytes(range(5))
    yield "blank-record-length-then-next", (
        build_header([("", 2, 2, 1), (5, 2, 2, 1)]) + bytes(range(5))
    )
    yield "blank-first-of-two", build_header([("", 4, 1, 1), (4, 2, 2, 1)]) + bytes(range(10))
    yield "blank-pixels", build_header([(12, "", 3, 2)]) + image_bytes(2, 3, 2, 3)
    yield "blank-lines", build_header([(12, 3, "", 4)]) + image_bytes(3, 1, 4, 3)
    yield "blank-pixels-and-lines", build_header([(12, "", "", 2)]) + image_bytes(3, 2, 2, 3)
    yield "blank-sample-size", build_header([(12, 2, 3, "")]) + image_bytes(2, 3, 2, 3)
    yield "all-blank", build_header([("", "", "", "")]) + bytes(range(9))
    yield "negative-record-length", build_header([(-3, 3, 1, 1)]) + bytes(range(6))
    yield "negative-then-positive", (
        build_header([(-2, 2, 2, 1), (6, 2, 2, 1)]) + bytes(range(8))
    )
    # broken headers
    yield "eight-images", build_header([(2, 1, 1, 2)] * 7 + [(2, 1, 1, 2)]) + bytes(16)
    yield "declared-more-than-present", build_header([(2, 1, 1, 2)], declared=2) + bytes(4)
    yield "declared-blank", build_header([(2, 1, 1, 2)], declared="") + bytes(4)
    yield "count-not-a-number", build_header([], declared="abc") + bytes(4)
    yield "header-short", build_header([(2, 1, 1, 2)], size=600)
    yield "header-only-694", build_header([], size=694)
    yield "header-only-693", build_header([], size=693)
    yield "empty-file", b""


class RecordingFile:
    def __init__(self, data):
        self._file = io.BytesIO(data)
        self.log = []

    def read(self, *args, **kwargs):
        result = self._file.read(*args, **kwargs)
        self.log.append(("read", args, kwargs, self._file.tell(), len(result)))
        return result

    def __getattr__(self, name):
        self.log.append(("getattr", name))
        raise AttributeError(name)


def describe_exception(e):
    if e is None:
        return None
    return (type(e).__name__, str(e), e.__suppress_context__, describe_exception(e.__cause__))


def describe_array(arr):
    return (
        type(arr).__name__,
        arr.dtype.str,
        arr.shape,
        arr.strides,
        arr.flags.writeable,
        arr.flags.owndata,
        arr.tolist(),
    )


def outcome_trailer(f):
    try:
        result = read_sar_trailer(f)
    except Exception as e:  # noqa: BLE001
        return ("raised", describe_exception(e))
    assert type(result) is tuple and len(result) == 2
    header, images = result
    return (
        "returned",
        type(header).__name__,
        repr(to_dict(header)),
        type(images).__name__,
        [describe_array(image) for image in images],
    )


def outcome_image(content, shape, n_bytes):
    try:
        result = parse_image_data(content, shape, n_bytes)
    except Exception as e:  # noqa: BLE001
        return ("raised", describe_exception(e))
    return ("returned", describe_array(result))


class Width:
    """formats like a number, is not one"""

    def __format__(self, spec):
        return "4" + spec

    def __str__(self):
        return "2"


def image_calls():
    raw = bytes(range(24))
    yield "bytes-2", (raw, (4, 3), 2)
    yield "bytes-1", (raw, (4, 6), 1)
    yield "bytes-4", (raw, (2, 3), 4)
    yield "bytes-8", (raw, (3, 1), 8)
    yield "bytearray", (bytearray(raw), (4, 3), 2)
    yield "memoryview", (memoryview(raw), (6, 2), 2)
    yield "shape-list", (raw, [4, 3], 2)
    yield "shape-int", (raw, 12, 2)
    yield "shape-minus-one", (raw, (-1, 3), 2)
    yield "shape-empty-tuple", (raw[:2], (), 2)
    yield "shape-3d", (raw, (2, 3, 2), 2)
    yield "shape-mismatch", (raw, (5, 3), 2)
    yield "shape-none", (raw, None, 2)
    yield "empty", (b"", (0, 3), 2)
    yield "empty-nonzero-shape", (b"", (1, 1), 2)
    yield "odd-length", (raw[:5], (5,), 2)
    yield "width-str", (raw, (4, 3), "2")
    yield "width-numpy-int", (raw, (2, 3), np.int64(4))
    yield "width-numpy-uint8", (raw, (2, 3), np.uint8(4))
    yield "width-float", (raw, (4, 3), 2.0)
    yield "width-bool", (raw, (4, 3), True)
    yield "width-none", (raw, (4, 3), None)
    yield "width-3", (raw, (8,), 3)
    yield "width-0", (raw, (8,), 0)
    yield "width-negative", (raw, (8,), -2)
    yield "width-custom-format", (raw, (2, 3), Width())
    yield "content-str", ("abcd", (2,), 2)
    yield "content-none", (None, (2,), 2)
    yield "content-array", (np.arange(6, dtype=">i2"), (3, 2), 2)


def compute():
    results = {"trailer": [], "io": [], "image": []}
    for name, data in files():
        f = RecordingFile(data)
        results["trailer"].append((name, outcome_trailer(f)))
        results["io"].append((name, f.log))

    fs = fsspec.filesystem("memory")
    path = "/eq6/TRL-ALOS2225333200-180726-WWDR1.1__D"
    fs.pipe_file(path, dict(files())["three-mixed"])
    with fs.open(path, mode="rb") as f:
        results["fsspec"] = [("three-mixed", outcome_trailer(f), f.tell())]
    fs.rm("/eq6", recursive=True)

    results["image"] = [(name, outcome_image(*args)) for name, args in image_calls()]
    return results


# BEGIN EXPECTED
EXPECTED = {'fsspec': [('three-mixed',
             ('returned', 'Container',
              "{'preamble': {'record_sequence_number': 1, 'first_record_subtype': 63, "
              "'record_type': 192, 'second_record_subtype': 18, 'third_record_subtype': 18, "
              "'record_length': 720}, 'ascii_ebcdic_code': 'A', 'blanks1': '', "
              "'format_control_document_id': 'CEOS-SAR', "
              "'format_control_document_revision_number': 'A', 'record_format_revision_level': "
              "'A', 'software_release_and_revision_number': '001.001', 'file_number': 4, "
              "'file_id': 'TRL', 'record_sequence_and_location_type_flag': 'FSEQ', "
              "'sequence_number_of_location': 1, 'field_length_of_sequence_number': 4, "
              "'record_code_and_location_type_flag': 'FTYP', 'location_of_record_code': 5, "
              "'field_length_of_record_code': 4, 'record_length_and_location_type_flag': 'FLGT', "
              "'location_of_record_length': 9, 'field_length_of_record_length': 4, "
              "'dataset_summary': {'number_of_records': 0, 'record_length': 0}, 'map_projection': "
              "{'number_of_records': 1, 'record_length': 10}, 'platform_position': "
              "{'number_of_records': 0, 'record_length': 20}, 'attitude': {'number_of_records': 1, "
              "'record_length': 30}, 'radiometric_data': {'number_of_records': 0, 'record_length': "
              "40}, 'radiometric_compensation': {'number_of_records': 1, 'record_length': 50}, "
              "'data_quality_summary': {'number_of_records': 0, 'record_length': 60}, "
              "'data_histogram': {'number_of_records': 1, 'record_length': 70}, 'range_spectra': "
              "{'number_of_records': 0, 'record_length': 80}, 'dem_descriptor': "
              "{'number_of_records': 1, 'record_length': 90}, 'radar_parameter_update': "
              "{'number_of_records': 0, 'record_length': 100}, 'annotation_data': "
              "{'number_of_records': 1, 'record_length': 110}, 'detail_processing': "
              "{'number_of_records': 0, 'record_length': 120}, 'calibration': "
              "{'number_of_records': 1, 'record_length': 130}, 'gcp': {'number_of_records': 0, "
              "'record_length': 140}, 'spare': '', 'facility_related_data_1': "
              "{'number_of_records': 0, 'record_length': 0}, 'facility_related_data_2': "
              "{'number_of_records': 1, 'record_length': 1000}, 'facility_related_data_3': "
              "{'number_of_records': 2, 'record_length': 2000}, 'facility_related_data_4': "
              "{'number_of_records': 3, 'record_length': 3000}, 'facility_related_data_5': "
              "{'number_of_records': 4, 'record_length': 4000}, 'number_of_low_resolution_images': "
              "3, 'low_resolution_image_sizes': [{'record_length': 5, 'number_of_pixels': 5, "
              "'number_of_lines': 1, 'number_of_bytes_per_one_sample': 1}, {'record_length': 14, "
              "'number_of_pixels': 1, 'number_of_lines': 7, 'number_of_bytes_per_one_sample': 2}, "
              "{'record_length': 72, 'number_of_pixels': 3, 'number_of_lines': 3, "
              "'number_of_bytes_per_one_sample': 8}], 'blanks': ''}",
              'list',
              [('ndarray', '|i1', (5, 1), (1, 1), False, False, [[0], [29], [58], [-68], [-39]]),
               ('ndarray', '>i2', (1, 7), (14, 2), False, False,
                [[9538, 24545, -485, -25158, -10407, 30355, 5426]]),
               ('ndarray', '>i8', (3, 3), (24, 8), False, False,
                [[5361399043303981791, -252593313531071242, 1382801691697384360],
                 [3046514611997156031, -2567478844349524778, -932083839121069176],
                 [731629085473669791, -4882364370873011018, -3174911775901594776]])]),
             811)],
 'image': [('bytes-2',
            ('returned',
             ('ndarray', '>i2', (4, 3), (6, 2), False, False,
              [[1, 515, 1029], [1543, 2057, 2571], [3085, 3599, 4113], [4627, 5141, 5655]]))),
           ('bytes-1',
            ('returned',
             ('ndarray', '|i1', (4, 6), (6, 1), False, False,
              [[0, 1, 2, 3, 4, 5], [6, 7, 8, 9, 10, 11], [12, 13, 14, 15, 16, 17],
               [18, 19, 20, 21, 22, 23]]))),
           ('bytes-4',
            ('returned',
             ('ndarray', '>i4', (2, 3), (12, 4), False, False,
              [[66051, 67438087, 134810123], [202182159, 269554195, 336926231]]))),
           ('bytes-8',
            ('returned',
             ('ndarray', '>i8', (3, 1), (8, 8), False, False,
              [[283686952306183], [579005069656919567], [1157726452361532951]]))),
           ('bytearray',
            ('returned',
             ('ndarray', '>i2', (4, 3), (6, 2), True, False,
              [[1, 515, 1029], [1543, 2057, 2571], [3085, 3599, 4113], [4627, 5141, 5655]]))),
           ('memoryview',
            ('returned',
             ('ndarray', '>i2', (6, 2), (4, 2), False, False,
              [[1, 515], [1029, 1543], [2057, 2571], [3085, 3599], [4113, 4627], [5141, 5655]]))),
           ('shape-list',
            ('returned',
             ('ndarray', '>i2', (4, 3), (6, 2), False, False,
              [[1, 515, 1029], [1543, 2057, 2571], [3085, 3599, 4113], [4627, 5141, 5655]]))),
           ('shape-int',
            ('returned',
             ('ndarray', '>i2', (12,), (2,), False, False,
              [1, 515, 1029, 1543, 2057, 2571, 3085, 3599, 4113, 4627, 5141, 5655]))),
           ('shape-minus-one',
            ('returned',
             ('ndarray', '>i2', (4, 3), (6, 2), False, False,
              [[1, 515, 1029], [1543, 2057, 2571], [3085, 3599, 4113], [4627, 5141, 5655]]))),
           ('shape-empty-tuple', ('returned', ('ndarray', '>i2', (), (), False, False, 1))),
           ('shape-3d',
            ('returned',
             ('ndarray', '>i2', (2, 3, 2), (12, 4, 2), False, False,
              [[[1, 515], [1029, 1543], [2057, 2571]],
               [[3085, 3599], [4113, 4627], [5141, 5655]]]))),
           ('shape-mismatch',
            ('raised',
             ('ValueError', 'cannot reshape array of size 12 into shape (5,3)', False, None))),
           ('shape-none',
            ('returned',
             ('ndarray', '>i2', (12,), (2,), False, False,
              [1, 515, 1029, 1543, 2057, 2571, 3085, 3599, 4113, 4627, 5141, 5655]))),
           ('empty', ('returned', ('ndarray', '>i2', (0, 3), (6, 2), False, False, []))),
           ('empty-nonzero-shape',
            ('raised',
             ('ValueError', 'cannot reshape array of size 0 into shape (1,1)', False, None))),
           ('odd-length',
            ('raised',
             ('ValueError', 'buffer size must be a multiple of element size', False, None))),
           ('width-str',
            ('returned',
             ('ndarray', '>i2', (4, 3), (6, 2), False, False,
              [[1, 515, 1029], [1543, 2057, 2571], [3085, 3599, 4113], [4627, 5141, 5655]]))),
           ('width-numpy-int',
            ('returned',
             ('ndarray', '>i4', (2, 3), (12, 4), False, False,
              [[66051, 67438087, 134810123], [202182159, 269554195, 336926231]]))),
           ('width-numpy-uint8',
            ('returned',
             ('ndarray', '>i4', (2, 3), (12, 4), False, False,
              [[66051, 67438087, 134810123], [202182159, 269554195, 336926231]]))),
           ('width-float',
            ('raised', ('TypeError', "data type '>i2.0' not understood", False, None))),
           ('width-bool',
            ('raised', ('TypeError', "data type '>iTrue' not understood", False, None))),
           ('width-none',
            ('raised', ('TypeError', "data type '>iNone' not understood", False, None))),
           ('width-3', ('raised', ('TypeError', "data type '>i3' not understood", False, None))),
           ('width-0', ('raised', ('TypeError', "data type '>i0' not understood", False, None))),
           ('width-negative',
            ('raised', ('TypeError', "data type '>i-2' not understood", False, None))),
           ('width-custom-format',
            ('returned',
             ('ndarray', '>i4', (2, 3), (12, 4), False, False,
              [[66051, 67438087, 134810123], [202182159, 269554195, 336926231]]))),
           ('content-str',
            ('raised', ('TypeError', "a bytes-like object is required, not 'str'", False, None))),
           ('content-none',
            ('raised',
             ('TypeError', "a bytes-like object is required, not 'NoneType'", False, None))),
           ('content-array',
            ('returned',
             ('ndarray', '>i2', (3, 2), (4, 2), True, False, [[0, 1], [2, 3], [4, 5]])))],
 'io': [('none', [('read', (720,), {}, 720, 720), ('read', (), {}, 720, 0)]),
        ('none-trailing-data', [('read', (720,), {}, 720, 720), ('read', (), {}, 723, 3)]),
        ('one-int8', [('read', (720,), {}, 720, 720), ('read', (), {}, 726, 6)]),
        ('one-int16', [('read', (720,), {}, 720, 720), ('read', (), {}, 744, 24)]),
        ('one-int32', [('read', (720,), {}, 720, 720), ('read', (), {}, 760, 40)]),
        ('one-int64', [('read', (720,), {}, 720, 720), ('read', (), {}, 752, 32)]),
        ('one-single-sample', [('read', (720,), {}, 720, 720), ('read', (), {}, 722, 2)]),
        ('two', [('read', (720,), {}, 720, 720), ('read', (), {}, 768, 48)]),
        ('three-mixed', [('read', (720,), {}, 720, 720), ('read', (), {}, 811, 91)]),
        ('seven', [('read', (720,), {}, 720, 720), ('read', (), {}, 832, 112)]),
        ('trailing-data', [('read', (720,), {}, 720, 720), ('read', (), {}, 755, 35)]),
        ('empty-image', [('read', (720,), {}, 720, 720), ('read', (), {}, 728, 8)]),
        ('empty-image-last', [('read', (720,), {}, 720, 720), ('read', (), {}, 728, 8)]),
        ('record-longer-than-shape', [('read', (720,), {}, 720, 720), ('read', (), {}, 752, 32)]),
        ('record-shorter-than-shape', [('read', (720,), {}, 720, 720), ('read', (), {}, 744, 24)]),
        ('second-shape-wrong', [('read', (720,), {}, 720, 720), ('read', (), {}, 768, 48)]),
        ('gap-consumed-by-first', [('read', (720,), {}, 720, 720), ('read', (), {}, 737, 17)]),
        ('zero-record-length', [('read', (720,), {}, 720, 720), ('read', (), {}, 726, 6)]),
        ('data-missing', [('read', (720,), {}, 720, 720), ('read', (), {}, 720, 0)]),
        ('data-short', [('read', (720,), {}, 720, 720), ('read', (), {}, 742, 22)]),
        ('data-short-odd', [('read', (720,), {}, 720, 720), ('read', (), {}, 743, 23)]),
        ('second-data-short', [('read', (720,), {}, 720, 720), ('read', (), {}, 764, 44)]),
        ('record-not-multiple-of-itemsize',
         [('read', (720,), {}, 720, 720), ('read', (), {}, 727, 7)]),
        ('three-byte-samples', [('read', (720,), {}, 720, 720), ('read', (), {}, 726, 6)]),
        ('zero-byte-samples', [('read', (720,), {}, 720, 720), ('read', (), {}, 726, 6)]),
        ('sixteen-byte-samples', [('read', (720,), {}, 720, 720), ('read', (), {}, 736, 16)]),
        ('second-sample-size-wrong', [('read', (720,), {}, 720, 720), ('read', (), {}, 730, 10)]),
        ('blank-record-length', [('read', (720,), {}, 720, 720), ('read', (), {}, 725, 5)]),
        ('blank-record-length-then-next',
         [('read', (720,), {}, 720, 720), ('read', (), {}, 725, 5)]),
        ('blank-first-of-two', [('read', (720,), {}, 720, 720), ('read', (), {}, 730, 10)]),
        ('blank-pixels', [('read', (720,), {}, 720, 720), ('read', (), {}, 732, 12)]),
        ('blank-lines', [('read', (720,), {}, 720, 720), ('read', (), {}, 732, 12)]),
        ('blank-pixels-and-lines', [('read', (720,), {}, 720, 720), ('read', (), {}, 732, 12)]),
        ('blank-sample-size', [('read', (720,), {}, 720, 720), ('read', (), {}, 732, 12)]),
        ('all-blank', [('read', (720,), {}, 720, 720), ('read', (), {}, 729, 9)]),
        ('negative-record-length', [('read', (720,), {}, 720, 720), ('read', (), {}, 726, 6)]),
        ('negative-then-positive', [('read', (720,), {}, 720, 720), ('read', (), {}, 728, 8)]),
        ('eight-images', [('read', (720,), {}, 720, 720)]),
        ('declared-more-than-present', [('read', (720,), {}, 720, 720), ('read', (), {}, 724, 4)]),
        ('declared-blank', [('read', (720,), {}, 720, 720)]),
        ('count-not-a-number', [('read', (720,), {}, 720, 720)]),
        ('header-short', [('read', (720,), {}, 600, 600)]),
        ('header-only-694', [('read', (720,), {}, 694, 694), ('read', (), {}, 694, 0)]),
        ('header-only-693', [('read', (720,), {}, 693, 693)]),
        ('empty-file', [('read', (720,), {}, 0, 0)])],
 'trailer': [('none',
              ('returned', 'Container',
               "{'preamble': {'record_sequence_number': 1, 'first_record_subtype': 63, "
               "'record_type': 192, 'second_record_subtype': 18, 'third_record_subtype': 18, "
               "'record_length': 720}, 'ascii_ebcdic_code': 'A', 'blanks1': '', "
               "'format_control_document_id': 'CEOS-SAR', "
               "'format_control_document_revision_number': 'A', 'record_format_revision_level': "
               "'A', 'software_release_and_revision_number': '001.001', 'file_number': 4, "
               "'file_id': 'TRL', 'record_sequence_and_location_type_flag': 'FSEQ', "
               "'sequence_number_of_location': 1, 'field_length_of_sequence_number': 4, "
               "'record_code_and_location_type_flag': 'FTYP', 'location_of_record_code': 5, "
               "'field_length_of_record_code': 4, 'record_length_and_location_type_flag': 'FLGT', "
               "'location_of_record_length': 9, 'field_length_of_record_length': 4, "
               "'dataset_summary': {'number_of_records': 0, 'record_length': 0}, 'map_projection': "
               "{'number_of_records': 1, 'record_length': 10}, 'platform_position': "
               "{'number_of_records': 0, 'record_length': 20}, 'attitude': {'number_of_records': "
               "1, 'record_length': 30}, 'radiometric_data': {'number_of_records': 0, "
               "'record_length': 40}, 'radiometric_compensation': {'number_of_records': 1, "
               "'record_length': 50}, 'data_quality_summary': {'number_of_records': 0, "
               "'record_length': 60}, 'data_histogram': {'number_of_records': 1, 'record_length': "
               "70}, 'range_spectra': {'number_of_records': 0, 'record_length': 80}, "
               "'dem_descriptor': {'number_of_records': 1, 'record_length': 90}, "
               "'radar_parameter_update': {'number_of_records': 0, 'record_length': 100}, "
               "'annotation_data': {'number_of_records': 1, 'record_length': 110}, "
               "'detail_processing': {'number_of_records': 0, 'record_length': 120}, "
               "'calibration': {'number_of_records': 1, 'record_length': 130}, 'gcp': "
               "{'number_of_records': 0, 'record_length': 140}, 'spare': '', "
               "'facility_related_data_1': {'number_of_records': 0, 'record_length': 0}, "
               "'facility_related_data_2': {'number_of_records': 1, 'record_length': 1000}, "
               "'facility_related_data_3': {'number_of_records': 2, 'record_length': 2000}, "
               "'facility_related_data_4': {'number_of_records': 3, 'record_length': 3000}, "
               "'facility_related_data_5': {'number_of_records': 4, 'record_length': 4000}, "
               "'number_of_low_resolution_images': 0, 'low_resolution_image_sizes': [], 'blanks': "
               "''}",
               'list', [])),
             ('none-trailing-data',
              ('returned', 'Container',
               "{'preamble': {'record_sequence_number': 1, 'first_record_subtype': 63, "
               "'record_type': 192, 'second_record_subtype': 18, 'third_record_subtype': 18, "
               "'record_length': 720}, 'ascii_ebcdic_code': 'A', 'blanks1': '', "
               "'format_control_document_id': 'CEOS-SAR', "
               "'format_control_document_revision_number': 'A', 'record_format_revision_level': "
               "'A', 'software_release_and_revision_number': '001.001', 'file_number': 4, "
               "'file_id': 'TRL', 'record_sequence_and_location_type_flag': 'FSEQ', "
               "'sequence_number_of_location': 1, 'field_length_of_sequence_number': 4, "
               "'record_code_and_location_type_flag': 'FTYP', 'location_of_record_code': 5, "
               "'field_length_of_record_code': 4, 'record_length_and_location_type_flag': 'FLGT', "
               "'location_of_record_length': 9, 'field_length_of_record_length': 4, "
               "'dataset_summary': {'number_of_records': 0, 'record_length': 0}, 'map_projection': "
               "{'number_of_records': 1, 'record_length': 10}, 'platform_position': "
               "{'number_of_records': 0, 'record_length': 20}, 'attitude': {'number_of_records': "
               "1, 'record_length': 30}, 'radiometric_data': {'number_of_records': 0, "
               "'record_length': 40}, 'radiometric_compensation': {'number_of_records': 1, "
               "'record_length': 50}, 'data_quality_summary': {'number_of_records': 0, "
               "'record_length': 60}, 'data_histogram': {'number_of_records': 1, 'record_length': "
               "70}, 'range_spectra': {'number_of_records': 0, 'record_length': 80}, "
               "'dem_descriptor': {'number_of_records': 1, 'record_length': 90}, "
               "'radar_parameter_update': {'number_of_records': 0, 'record_length': 100}, "
               "'annotation_data': {'number_of_records': 1, 'record_length': 110}, "
               "'detail_processing': {'number_of_records': 0, 'record_length': 120}, "
               "'calibration': {'number_of_records': 1, 'record_length': 130}, 'gcp': "
               "{'number_of_records': 0, 'record_length': 140}, 'spare': '', "
               "'facility_related_data_1': {'number_of_records': 0, 'record_length': 0}, "
               "'facility_related_data_2': {'number_of_records': 1, 'record_length': 1000}, "
               "'facility_related_data_3': {'number_of_records': 2, 'record_length': 2000}, "
               "'facility_related_data_4': {'number_of_records': 3, 'record_length': 3000}, "
               "'facility_related_data_5': {'number_of_records': 4, 'record_length': 4000}, "
               "'number_of_low_resolution_images': 0, 'low_resolution_image_sizes': [], 'blanks': "
               "''}",
               'list', [])),
             ('one-int8',
              ('returned', 'Container',
               "{'preamble': {'record_sequence_number': 1, 'first_record_subtype': 63, "
               "'record_type': 192, 'second_record_subtype': 18, 'third_record_subtype': 18, "
               "'record_length': 720}, 'ascii_ebcdic_code': 'A', 'blanks1': '', "
               "'format_control_document_id': 'CEOS-SAR', "
               "'format_control_document_revision_number': 'A', 'record_format_revision_level': "
               "'A', 'software_release_and_revision_number': '001.001', 'file_number': 4, "
               "'file_id': 'TRL', 'record_sequence_and_location_type_flag': 'FSEQ', "
               "'sequence_number_of_location': 1, 'field_length_of_sequence_number': 4, "
               "'record_code_and_location_type_flag': 'FTYP', 'location_of_record_code': 5, "
               "'field_length_of_record_code': 4, 'record_length_and_location_type_flag': 'FLGT', "
               "'location_of_record_length': 9, 'field_length_of_record_length': 4, "
               "'dataset_summary': {'number_of_records': 0, 'record_length': 0}, 'map_projection': "
               "{'number_of_records': 1, 'record_length': 10}, 'platform_position': "
               "{'number_of_records': 0, 'record_length': 20}, 'attitude': {'number_of_records': "
               "1, 'record_length': 30}, 'radiometric_data': {'number_of_records': 0, "
               "'record_length': 40}, 'radiometric_compensation': {'number_of_records': 1, "
               "'record_length': 50}, 'data_quality_summary': {'number_of_records': 0, "
               "'record_length': 60}, 'data_histogram': {'number_of_records': 1, 'record_length': "
               "70}, 'range_spectra': {'number_of_records': 0, 'record_length': 80}, "
               "'dem_descriptor': {'number_of_records': 1, 'record_length': 90}, "
               "'radar_parameter_update': {'number_of_records': 0, 'record_length': 100}, "
               "'annotation_data': {'number_of_records': 1, 'record_length': 110}, "
               "'detail_processing': {'number_of_records': 0, 'record_length': 120}, "
               "'calibration': {'number_of_records': 1, 'record_length': 130}, 'gcp': "
               "{'number_of_records': 0, 'record_length': 140}, 'spare': '', "
               "'facility_related_data_1': {'number_of_records': 0, 'record_length': 0}, "
               "'facility_related_data_2': {'number_of_records': 1, 'record_length': 1000}, "
               "'facility_related_data_3': {'number_of_records': 2, 'record_length': 2000}, "
               "'facility_related_data_4': {'number_of_records': 3, 'record_length': 3000}, "
               "'facility_related_data_5': {'number_of_records': 4, 'record_length': 4000}, "
               "'number_of_low_resolution_images': 1, 'low_resolution_image_sizes': "
               "[{'record_length': 6, 'number_of_pixels': 3, 'number_of_lines': 2, "
               "'number_of_bytes_per_one_sample': 1}], 'blanks': ''}",
               'list',
               [('ndarray', '|i1', (3, 2), (2, 1), False, False,
                 [[0, 29], [58, -68], [-39, -10]])])),
             ('one-int16',
              ('returned', 'Container',
               "{'preamble': {'record_sequence_number': 1, 'first_record_subtype': 63, "
               "'record_type': 192, 'second_record_subtype': 18, 'third_record_subtype': 18, "
               "'record_length': 720}, 'ascii_ebcdic_code': 'A', 'blanks1': '', "
               "'format_control_document_id': 'CEOS-SAR', "
               "'format_control_document_revision_number': 'A', 'record_format_revision_level': "
               "'A', 'software_release_and_revision_number': '001.001', 'file_number': 4, "
               "'file_id': 'TRL', 'record_sequence_and_location_type_flag': 'FSEQ', "
               "'sequence_number_of_location': 1, 'field_length_of_sequence_number': 4, "
               "'record_code_and_location_type_flag': 'FTYP', 'location_of_record_code': 5, "
               "'field_length_of_record_code': 4, 'record_length_and_location_type_flag': 'FLGT', "
               "'location_of_record_length': 9, 'field_length_of_record_length': 4, "
               "'dataset_summary': {'number_of_records': 0, 'record_length': 0}, 'map_projection': "
               "{'number_of_records': 1, 'record_length': 10}, 'platform_position': "
               "{'number_of_records': 0, 'record_length': 20}, 'attitude': {'number_of_records': "
               "1, 'record_length': 30}, 'radiometric_data': {'number_of_records': 0, "
               "'record_length': 40}, 'radiometric_compensation': {'number_of_records': 1, "
               "'record_length': 50}, 'data_quality_summary': {'number_of_records': 0, "
               "'record_length': 60}, 'data_histogram': {'number_of_records': 1, 'record_length': "
               "70}, 'range_spectra': {'number_of_records': 0, 'record_length': 80}, "
               "'dem_descriptor': {'number_of_records': 1, 'record_length': 90}, "
               "'radar_parameter_update': {'number_of_records': 0, 'record_length': 100}, "
               "'annotation_data': {'number_of_records': 1, 'record_length': 110}, "
               "'detail_processing': {'number_of_records': 0, 'record_length': 120}, "
               "'calibration': {'number_of_records': 1, 'record_length': 130}, 'gcp': "
               "{'number_of_records': 0, 'record_length': 140}, 'spare': '', "
               "'facility_related_data_1': {'number_of_records': 0, 'record_length': 0}, "
               "'facility_related_data_2': {'number_of_records': 1, 'record_length': 1000}, "
               "'facility_related_data_3': {'number_of_records': 2, 'record_length': 2000}, "
               "'facility_related_data_4': {'number_of_records': 3, 'record_length': 3000}, "
               "'facility_related_data_5': {'number_of_records': 4, 'record_length': 4000}, "
               "'number_of_low_resolution_images': 1, 'low_resolution_image_sizes': "
               "[{'record_length': 24, 'number_of_pixels': 4, 'number_of_lines': 3, "
               "'number_of_bytes_per_one_sample': 2}], 'blanks': ''}",
               'list',
               [('ndarray', '>i2', (4, 3), (6, 2), False, False,
                 [[29, 15036, -9738], [30869, -19916, 20846], [-4083, 10924, -13850],
                  [26757, -24028, 16734]])])),
             ('one-int32',
              ('returned', 'Container',
               "{'preamble': {'record_sequence_number': 1, 'first_record_subtype': 63, "
               "'record_type': 192, 'second_record_subtype': 18, 'third_record_subtype': 18, "
               "'record_length': 720}, 'ascii_ebcdic_code': 'A', 'blanks1': '', "
               "'format_control_document_id': 'CEOS-SAR', "
               "'format_control_document_revision_number': 'A', 'record_format_revision_level': "
               "'A', 'software_release_and_revision_number': '001.001', 'file_number': 4, "
               "'file_id': 'TRL', 'record_sequence_and_location_type_flag': 'FSEQ', "
               "'sequence_number_of_location': 1, 'field_length_of_sequence_number': 4, "
               "'record_code_and_location_type_flag': 'FTYP', 'location_of_record_code': 5, "
               "'field_length_of_record_code': 4, 'record_length_and_location_type_flag': 'FLGT', "
               "'location_of_record_length': 9, 'field_length_of_record_length': 4, "
               "'dataset_summary': {'number_of_records': 0, 'record_length': 0}, 'map_projection': "
               "{'number_of_records': 1, 'record_length': 10}, 'platform_position': "
               "{'number_of_records': 0, 'record_length': 20}, 'attitude': {'number_of_records': "
               "1, 'record_length': 30}, 'radiometric_data': {'number_of_records': 0, "
               "'record_length': 40}, 'radiometric_compensation': {'number_of_records': 1, "
               "'record_length': 50}, 'data_quality_summary': {'number_of_records': 0, "
               "'record_length': 60}, 'data_histogram': {'number_of_records': 1, 'record_length': "
               "70}, 'range_spectra': {'number_of_records': 0, 'record_length': 80}, "
               "'dem_descriptor': {'number_of_records': 1, 'record_length': 90}, "
               "'radar_parameter_update': {'number_of_records': 0, 'record_length': 100}, "
               "'annotation_data': {'number_of_records': 1, 'record_length': 110}, "
               "'detail_processing': {'number_of_records': 0, 'record_length': 120}, "
               "'calibration': {'number_of_records': 1, 'record_length': 130}, 'gcp': "
               "{'number_of_records': 0, 'record_length': 140}, 'spare': '', "
               "'facility_related_data_1': {'number_of_records': 0, 'record_length': 0}, "
               "'facility_related_data_2': {'number_of_records': 1, 'record_length': 1000}, "
               "'facility_related_data_3': {'number_of_records': 2, 'record_length': 2000}, "
               "'facility_related_data_4': {'number_of_records': 3, 'record_length': 3000}, "
               "'facility_related_data_5': {'number_of_records': 4, 'record_length': 4000}, "
               "'number_of_low_resolution_images': 1, 'low_resolution_image_sizes': "
               "[{'record_length': 40, 'number_of_pixels': 2, 'number_of_lines': 5, "
               "'number_of_bytes_per_one_sample': 4}], 'blanks': ''}",
               'list',
               [('ndarray', '>i4', (2, 5), (20, 4), False, False,
                 [[1915580, -638158699, -1305194130, -267572564, -907646843],
                  [-1574682274, -520283492, -1177134987, -1844170418, -789771636]])])),
             ('one-int64',
              ('returned', 'Container',
               "{'preamble': {'record_sequence_number': 1, 'first_record_subtype': 63, "
               "'record_type': 192, 'second_record_subtype': 18, 'third_record_subtype': 18, "
               "'record_length': 720}, 'ascii_ebcdic_code': 'A', 'blanks1': '', "
               "'format_control_document_id': 'CEOS-SAR', "
               "'format_control_document_revision_number': 'A', 'record_format_revision_level': "
               "'A', 'software_release_and_revision_number': '001.001', 'file_number': 4, "
               "'file_id': 'TRL', 'record_sequence_and_location_type_flag': 'FSEQ', "
               "'sequence_number_of_location': 1, 'field_length_of_sequence_number': 4, "
               "'record_code_and_location_type_flag': 'FTYP', 'location_of_record_code': 5, "
               "'field_length_of_record_code': 4, 'record_length_and_location_type_flag': 'FLGT', "
               "'location_of_record_length': 9, 'field_length_of_record_length': 4, "
               "'dataset_summary': {'number_of_records': 0, 'record_length': 0}, 'map_projection': "
               "{'number_of_records': 1, 'record_length': 10}, 'platform_position': "
               "{'number_of_records': 0, 'record_length': 20}, 'attitude': {'number_of_records': "
               "1, 'record_length': 30}, 'radiometric_data': {'number_of_records': 0, "
               "'record_length': 40}, 'radiometric_compensation': {'number_of_records': 1, "
               "'record_length': 50}, 'data_quality_summary': {'number_of_records': 0, "
               "'record_length': 60}, 'data_histogram': {'number_of_records': 1, 'record_length': "
               "70}, 'range_spectra': {'number_of_records': 0, 'record_length': 80}, "
               "'dem_descriptor': {'number_of_records': 1, 'record_length': 90}, "
               "'radar_parameter_update': {'number_of_records': 0, 'record_length': 100}, "
               "'annotation_data': {'number_of_records': 1, 'record_length': 110}, "
               "'detail_processing': {'number_of_records': 0, 'record_length': 120}, "
               "'calibration': {'number_of_records': 1, 'record_length': 130}, 'gcp': "
               "{'number_of_records': 0, 'record_length': 140}, 'spare': '', "
               "'facility_related_data_1': {'number_of_records': 0, 'record_length': 0}, "
               "'facility_related_data_2': {'number_of_records': 1, 'record_length': 1000}, "
               "'facility_related_data_3': {'number_of_records': 2, 'record_length': 2000}, "
               "'facility_related_data_4': {'number_of_records': 3, 'record_length': 3000}, "
               "'facility_related_data_5': {'number_of_records': 4, 'record_length': 4000}, "
               "'number_of_low_resolution_images': 1, 'low_resolution_image_sizes': "
               "[{'record_length': 32, 'number_of_pixels': 2, 'number_of_lines': 2, "
               "'number_of_bytes_per_one_sample': 8}], 'blanks': ''}",
               'list',
               [('ndarray', '>i8', (2, 2), (16, 8), False, False,
                 [[8227357109680277, -5605766099253777748],
                  [-3898313504282361506, -2234600579670845323]])])),
             ('one-single-sample',
              ('returned', 'Container',
               "{'preamble': {'record_sequence_number': 1, 'first_record_subtype': 63, "
               "'record_type': 192, 'second_record_subtype': 18, 'third_record_subtype': 18, "
               "'record_length': 720}, 'ascii_ebcdic_code': 'A', 'blanks1': '', "
               "'format_control_document_id': 'CEOS-SAR', "
               "'format_control_document_revision_number': 'A', 'record_format_revision_level': "
               "'A', 'software_release_and_revision_number': '001.001', 'file_number': 4, "
               "'file_id': 'TRL', 'record_sequence_and_location_type_flag': 'FSEQ', "
               "'sequence_number_of_location': 1, 'field_length_of_sequence_number': 4, "
               "'record_code_and_location_type_flag': 'FTYP', 'location_of_record_code': 5, "
               "'field_length_of_record_code': 4, 'record_length_and_location_type_flag': 'FLGT', "
               "'location_of_record_length': 9, 'field_length_of_record_length': 4, "
               "'dataset_summary': {'number_of_records': 0, 'record_length': 0}, 'map_projection': "
               "{'number_of_records': 1, 'record_length': 10}, 'platform_position': "
               "{'number_of_records': 0, 'record_length': 20}, 'attitude': {'number_of_records': "
               "1, 'record_length': 30}, 'radiometric_data': {'number_of_records': 0, "
               "'record_length': 40}, 'radiometric_compensation': {'number_of_records': 1, "
               "'record_length': 50}, 'data_quality_summary': {'number_of_records': 0, "
               "'record_length': 60}, 'data_histogram': {'number_of_records': 1, 'record_length': "
               "70}, 'range_spectra': {'number_of_records': 0, 'record_length': 80}, "
               "'dem_descriptor': {'number_of_records': 1, 'record_length': 90}, "
               "'radar_parameter_update': {'number_of_records': 0, 'record_length': 100}, "
               "'annotation_data': {'number_of_records': 1, 'record_length': 110}, "
               "'detail_processing': {'number_of_records': 0, 'record_length': 120}, "
               "'calibration': {'number_of_records': 1, 'record_length': 130}, 'gcp': "
               "{'number_of_records': 0, 'record_length': 140}, 'spare': '', "
               "'facility_related_data_1': {'number_of_records': 0, 'record_length': 0}, "
               "'facility_related_data_2': {'number_of_records': 1, 'record_length': 1000}, "
               "'facility_related_data_3': {'number_of_records': 2, 'record_length': 2000}, "
               "'facility_related_data_4': {'number_of_records': 3, 'record_length': 3000}, "
               "'facility_related_data_5': {'number_of_records': 4, 'record_length': 4000}, "
               "'number_of_low_resolution_images': 1, 'low_resolution_image_sizes': "
               "[{'record_length': 2, 'number_of_pixels': 1, 'number_of_lines': 1, "
               "'number_of_bytes_per_one_sample': 2}], 'blanks': ''}",
               'list', [('ndarray', '>i2', (1, 1), (2, 2), False, False, [[29]])])),
             ('two',
              ('returned', 'Container',
               "{'preamble': {'record_sequence_number': 1, 'first_record_subtype': 63, "
               "'record_type': 192, 'second_record_subtype': 18, 'third_record_subtype': 18, "
               "'record_length': 720}, 'ascii_ebcdic_code': 'A', 'blanks1': '', "
               "'format_control_document_id': 'CEOS-SAR', "
               "'format_control_document_revision_number': 'A', 'record_format_revision_level': "
               "'A', 'software_release_and_revision_number': '001.001', 'file_number': 4, "
               "'file_id': 'TRL', 'record_sequence_and_location_type_flag': 'FSEQ', "
               "'sequence_number_of_location': 1, 'field_length_of_sequence_number': 4, "
               "'record_code_and_location_type_flag': 'FTYP', 'location_of_record_code': 5, "
               "'field_length_of_record_code': 4, 'record_length_and_location_type_flag': 'FLGT', "
               "'location_of_record_length': 9, 'field_length_of_record_length': 4, "
               "'dataset_summary': {'number_of_records': 0, 'record_length': 0}, 'map_projection': "
               "{'number_of_records': 1, 'record_length': 10}, 'platform_position': "
               "{'number_of_records': 0, 'record_length': 20}, 'attitude': {'number_of_records': "
               "1, 'record_length': 30}, 'radiometric_data': {'number_of_records': 0, "
               "'record_length': 40}, 'radiometric_compensation': {'number_of_records': 1, "
               "'record_length': 50}, 'data_quality_summary': {'number_of_records': 0, "
               "'record_length': 60}, 'data_histogram': {'number_of_records': 1, 'record_length': "
               "70}, 'range_spectra': {'number_of_records': 0, 'record_length': 80}, "
               "'dem_descriptor': {'number_of_records': 1, 'record_length': 90}, "
               "'radar_parameter_update': {'number_of_records': 0, 'record_length': 100}, "
               "'annotation_data': {'number_of_records': 1, 'record_length': 110}, "
               "'detail_processing': {'number_of_records': 0, 'record_length': 120}, "
               "'calibration': {'number_of_records': 1, 'record_length': 130}, 'gcp': "
               "{'number_of_records': 0, 'record_length': 140}, 'spare': '', "
               "'facility_related_data_1': {'number_of_records': 0, 'record_length': 0}, "
               "'facility_related_data_2': {'number_of_records': 1, 'record_length': 1000}, "
               "'facility_related_data_3': {'number_of_records': 2, 'record_length': 2000}, "
               "'facility_related_data_4': {'number_of_records': 3, 'record_length': 3000}, "
               "'facility_related_data_5': {'number_of_records': 4, 'record_length': 4000}, "
               "'number_of_low_resolution_images': 2, 'low_resolution_image_sizes': "
               "[{'record_length': 24, 'number_of_pixels': 4, 'number_of_lines': 3, "
               "'number_of_bytes_per_one_sample': 2}, {'record_length': 24, 'number_of_pixels': 2, "
               "'number_of_lines': 3, 'number_of_bytes_per_one_sample': 4}], 'blanks': ''}",
               'list',
               [('ndarray', '>i2', (4, 3), (6, 2), False, False,
                 [[29, 15036, -9738], [30869, -19916, 20846], [-4083, 10924, -13850],
                  [26757, -24028, 16734]]),
                ('ndarray', '>i4', (2, 3), (12, 4), False, False,
                 [[625106913, -31744582, -682002797], [355618769, -301232726, -951490941]])])),
             ('three-mixed',
              ('returned', 'Container',
               "{'preamble': {'record_sequence_number': 1, 'first_record_subtype': 63, "
               "'record_type': 192, 'second_record_subtype': 18, 'third_record_subtype': 18, "
               "'record_length': 720}, 'ascii_ebcdic_code': 'A', 'blanks1': '', "
               "'format_control_document_id': 'CEOS-SAR', "
               "'format_control_document_revision_number': 'A', 'record_format_revision_level': "
               "'A', 'software_release_and_revision_number': '001.001', 'file_number': 4, "
               "'file_id': 'TRL', 'record_sequence_and_location_type_flag': 'FSEQ', "
               "'sequence_number_of_location': 1, 'field_length_of_sequence_number': 4, "
               "'record_code_and_location_type_flag': 'FTYP', 'location_of_record_code': 5, "
               "'field_length_of_record_code': 4, 'record_length_and_location_type_flag': 'FLGT', "
               "'location_of_record_length': 9, 'field_length_of_record_length': 4, "
               "'dataset_summary': {'number_of_records': 0, 'record_length': 0}, 'map_projection': "
               "{'number_of_records': 1, 'record_length': 10}, 'platform_position': "
               "{'number_of_records': 0, 'record_length': 20}, 'attitude': {'number_of_records': "
               "1, 'record_length': 30}, 'radiometric_data': {'number_of_records': 0, "
               "'record_length': 40}, 'radiometric_compensation': {'number_of_records': 1, "
               "'record_length': 50}, 'data_quality_summary': {'number_of_records': 0, "
               "'record_length': 60}, 'data_histogram': {'number_of_records': 1, 'record_length': "
               "70}, 'range_spectra': {'number_of_records': 0, 'record_length': 80}, "
               "'dem_descriptor': {'number_of_records': 1, 'record_length': 90}, "
               "'radar_parameter_update': {'number_of_records': 0, 'record_length': 100}, "
               "'annotation_data': {'number_of_records': 1, 'record_length': 110}, "
               "'detail_processing': {'number_of_records': 0, 'record_length': 120}, "
               "'calibration': {'number_of_records': 1, 'record_length': 130}, 'gcp': "
               "{'number_of_records': 0, 'record_length': 140}, 'spare': '', "
               "'facility_related_data_1': {'number_of_records': 0, 'record_length': 0}, "
               "'facility_related_data_2': {'number_of_records': 1, 'record_length': 1000}, "
               "'facility_related_data_3': {'number_of_records': 2, 'record_length': 2000}, "
               "'facility_related_data_4': {'number_of_records': 3, 'record_length': 3000}, "
               "'facility_related_data_5': {'number_of_records': 4, 'record_length': 4000}, "
               "'number_of_low_resolution_images': 3, 'low_resolution_image_sizes': "
               "[{'record_length': 5, 'number_of_pixels': 5, 'number_of_lines': 1, "
               "'number_of_bytes_per_one_sample': 1}, {'record_length': 14, 'number_of_pixels': 1, "
               "'number_of_lines': 7, 'number_of_bytes_per_one_sample': 2}, {'record_length': 72, "
               "'number_of_pixels': 3, 'number_of_lines': 3, 'number_of_bytes_per_one_sample': "
               "8}], 'blanks': ''}",
               'list',
               [('ndarray', '|i1', (5, 1), (1, 1), False, False, [[0], [29], [58], [-68], [-39]]),
                ('ndarray', '>i2', (1, 7), (14, 2), False, False,
                 [[9538, 24545, -485, -25158, -10407, 30355, 5426]]),
                ('ndarray', '>i8', (3, 3), (24, 8), False, False,
                 [[5361399043303981791, -252593313531071242, 1382801691697384360],
                  [3046514611997156031, -2567478844349524778, -932083839121069176],
                  [731629085473669791, -4882364370873011018, -3174911775901594776]])])),
             ('seven',
              ('returned', 'Container',
               "{'preamble': {'record_sequence_number': 1, 'first_record_subtype': 63, "
               "'record_type': 192, 'second_record_subtype': 18, 'third_record_subtype': 18, "
               "'record_length': 720}, 'ascii_ebcdic_code': 'A', 'blanks1': '', "
               "'format_control_document_id': 'CEOS-SAR', "
               "'format_control_document_revision_number': 'A', 'record_format_revision_level': "
               "'A', 'software_release_and_revision_number': '001.001', 'file_number': 4, "
               "'file_id': 'TRL', 'record_sequence_and_location_type_flag': 'FSEQ', "
               "'sequence_number_of_location': 1, 'field_length_of_sequence_number': 4, "
               "'record_code_and_location_type_flag': 'FTYP', 'location_of_record_code': 5, "
               "'field_length_of_record_code': 4, 'record_length_and_location_type_flag': 'FLGT', "
               "'location_of_record_length': 9, 'field_length_of_record_length': 4, "
               "'dataset_summary': {'number_of_records': 0, 'record_length': 0}, 'map_projection': "
               "{'number_of_records': 1, 'record_length': 10}, 'platform_position': "
               "{'number_of_records': 0, 'record_length': 20}, 'attitude': {'number_of_records': "
               "1, 'record_length': 30}, 'radiometric_data': {'number_of_records': 0, "
               "'record_length': 40}, 'radiometric_compensation': {'number_of_records': 1, "
               "'record_length': 50}, 'data_quality_summary': {'number_of_records': 0, "
               "'record_length': 60}, 'data_histogram': {'number_of_records': 1, 'record_length': "
               "70}, 'range_spectra': {'number_of_records': 0, 'record_length': 80}, "
               "'dem_descriptor': {'number_of_records': 1, 'record_length': 90}, "
               "'radar_parameter_update': {'number_of_records': 0, 'record_length': 100}, "
               "'annotation_data': {'number_of_records': 1, 'record_length': 110}, "
               "'detail_processing': {'number_of_records': 0, 'record_length': 120}, "
               "'calibration': {'number_of_records': 1, 'record_length': 130}, 'gcp': "
               "{'number_of_records': 0, 'record_length': 140}, 'spare': '', "
               "'facility_related_data_1': {'number_of_records': 0, 'record_length': 0}, "
               "'facility_related_data_2': {'number_of_records': 1, 'record_length': 1000}, "
               "'facility_related_data_3': {'number_of_records': 2, 'record_length': 2000}, "
               "'facility_related_data_4': {'number_of_records': 3, 'record_length': 3000}, "
               "'facility_related_data_5': {'number_of_records': 4, 'record_length': 4000}, "
               "'number_of_low_resolution_images': 7, 'low_resolution_image_sizes': "
               "[{'record_length': 4, 'number_of_pixels': 1, 'number_of_lines': 2, "
               "'number_of_bytes_per_one_sample': 2}, {'record_length': 8, 'number_of_pixels': 2, "
               "'number_of_lines': 2, 'number_of_bytes_per_one_sample': 2}, {'record_length': 12, "
               "'number_of_pixels': 3, 'number_of_lines': 2, 'number_of_bytes_per_one_sample': 2}, "
               "{'record_length': 16, 'number_of_pixels': 4, 'number_of_lines': 2, "
               "'number_of_bytes_per_one_sample': 2}, {'record_length': 20, 'number_of_pixels': 5, "
               "'number_of_lines': 2, 'number_of_bytes_per_one_sample': 2}, {'record_length': 24, "
               "'number_of_pixels': 6, 'number_of_lines': 2, 'number_of_bytes_per_one_sample': 2}, "
               "{'record_length': 28, 'number_of_pixels': 7, 'number_of_lines': 2, "
               "'number_of_bytes_per_one_sample': 2}], 'blanks': ''}",
               'list',
               [('ndarray', '>i2', (1, 2), (4, 2), False, False, [[29, 15036]]),
                ('ndarray', '>i2', (2, 2), (4, 2), False, False, [[9538, 24545], [-485, -25158]]),
                ('ndarray', '>i2', (3, 2), (4, 2), False, False,
                 [[19047, -31738], [9024, -15649], [-898, -25672]]),
                ('ndarray', '>i2', (4, 2), (4, 2), False, False,
                 [[28556, -22229], [18533, -6396], [8611, -16163], [24444, -26341]]),
                ('ndarray', '>i2', (5, 2), (4, 2), False, False,
                 [[-27471, -12720], [28042, 3113], [18120, -6910], [-31583, -16832],
                  [23930, -999]]),
                ('ndarray', '>i2', (6, 2), (4, 2), False, False,
                 [[-17962, -3211], [-27985, 12622], [27629, 2599], [-22074, -7323], [-32097, 8510],
                  [23517, -1513]]),
                ('ndarray', '>i2', (7, 2), (4, 2), False, False,
                 [[-8453, 6298], [-18476, 22131], [-28654, 12108], [-12565, 2186], [-22588, 18019],
                  [-32766, 7996], [-16677, -1926]])])),
             ('trailing-data',
              ('returned', 'Container',
               "{'preamble': {'record_sequence_number': 1, 'first_record_subtype': 63, "
               "'record_type': 192, 'second_record_subtype': 18, 'third_record_subtype': 18, "
               "'record_length': 720}, 'ascii_ebcdic_code': 'A', 'blanks1': '', "
               "'format_control_document_id': 'CEOS-SAR', "
               "'format_control_document_revision_number': 'A', 'record_format_revision_level': "
               "'A', 'software_release_and_revision_number': '001.001', 'file_number': 4, "
               "'file_id': 'TRL', 'record_sequence_and_location_type_flag': 'FSEQ', "
               "'sequence_number_of_location': 1, 'field_length_of_sequence_number': 4, "
               "'record_code_and_location_type_flag': 'FTYP', 'location_of_record_code': 5, "
               "'field_length_of_record_code': 4, 'record_length_and_location_type_flag': 'FLGT', "
               "'location_of_record_length': 9, 'field_length_of_record_length': 4, "
               "'dataset_summary': {'number_of_records': 0, 'record_length': 0}, 'map_projection': "
               "{'number_of_records': 1, 'record_length': 10}, 'platform_position': "
               "{'number_of_records': 0, 'record_length': 20}, 'attitude': {'number_of_records': "
               "1, 'record_length': 30}, 'radiometric_data': {'number_of_records': 0, "
               "'record_length': 40}, 'radiometric_compensation': {'number_of_records': 1, "
               "'record_length': 50}, 'data_quality_summary': {'number_of_records': 0, "
               "'record_length': 60}, 'data_histogram': {'number_of_records': 1, 'record_length': "
               "70}, 'range_spectra': {'number_of_records': 0, 'record_length': 80}, "
               "'dem_descriptor': {'number_of_records': 1, 'record_length': 90}, "
               "'radar_parameter_update': {'number_of_records': 0, 'record_length': 100}, "
               "'annotation_data': {'number_of_records': 1, 'record_length': 110}, "
               "'detail_processing': {'number_of_records': 0, 'record_length': 120}, "
               "'calibration': {'number_of_records': 1, 'record_length': 130}, 'gcp': "
               "{'number_of_records': 0, 'record_length': 140}, 'spare': '', "
               "'facility_related_data_1': {'number_of_records': 0, 'record_length': 0}, "
               "'facility_related_data_2': {'number_of_records': 1, 'record_length': 1000}, "
               "'facility_related_data_3': {'number_of_records': 2, 'record_length': 2000}, "
               "'facility_related_data_4': {'number_of_records': 3, 'record_length': 3000}, "
               "'facility_related_data_5': {'number_of_records': 4, 'record_length': 4000}, "
               "'number_of_low_resolution_images': 1, 'low_resolution_image_sizes': "
               "[{'record_length': 24, 'number_of_pixels': 4, 'number_of_lines': 3, "
               "'number_of_bytes_per_one_sample': 2}], 'blanks': ''}",
               'list',
               [('ndarray', '>i2', (4, 3), (6, 2), False, False,
                 [[29, 15036, -9738], [30869, -19916, 20846], [-4083, 10924, -13850],
                  [26757, -24028, 16734]])])),
             ('empty-image',
              ('returned', 'Container',
               "{'preamble': {'record_sequence_number': 1, 'first_record_subtype': 63, "
               "'record_type': 192, 'second_record_subtype': 18, 'third_record_subtype': 18, "
               "'record_length': 720}, 'ascii_ebcdic_code': 'A', 'blanks1': '', "
               "'format_control_document_id': 'CEOS-SAR', "
               "'format_control_document_revision_number': 'A', 'record_format_revision_level': "
               "'A', 'software_release_and_revision_number': '001.001', 'file_number': 4, "
               "'file_id': 'TRL', 'record_sequence_and_location_type_flag': 'FSEQ', "
               "'sequence_number_of_location': 1, 'field_length_of_sequence_number': 4, "
               "'record_code_and_location_type_flag': 'FTYP', 'location_of_record_code': 5, "
               "'field_length_of_record_code': 4, 'record_length_and_location_type_flag': 'FLGT', "
               "'location_of_record_length': 9, 'field_length_of_record_length': 4, "
               "'dataset_summary': {'number_of_records': 0, 'record_length': 0}, 'map_projection': "
               "{'number_of_records': 1, 'record_length': 10}, 'platform_position': "
               "{'number_of_records': 0, 'record_length': 20}, 'attitude': {'number_of_records': "
               "1, 'record_length': 30}, 'radiometric_data': {'number_of_records': 0, "
               "'record_length': 40}, 'radiometric_compensation': {'number_of_records': 1, "
               "'record_length': 50}, 'data_quality_summary': {'number_of_records': 0, "
               "'record_length': 60}, 'data_histogram': {'number_of_records': 1, 'record_length': "
               "70}, 'range_spectra': {'number_of_records': 0, 'record_length': 80}, "
               "'dem_descriptor': {'number_of_records': 1, 'record_length': 90}, "
               "'radar_parameter_update': {'number_of_records': 0, 'record_length': 100}, "
               "'annotation_data': {'number_of_records': 1, 'record_length': 110}, "
               "'detail_processing': {'number_of_records': 0, 'record_length': 120}, "
               "'calibration': {'number_of_records': 1, 'record_length': 130}, 'gcp': "
               "{'number_of_records': 0, 'record_length': 140}, 'spare': '', "
               "'facility_related_data_1': {'number_of_records': 0, 'record_length': 0}, "
               "'facility_related_data_2': {'number_of_records': 1, 'record_length': 1000}, "
               "'facility_related_data_3': {'number_of_records': 2, 'record_length': 2000}, "
               "'facility_related_data_4': {'number_of_records': 3, 'record_length': 3000}, "
               "'facility_related_data_5': {'number_of_records': 4, 'record_length': 4000}, "
               "'number_of_low_resolution_images': 2, 'low_resolution_image_sizes': "
               "[{'record_length': 0, 'number_of_pixels': 0, 'number_of_lines': 4, "
               "'number_of_bytes_per_one_sample': 2}, {'record_length': 8, 'number_of_pixels': 2, "
               "'number_of_lines': 2, 'number_of_bytes_per_one_sample': 2}], 'blanks': ''}",
               'list',
               [('ndarray', '>i2', (0, 4), (8, 2), False, False, []),
                ('ndarray', '>i2', (2, 2), (4, 2), False, False,
                 [[9538, 24545], [-485, -25158]])])),
             ('empty-image-last',
              ('returned', 'Container',
               "{'preamble': {'record_sequence_number': 1, 'first_record_subtype': 63, "
               "'record_type': 192, 'second_record_subtype': 18, 'third_record_subtype': 18, "
               "'record_length': 720}, 'ascii_ebcdic_code': 'A', 'blanks1': '', "
               "'format_control_document_id': 'CEOS-SAR', "
               "'format_control_document_revision_number': 'A', 'record_format_revision_level': "
               "'A', 'software_release_and_revision_number': '001.001', 'file_number': 4, "
               "'file_id': 'TRL', 'record_sequence_and_location_type_flag': 'FSEQ', "
               "'sequence_number_of_location': 1, 'field_length_of_sequence_number': 4, "
               "'record_code_and_location_type_flag': 'FTYP', 'location_of_record_code': 5, "
               "'field_length_of_record_code': 4, 'record_length_and_location_type_flag': 'FLGT', "
               "'location_of_record_length': 9, 'field_length_of_record_length': 4, "
               "'dataset_summary': {'number_of_records': 0, 'record_length': 0}, 'map_projection': "
               "{'number_of_records': 1, 'record_length': 10}, 'platform_position': "
               "{'number_of_records': 0, 'record_length': 20}, 'attitude': {'number_of_records': "
               "1, 'record_length': 30}, 'radiometric_data': {'number_of_records': 0, "
               "'record_length': 40}, 'radiometric_compensation': {'number_of_records': 1, "
               "'record_length': 50}, 'data_quality_summary': {'number_of_records': 0, "
               "'record_length': 60}, 'data_histogram': {'number_of_records': 1, 'record_length': "
               "70}, 'range_spectra': {'number_of_records': 0, 'record_length': 80}, "
               "'dem_descriptor': {'number_of_records': 1, 'record_length': 90}, "
               "'radar_parameter_update': {'number_of_records': 0, 'record_length': 100}, "
               "'annotation_data': {'number_of_records': 1, 'record_length': 110}, "
               "'detail_processing': {'number_of_records': 0, 'record_length': 120}, "
               "'calibration': {'number_of_records': 1, 'record_length': 130}, 'gcp': "
               "{'number_of_records': 0, 'record_length': 140}, 'spare': '', "
               "'facility_related_data_1': {'number_of_records': 0, 'record_length': 0}, "
               "'facility_related_data_2': {'number_of_records': 1, 'record_length': 1000}, "
               "'facility_related_data_3': {'number_of_records': 2, 'record_length': 2000}, "
               "'facility_related_data_4': {'number_of_records': 3, 'record_length': 3000}, "
               "'facility_related_data_5': {'number_of_records': 4, 'record_length': 4000}, "
               "'number_of_low_resolution_images': 2, 'low_resolution_image_sizes': "
               "[{'record_length': 8, 'number_of_pixels': 2, 'number_of_lines': 2, "
               "'number_of_bytes_per_one_sample': 2}, {'record_length': 0, 'number_of_pixels': 3, "
               "'number_of_lines': 0, 'number_of_bytes_per_one_sample': 4}], 'blanks': ''}",
               'list',
               [('ndarray', '>i2', (2, 2), (4, 2), False, False, [[29, 15036], [-9738, 30869]]),
                ('ndarray', '>i4', (3, 0), (4, 4), False, False, [[], [], []])])),
             ('record-longer-than-shape',
              ('raised',
               ('ValueError', 'cannot reshape array of size 16 into shape (4,3)', False, None))),
             ('record-shorter-than-shape',
              ('raised',
               ('ValueError', 'cannot reshape array of size 8 into shape (4,3)', False, None))),
             ('second-shape-wrong',
              ('raised',
               ('ValueError', 'cannot reshape array of size 24 into shape (5,5)', False, None))),
             ('gap-consumed-by-first',
              ('returned', 'Container',
               "{'preamble': {'record_sequence_number': 1, 'first_record_subtype': 63, "
               "'record_type': 192, 'second_record_subtype': 18, 'third_record_subtype': 18, "
               "'record_length': 720}, 'ascii_ebcdic_code': 'A', 'blanks1': '', "
               "'format_control_document_id': 'CEOS-SAR', "
               "'format_control_document_revision_number': 'A', 'record_format_revision_level': "
               "'A', 'software_release_and_revision_number': '001.001', 'file_number': 4, "
               "'file_id': 'TRL', 'record_sequence_and_location_type_flag': 'FSEQ', "
               "'sequence_number_of_location': 1, 'field_length_of_sequence_number': 4, "
               "'record_code_and_location_type_flag': 'FTYP', 'location_of_record_code': 5, "
               "'field_length_of_record_code': 4, 'record_length_and_location_type_flag': 'FLGT', "
               "'location_of_record_length': 9, 'field_length_of_record_length': 4, "
               "'dataset_summary': {'number_of_records': 0, 'record_length': 0}, 'map_projection': "
               "{'number_of_records': 1, 'record_length': 10}, 'platform_position': "
               "{'number_of_records': 0, 'record_length': 20}, 'attitude': {'number_of_records': "
               "1, 'record_length': 30}, 'radiometric_data': {'number_of_records': 0, "
               "'record_length': 40}, 'radiometric_compensation': {'number_of_records': 1, "
               "'record_length': 50}, 'data_quality_summary': {'number_of_records': 0, "
               "'record_length': 60}, 'data_histogram': {'number_of_records': 1, 'record_length': "
               "70}, 'range_spectra': {'number_of_records': 0, 'record_length': 80}, "
               "'dem_descriptor': {'number_of_records': 1, 'record_length': 90}, "
               "'radar_parameter_update': {'number_of_records': 0, 'record_length': 100}, "
               "'annotation_data': {'number_of_records': 1, 'record_length': 110}, "
               "'detail_processing': {'number_of_records': 0, 'record_length': 120}, "
               "'calibration': {'number_of_records': 1, 'record_length': 130}, 'gcp': "
               "{'number_of_records': 0, 'record_length': 140}, 'spare': '', "
               "'facility_related_data_1': {'number_of_records': 0, 'record_length': 0}, "
               "'facility_related_data_2': {'number_of_records': 1, 'record_length': 1000}, "
               "'facility_related_data_3': {'number_of_records': 2, 'record_length': 2000}, "
               "'facility_related_data_4': {'number_of_records': 3, 'record_length': 3000}, "
               "'facility_related_data_5': {'number_of_records': 4, 'record_length': 4000}, "
               "'number_of_low_resolution_images': 2, 'low_resolution_image_sizes': "
               "[{'record_length': 12, 'number_of_pixels': 3, 'number_of_lines': 2, "
               "'number_of_bytes_per_one_sample': 2}, {'record_length': 4, 'number_of_pixels': 2, "
               "'number_of_lines': 2, 'number_of_bytes_per_one_sample': 1}], 'blanks': ''}",
               'list',
               [('ndarray', '>i2', (3, 2), (4, 2), False, False,
                 [[-17962, -3211], [-27985, 12622], [27629, 2599]]),
                ('ndarray', '|i1', (2, 2), (2, 1), False, False, [[1, 2], [3, 4]])])),
             ('zero-record-length',
              ('returned', 'Container',
               "{'preamble': {'record_sequence_number': 1, 'first_record_subtype': 63, "
               "'record_type': 192, 'second_record_subtype': 18, 'third_record_subtype': 18, "
               "'record_length': 720}, 'ascii_ebcdic_code': 'A', 'blanks1': '', "
               "'format_control_document_id': 'CEOS-SAR', "
               "'format_control_document_revision_number': 'A', 'record_format_revision_level': "
               "'A', 'software_release_and_revision_number': '001.001', 'file_number': 4, "
               "'file_id': 'TRL', 'record_sequence_and_location_type_flag': 'FSEQ', "
               "'sequence_number_of_location': 1, 'field_length_of_sequence_number': 4, "
               "'record_code_and_location_type_flag': 'FTYP', 'location_of_record_code': 5, "
               "'field_length_of_record_code': 4, 'record_length_and_location_type_flag': 'FLGT', "
               "'location_of_record_length': 9, 'field_length_of_record_length': 4, "
               "'dataset_summary': {'number_of_records': 0, 'record_length': 0}, 'map_projection': "
               "{'number_of_records': 1, 'record_length': 10}, 'platform_position': "
               "{'number_of_records': 0, 'record_length': 20}, 'attitude': {'number_of_records': "
               "1, 'record_length': 30}, 'radiometric_data': {'number_of_records': 0, "
               "'record_length': 40}, 'radiometric_compensation': {'number_of_records': 1, "
               "'record_length': 50}, 'data_quality_summary': {'number_of_records': 0, "
               "'record_length': 60}, 'data_histogram': {'number_of_records': 1, 'record_length': "
               "70}, 'range_spectra': {'number_of_records': 0, 'record_length': 80}, "
               "'dem_descriptor': {'number_of_records': 1, 'record_length': 90}, "
               "'radar_parameter_update': {'number_of_records': 0, 'record_length': 100}, "
               "'annotation_data': {'number_of_records': 1, 'record_length': 110}, "
               "'detail_processing': {'number_of_records': 0, 'record_length': 120}, "
               "'calibration': {'number_of_records': 1, 'record_length': 130}, 'gcp': "
               "{'number_of_records': 0, 'record_length': 140}, 'spare': '', "
               "'facility_related_data_1': {'number_of_records': 0, 'record_length': 0}, "
               "'facility_related_data_2': {'number_of_records': 1, 'record_length': 1000}, "
               "'facility_related_data_3': {'number_of_records': 2, 'record_length': 2000}, "
               "'facility_related_data_4': {'number_of_records': 3, 'record_length': 3000}, "
               "'facility_related_data_5': {'number_of_records': 4, 'record_length': 4000}, "
               "'number_of_low_resolution_images': 2, 'low_resolution_image_sizes': "
               "[{'record_length': 0, 'number_of_pixels': 0, 'number_of_lines': 3, "
               "'number_of_bytes_per_one_sample': 2}, {'record_length': 6, 'number_of_pixels': 3, "
               "'number_of_lines': 1, 'number_of_bytes_per_one_sample': 2}], 'blanks': ''}",
               'list',
               [('ndarray', '>i2', (0, 3), (6, 2), False, False, []),
                ('ndarray', '>i2', (3, 1), (2, 2), False, False, [[9538], [24545], [-485]])])),
             ('data-missing',
              ('raised',
               ('ValueError', 'cannot reshape array of size 0 into shape (4,3)', False, None))),
             ('data-short',
              ('raised',
               ('ValueError', 'cannot reshape array of size 11 into shape (4,3)', False, None))),
             ('data-short-odd',
              ('raised',
               ('ValueError', 'buffer size must be a multiple of element size', False, None))),
             ('second-data-short',
              ('raised',
               ('ValueError', 'cannot reshape array of size 5 into shape (2,3)', False, None))),
             ('record-not-multiple-of-itemsize',
              ('raised',
               ('ValueError', 'buffer size must be a multiple of element size', False, None))),
             ('three-byte-samples',
              ('raised', ('TypeError', "data type '>i3' not understood", False, None))),
             ('zero-byte-samples',
              ('raised', ('TypeError', "data type '>i0' not understood", False, None))),
             ('sixteen-byte-samples',
              ('raised', ('TypeError', "data type '>i16' not understood", False, None))),
             ('second-sample-size-wrong',
              ('raised', ('TypeError', "data type '>i3' not understood", False, None))),
             ('blank-record-length',
              ('returned', 'Container',
               "{'preamble': {'record_sequence_number': 1, 'first_record_subtype': 63, "
               "'record_type': 192, 'second_record_subtype': 18, 'third_record_subtype': 18, "
               "'record_length': 720}, 'ascii_ebcdic_code': 'A', 'blanks1': '', "
               "'format_control_document_id': 'CEOS-SAR', "
               "'format_control_document_revision_number': 'A', 'record_format_revision_level': "
               "'A', 'software_release_and_revision_number': '001.001', 'file_number': 4, "
               "'file_id': 'TRL', 'record_sequence_and_location_type_flag': 'FSEQ', "
               "'sequence_number_of_location': 1, 'field_length_of_sequence_number': 4, "
               "'record_code_and_location_type_flag': 'FTYP', 'location_of_record_code': 5, "
               "'field_length_of_record_code': 4, 'record_length_and_location_type_flag': 'FLGT', "
               "'location_of_record_length': 9, 'field_length_of_record_length': 4, "
               "'dataset_summary': {'number_of_records': 0, 'record_length': 0}, 'map_projection': "
               "{'number_of_records': 1, 'record_length': 10}, 'platform_position': "
               "{'number_of_records': 0, 'record_length': 20}, 'attitude': {'number_of_records': "
               "1, 'record_length': 30}, 'radiometric_data': {'number_of_records': 0, "
               "'record_length': 40}, 'radiometric_compensation': {'number_of_records': 1, "
               "'record_length': 50}, 'data_quality_summary': {'number_of_records': 0, "
               "'record_length': 60}, 'data_histogram': {'number_of_records': 1, 'record_length': "
               "70}, 'range_spectra': {'number_of_records': 0, 'record_length': 80}, "
               "'dem_descriptor': {'number_of_records': 1, 'record_length': 90}, "
               "'radar_parameter_update': {'number_of_records': 0, 'record_length': 100}, "
               "'annotation_data': {'number_of_records': 1, 'record_length': 110}, "
               "'detail_processing': {'number_of_records': 0, 'record_length': 120}, "
               "'calibration': {'number_of_records': 1, 'record_length': 130}, 'gcp': "
               "{'number_of_records': 0, 'record_length': 140}, 'spare': '', "
               "'facility_related_data_1': {'number_of_records': 0, 'record_length': 0}, "
               "'facility_related_data_2': {'number_of_records': 1, 'record_length': 1000}, "
               "'facility_related_data_3': {'number_of_records': 2, 'record_length': 2000}, "
               "'facility_related_data_4': {'number_of_records': 3, 'record_length': 3000}, "
               "'facility_related_data_5': {'number_of_records': 4, 'record_length': 4000}, "
               "'number_of_low_resolution_images': 1, 'low_resolution_image_sizes': "
               "[{'record_length': -1, 'number_of_pixels': 2, 'number_of_lines': 2, "
               "'number_of_bytes_per_one_sample': 1}], 'blanks': ''}",
               'list', [('ndarray', '|i1', (2, 2), (2, 1), False, False, [[0, 1], [2, 3]])])),
             ('blank-record-length-then-next',
              ('raised',
               ('ValueError', 'cannot reshape array of size 0 into shape (2,2)', False, None))),
             ('blank-first-of-two',
              ('raised',
               ('ValueError', 'cannot reshape array of size 9 into shape (4,1)', False, None))),
             ('blank-pixels',
              ('returned', 'Container',
               "{'preamble': {'record_sequence_number': 1, 'first_record_subtype': 63, "
               "'record_type': 192, 'second_record_subtype': 18, 'third_record_subtype': 18, "
               "'record_length': 720}, 'ascii_ebcdic_code': 'A', 'blanks1': '', "
               "'format_control_document_id': 'CEOS-SAR', "
               "'format_control_document_revision_number': 'A', 'record_format_revision_level': "
               "'A', 'software_release_and_revision_number': '001.001', 'file_number': 4, "
               "'file_id': 'TRL', 'record_sequence_and_location_type_flag': 'FSEQ', "
               "'sequence_number_of_location': 1, 'field_length_of_sequence_number': 4, "
               "'record_code_and_location_type_flag': 'FTYP', 'location_of_record_code': 5, "
               "'field_length_of_record_code': 4, 'record_length_and_location_type_flag': 'FLGT', "
               "'location_of_record_length': 9, 'field_length_of_record_length': 4, "
               "'dataset_summary': {'number_of_records': 0, 'record_length': 0}, 'map_projection': "
               "{'number_of_records': 1, 'record_length': 10}, 'platform_position': "
               "{'number_of_records': 0, 'record_length': 20}, 'attitude': {'number_of_records': "
               "1, 'record_length': 30}, 'radiometric_data': {'number_of_records': 0, "
               "'record_length': 40}, 'radiometric_compensation': {'number_of_records': 1, "
               "'record_length': 50}, 'data_quality_summary': {'number_of_records': 0, "
               "'record_length': 60}, 'data_histogram': {'number_of_records': 1, 'record_length': "
               "70}, 'range_spectra': {'number_of_records': 0, 'record_length': 80}, "
               "'dem_descriptor': {'number_of_records': 1, 'record_length': 90}, "
               "'radar_parameter_update': {'number_of_records': 0, 'record_length': 100}, "
               "'annotation_data': {'number_of_records': 1, 'record_length': 110}, "
               "'detail_processing': {'number_of_records': 0, 'record_length': 120}, "
               "'calibration': {'number_of_records': 1, 'record_length': 130}, 'gcp': "
               "{'number_of_records': 0, 'record_length': 140}, 'spare': '', "
               "'facility_related_data_1': {'number_of_records': 0, 'record_length': 0}, "
               "'facility_related_data_2': {'number_of_records': 1, 'record_length': 1000}, "
               "'facility_related_data_3': {'number_of_records': 2, 'record_length': 2000}, "
               "'facility_related_data_4': {'number_of_records': 3, 'record_length': 3000}, "
               "'facility_related_data_5': {'number_of_records': 4, 'record_length': 4000}, "
               "'number_of_low_resolution_images': 1, 'low_resolution_image_sizes': "
               "[{'record_length': 12, 'number_of_pixels': -1, 'number_of_lines': 3, "
               "'number_of_bytes_per_one_sample': 2}], 'blanks': ''}",
               'list',
               [('ndarray', '>i2', (2, 3), (6, 2), False, False,
                 [[28556, -22229, 18533], [-6396, 8611, -16163]])])),
             ('blank-lines',
              ('returned', 'Container',
               "{'preamble': {'record_sequence_number': 1, 'first_record_subtype': 63, "
               "'record_type': 192, 'second_record_subtype': 18, 'third_record_subtype': 18, "
               "'record_length': 720}, 'ascii_ebcdic_code': 'A', 'blanks1': '', "
               "'format_control_document_id': 'CEOS-SAR', "
               "'format_control_document_revision_number': 'A', 'record_format_revision_level': "
               "'A', 'software_release_and_revision_number': '001.001', 'file_number': 4, "
               "'file_id': 'TRL', 'record_sequence_and_location_type_flag': 'FSEQ', "
               "'sequence_number_of_location': 1, 'field_length_of_sequence_number': 4, "
               "'record_code_and_location_type_flag': 'FTYP', 'location_of_record_code': 5, "
               "'field_length_of_record_code': 4, 'record_length_and_location_type_flag': 'FLGT', "
               "'location_of_record_length': 9, 'field_length_of_record_length': 4, "
               "'dataset_summary': {'number_of_records': 0, 'record_length': 0}, 'map_projection': "
               "{'number_of_records': 1, 'record_length': 10}, 'platform_position': "
               "{'number_of_records': 0, 'record_length': 20}, 'attitude': {'number_of_records': "
               "1, 'record_length': 30}, 'radiometric_data': {'number_of_records': 0, "
               "'record_length': 40}, 'radiometric_compensation': {'number_of_records': 1, "
               "'record_length': 50}, 'data_quality_summary': {'number_of_records': 0, "
               "'record_length': 60}, 'data_histogram': {'number_of_records': 1, 'record_length': "
               "70}, 'range_spectra': {'number_of_records': 0, 'record_length': 80}, "
               "'dem_descriptor': {'number_of_records': 1, 'record_length': 90}, "
               "'radar_parameter_update': {'number_of_records': 0, 'record_length': 100}, "
               "'annotation_data': {'number_of_records': 1, 'record_length': 110}, "
               "'detail_processing': {'number_of_records': 0, 'record_length': 120}, "
               "'calibration': {'number_of_records': 1, 'record_length': 130}, 'gcp': "
               "{'number_of_records': 0, 'record_length': 140}, 'spare': '', "
               "'facility_related_data_1': {'number_of_records': 0, 'record_length': 0}, "
               "'facility_related_data_2': {'number_of_records': 1, 'record_length': 1000}, "
               "'facility_related_data_3': {'number_of_records': 2, 'record_length': 2000}, "
               "'facility_related_data_4': {'number_of_records': 3, 'record_length': 3000}, "
               "'facility_related_data_5': {'number_of_records': 4, 'record_length': 4000}, "
               "'number_of_low_resolution_images': 1, 'low_resolution_image_sizes': "
               "[{'record_length': 12, 'number_of_pixels': 3, 'number_of_lines': -1, "
               "'number_of_bytes_per_one_sample': 4}], 'blanks': ''}",
               'list',
               [('ndarray', '>i4', (3, 1), (4, 4), False, False,
                 [[1871489323], [1214637828], [564379869]])])),
             ('blank-pixels-and-lines',
              ('raised', ('ValueError', 'can only specify one unknown dimension', False, None))),
             ('blank-sample-size',
              ('raised', ('TypeError', "data type '>i-1' not understood", False, None))),
             ('all-blank',
              ('raised', ('TypeError', "data type '>i-1' not understood", False, None))),
             ('negative-record-length',
              ('returned', 'Container',
               "{'preamble': {'record_sequence_number': 1, 'first_record_subtype': 63, "
               "'record_type': 192, 'second_record_subtype': 18, 'third_record_subtype': 18, "
               "'record_length': 720}, 'ascii_ebcdic_code': 'A', 'blanks1': '', "
               "'format_control_document_id': 'CEOS-SAR', "
               "'format_control_document_revision_number': 'A', 'record_format_revision_level': "
               "'A', 'software_release_and_revision_number': '001.001', 'file_number': 4, "
               "'file_id': 'TRL', 'record_sequence_and_location_type_flag': 'FSEQ', "
               "'sequence_number_of_location': 1, 'field_length_of_sequence_number': 4, "
               "'record_code_and_location_type_flag': 'FTYP', 'location_of_record_code': 5, "
               "'field_length_of_record_code': 4, 'record_length_and_location_type_flag': 'FLGT', "
               "'location_of_record_length': 9, 'field_length_of_record_length': 4, "
               "'dataset_summary': {'number_of_records': 0, 'record_length': 0}, 'map_projection': "
               "{'number_of_records': 1, 'record_length': 10}, 'platform_position': "
               "{'number_of_records': 0, 'record_length': 20}, 'attitude': {'number_of_records': "
               "1, 'record_length': 30}, 'radiometric_data': {'number_of_records': 0, "
               "'record_length': 40}, 'radiometric_compensation': {'number_of_records': 1, "
               "'record_length': 50}, 'data_quality_summary': {'number_of_records': 0, "
               "'record_length': 60}, 'data_histogram': {'number_of_records': 1, 'record_length': "
               "70}, 'range_spectra': {'number_of_records': 0, 'record_length': 80}, "
               "'dem_descriptor': {'number_of_records': 1, 'record_length': 90}, "
               "'radar_parameter_update': {'number_of_records': 0, 'record_length': 100}, "
               "'annotation_data': {'number_of_records': 1, 'record_length': 110}, "
               "'detail_processing': {'number_of_records': 0, 'record_length': 120}, "
               "'calibration': {'number_of_records': 1, 'record_length': 130}, 'gcp': "
               "{'number_of_records': 0, 'record_length': 140}, 'spare': '', "
               "'facility_related_data_1': {'number_of_records': 0, 'record_length': 0}, "
               "'facility_related_data_2': {'number_of_records': 1, 'record_length': 1000}, "
               "'facility_related_data_3': {'number_of_records': 2, 'record_length': 2000}, "
               "'facility_related_data_4': {'number_of_records': 3, 'record_length': 3000}, "
               "'facility_related_data_5': {'number_of_records': 4, 'record_length': 4000}, "
               "'number_of_low_resolution_images': 1, 'low_resolution_image_sizes': "
               "[{'record_length': -3, 'number_of_pixels': 3, 'number_of_lines': 1, "
               "'number_of_bytes_per_one_sample': 1}], 'blanks': ''}",
               'list', [('ndarray', '|i1', (3, 1), (1, 1), False, False, [[0], [1], [2]])])),
             ('negative-then-positive',
              ('raised',
               ('ValueError', 'cannot reshape array of size 6 into shape (2,2)', False, None))),
             ('eight-images',
              ('raised',
               ('PaddingError', 'Error in path (parsing) -> blanks\nlength cannot be negative',
                False, None))),
             ('declared-more-than-present',
              ('raised', ('TypeError', "data type '>i-1' not understood", False, None))),
             ('declared-blank',
              ('raised',
               ('RangeError',
                'Error in path (parsing) -> low_resolution_image_sizes\ninvalid count -1', False,
                None))),
             ('count-not-a-number',
              ('raised',
               ('ValueError', "invalid literal for int() with base 10: 'abc'", False, None))),
             ('header-short',
              ('raised',
               ('StreamError',
                'Error in path (parsing) -> blanks\n'
                'stream read less than specified amount, expected 172, found 78',
                False, None))),
             ('header-only-694',
              ('returned', 'Container',
               "{'preamble': {'record_sequence_number': 1, 'first_record_subtype': 63, "
               "'record_type': 192, 'second_record_subtype': 18, 'third_record_subtype': 18, "
               "'record_length': 720}, 'ascii_ebcdic_code': 'A', 'blanks1': '', "
               "'format_control_document_id': 'CEOS-SAR', "
               "'format_control_document_revision_number': 'A', 'record_format_revision_level': "
               "'A', 'software_release_and_revision_number': '001.001', 'file_number': 4, "
               "'file_id': 'TRL', 'record_sequence_and_location_type_flag': 'FSEQ', "
               "'sequence_number_of_location': 1, 'field_length_of_sequence_number': 4, "
               "'record_code_and_location_type_flag': 'FTYP', 'location_of_record_code': 5, "
               "'field_length_of_record_code': 4, 'record_length_and_location_type_flag': 'FLGT', "
               "'location_of_record_length': 9, 'field_length_of_record_length': 4, "
               "'dataset_summary': {'number_of_records': 0, 'record_length': 0}, 'map_projection': "
               "{'number_of_records': 1, 'record_length': 10}, 'platform_position': "
               "{'number_of_records': 0, 'record_length': 20}, 'attitude': {'number_of_records': "
               "1, 'record_length': 30}, 'radiometric_data': {'number_of_records': 0, "
               "'record_length': 40}, 'radiometric_compensation': {'number_of_records': 1, "
               "'record_length': 50}, 'data_quality_summary': {'number_of_records': 0, "
               "'record_length': 60}, 'data_histogram': {'number_of_records': 1, 'record_length': "
               "70}, 'range_spectra': {'number_of_records': 0, 'record_length': 80}, "
               "'dem_descriptor': {'number_of_records': 1, 'record_length': 90}, "
               "'radar_parameter_update': {'number_of_records': 0, 'record_length': 100}, "
               "'annotation_data': {'number_of_records': 1, 'record_length': 110}, "
               "'detail_processing': {'number_of_records': 0, 'record_length': 120}, "
               "'calibration': {'number_of_records': 1, 'record_length': 130}, 'gcp': "
               "{'number_of_records': 0, 'record_length': 140}, 'spare': '', "
               "'facility_related_data_1': {'number_of_records': 0, 'record_length': 0}, "
               "'facility_related_data_2': {'number_of_records': 1, 'record_length': 1000}, "
               "'facility_related_data_3': {'number_of_records': 2, 'record_length': 2000}, "
               "'facility_related_data_4': {'number_of_records': 3, 'record_length': 3000}, "
               "'facility_related_data_5': {'number_of_records': 4, 'record_length': 4000}, "
               "'number_of_low_resolution_images': 0, 'low_resolution_image_sizes': [], 'blanks': "
               "''}",
               'list', [])),
             ('header-only-693',
              ('raised',
               ('StreamError',
                'Error in path (parsing) -> blanks\n'
                'stream read less than specified amount, expected 198, found 197',
                False, None))),
             ('empty-file',
              ('raised',
               ('StreamError',
                'Error in path (parsing) -> preamble -> record_sequence_number\n'
                'stream read less than specified amount, expected 4, found 0',
                False, None)))]}
# END EXPECTED


def test_equivalence():
    actual = compute()
    assert sorted(actual) == sorted(EXPECTED)
    for key in EXPECTED:
        assert len(actual[key]) == len(EXPECTED[key]), key
        for a, e in zip(actual[key], EXPECTED[key]):
            assert a == e, (key, a, e)


def test_images_are_views_of_the_data():
    specs = [(4, 3, 2), (2, 3, 4)]
    data = trailer(specs)
    _, images = read_sar_trailer(io.BytesIO(data))
    payload = data[720:]
    expected = [
        np.frombuffer(payload[:24], dtype=">i2").reshape(4, 3),
        np.frombuffer(payload[24:], dtype=">i4").reshape(2, 3),
    ]
    assert len(images) == 2
    for actual, wanted in zip(images, expected):
        assert actual.dtype == wanted.dtype and actual.shape == wanted.shape
        np.testing.assert_array_equal(actual, wanted)
        assert isinstance(actual.base, np.ndarray) and not actual.flags.writeable

    source = bytearray(range(8))
    view = parse_image_data(source, (2, 2), 2)
    source[1] = 200
    assert view[0, 0] == 200 and view.flags.writeable


def test_parse_image_data_called_in_order_at_call_time():
    import ceos_alos2.sar_trailer as module

    calls = []
    original = module.parse_image_data

    def recording(content, shape, n_bytes):
        calls.append((bytes(content), shape, n_bytes, type(shape).__name__))
        return original(content, shape, n_bytes)

    data = build_header([(4, 2, 1, 2), (3, 3, 1, 1), (8, 1, 1, 8)]) + bytes(range(15)) + b"zz"
    module.parse_image_data = recording
    try:
        module.read_sar_trailer(io.BytesIO(data))
        # an image that cannot be parsed stops the loop
        broken = build_header([(4, 2, 1, 2), (3, 3, 1, 3), (8, 1, 1, 8)]) + bytes(range(15))
        try:
            module.read_sar_trailer(io.BytesIO(broken))
        except TypeError:
            pass
        else:
            raise AssertionError("TypeError expected")
    finally:
        module.parse_image_data = original

    assert calls == [
        (bytes(range(0, 4)), (2, 1), 2, "tuple"),
        (bytes(range(4, 7)), (3, 1), 1, "tuple"),
        (bytes(range(7, 15)), (1, 1), 8, "tuple"),
        (bytes(range(0, 4)), (2, 1), 2, "tuple"),
        (bytes(range(4, 7)), (3, 1), 3, "tuple"),
    ]


if __name__ == "__main__":
    if "--record" in sys.argv:
        pprint.pprint(compute(), width=100, compact=True)
        sys.exit(0)

    test_equivalence()
    test_images_are_views_of_the_data()
    test_parse_image_data_called_in_order_at_call_time()
    print("ok:", sum(len(v) for v in EXPECTED.values()), "recorded outcomes")
