"""Equivalence check for refactoring 3
(``apply_overrides`` and ``deduplicate_attrs`` of ``ceos_alos2.sar_image.metadata``).

Run as::

    cd /tmp/wt3/e14 && PYTHONPATH=/tmp/wt3/e14 /venv/bin/python _eq/3/equiv.py

or through pytest (``test_equivalence``). ``EXPECTED`` was recorded from the
unchanged code (``python _eq/3/equiv.py --record`` prints a fresh table).
"""

import collections
import copy
import datetime as dt
import sys
import types

import numpy as np

from ceos_alos2.hierarchy import Group, Variable
from ceos_alos2.sar_image import metadata


def canon(obj):
    """Type-aware, order-preserving textual form of a result."""
    if isinstance(obj, Group):
        return (
            f"Group(path={obj.path!r}, url={obj.url!r},"
            f" data={canon(obj.data)}, attrs={canon(obj.attrs)})"
        )
    if isinstance(obj, Variable):
        return f"Variable(dims={canon(obj.dims)}, data={canon(obj.data)}, attrs={canon(obj.attrs)})"
    if isinstance(obj, dict):
        items = ", ".join(f"{canon(k)}: {canon(v)}" for k, v in obj.items())
        return f"{type(obj).__name__}{{{items}}}"
    if isinstance(obj, (list, tuple)):
        items = ", ".join(canon(v) for v in obj)
        return f"{type(obj).__name__}[{items}]"
    if isinstance(obj, np.ndarray):
        return f"ndarray<{obj.dtype}, {obj.shape}>{obj.tolist()!r}"
    return f"{type(obj).__name__}:{obj!r}"


def outcome(func, *args):
    try:
        result = func(*args)
    except BaseException as exc:  # noqa: BLE001
        return f"raise {type(exc).__name__}: {exc}"
    return "ok " + canon(result)


class Loud:
    """Container which records every membership test."""

    def __init__(self, members):
        self.members = list(members)
        self.log = []

    def __contains__(self, item):
        self.log.append(item)
        return item in self.members

    def __getitem__(self, item):
        self.log.append(("get", item))
        return "float32"


def override_cases():
    d1 = dt.datetime(2020, 10, 1, 12, 37, 42, 451000)
    d2 = dt.datetime(2020, 10, 2, 12, 37, 42, 451000)
    mapping = {"a": ("x", [1, 2], {}), "b": ("y", [1.0, 2.1], {"units": "m"})}
    return {
        "no_overrides": ({}, mapping),
        "empty_mapping": ({"a": "int8"}, {}),
        "both_empty": ({}, {}),
        "override_a": ({"a": "int8"}, mapping),
        "override_b": ({"b": "float16"}, mapping),
        "override_both": ({"b": "float16", "a": "uint64"}, mapping),
        "override_unrelated": ({"c": "int8"}, mapping),
        "override_np_dtype": ({"a": np.dtype("complex64")}, mapping),
        "override_none_dtype": ({"a": None}, mapping),
        "override_type_object": ({"b": int}, mapping),
        "datetimes": (
            {"t": "datetime64[ns]", "u": "datetime64[ns]"},
            {"t": ("rows", [d1, d2], {}), "u": ("rows", [], {}), "v": ("rows", [d1], {})},
        ),
        "datetime_strings": ({"t": "datetime64[s]"}, {"t": (("rows",), ["2020-01-01"], {"a": 1})}),
        "dims_and_attrs_untouched": (
            {"a": "int16"},
            {"a": (["r", "c"], [[1, 2], [3, 4]], {"k": [1]}), "z": 5},
        ),
        "scalar_data": ({"a": "float32"}, {"a": ((), 3, {})}),
        "ndarray_data": ({"a": "int8"}, {"a": ("x", np.array([1.5, 2.5]), {})}),
        "list_value_of_three": ({"a": "int8"}, {"a": ["x", [1], {}]}),
        "not_overridden_may_be_anything": ({"a": "int8"}, {"a": ("x", [1], {}), "b": 1, "c": None}),
        "key_order_kept": ({"m": "int8"}, {"z": 1, "m": ("x", [1], {}), "a": 2}),
        "overrides_as_list": (["a"], {"b": ("x", [1], {})}),
        "overrides_as_list_hit": (["a"], {"a": ("x", [1], {})}),
        "overrides_as_str": ("abc", {"d": 1}),
        "overrides_none": (None, {"a": 1}),
        "overrides_none_empty_mapping": (None, {}),
        "invalid_dtype": ({"a": "not-a-dtype"}, mapping),
        "invalid_cast": ({"a": "int8"}, {"a": ("x", ["q"], {})}),
        "overflow_cast": ({"a": "int8"}, {"a": ("x", [1000], {})}),
        "ragged_data": ({"a": "int8"}, {"a": ("x", [[1], [1, 2]], {})}),
        "pair_value_raises": ({"a": "int8"}, {"a": ("x", [1])}),
        "quad_value_raises": ({"b": "int8"}, {"a": 0, "b": ("x", [1], {}, 1), "c": 0}),
        "scalar_value_raises": ({"a": "int8"}, {"a": 5}),
        "none_value_raises": ({"a": "int8"}, {"a": None}),
        "mapping_none": ({"a": "int8"}, None),
        "mapping_list": ({"a": "int8"}, [("a", ("x", [1], {}))]),
        "ordered_dict_mapping": (
            {"a": "int8"},
            collections.OrderedDict([("b", 1), ("a", ("x", [1], {}))]),
        ),
        "mapping_proxy": ({"a": "uint8"}, types.MappingProxyType({"a": ("x", [7], {})})),
    }


def deduplicate_cases():
    mapping = {"a": 1, "b": ("x", [1, 1], {}), "c": ("y", [2, 2], {})}
    return {
        "known_b": (["b"], mapping),
        "known_c": (["c"], mapping),
        "known_b_c": (["b", "c"], mapping),
        "known_c_b_set": ({"c", "b"}, mapping),
        "known_none_of_them": (["q"], mapping),
        "known_empty": ([], mapping),
        "known_tuple": (("b",), mapping),
        "known_dict": ({"b": None}, mapping),
        "known_str_substring": ("abc", {"ab": ("x", [1], {}), "d": 2, "": ("x", [3], {})}),
        "empty_mapping": (["b"], {}),
        "empty_mapping_known_none": (None, {}),
        "attrs_moved_to_end": (["a"], {"a": ("r", [9, 8], {}), "z": 1, "b": 2}),
        "order_within_groups": (
            {"k1", "k2"},
            {"v1": 1, "k2": ("r", [2], {}), "v2": 3, "k1": ("r", [4], {})},
        ),
        "first_of_many": (["a"], {"a": ("rows", [5, 6, 7], {"units": "m"})}),
        "first_is_tuple": (["a"], {"a": ("rows", [(5, {"units": "m"}), (6, {})], {})}),
        "first_of_ndarray": (["a"], {"a": ("rows", np.array([3, 4], dtype="int16"), {})}),
        "first_of_str": (["a"], {"a": ("rows", "xyz", {})}),
        "first_of_dict": (["a"], {"a": ("rows", {"k": 1, "l": 2}, {})}),
        "first_of_generator": (["a"], {"a": ["rows", iter([4, 5])]}),
        "pair_is_enough": (["a"], {"a": ("rows", [1])}),
        "list_value": (["a"], {"a": [0, [1, 2]]}),
        "str_value": (["a"], {"a": "x" + "yz"}),
        "longer_value": (["a"], {"a": (0, [1], 2, 3, 4)}),
        "scalar_data_raises": (["a"], {"a": ("rows", 5, {})}),
        "scalar_value_raises": (["a"], {"a": 5}),
        "none_value_raises": (["a"], {"a": None}),
        # StopIteration inside toolz.valmap silently ends the attrs
        "empty_data_truncates": (
            ["a", "b", "c"],
            {"a": ("rows", [1], {}), "v": 0, "b": ("rows", [], {}), "c": ("rows", [2], {})},
        ),
        "short_value_truncates": (["a", "b"], {"a": ("rows",), "b": ("rows", [2], {})}),
        "empty_value_truncates": (["a", "b"], {"b": ("rows", [2], {}), "a": ()}),
        "known_none": (None, mapping),
        "known_int": (5, mapping),
        "mapping_none": (["a"], None),
        "mapping_list": (["a"], [("a", ("x", [1], {}))]),
        "ordered_dict_mapping": (
            ["a"],
            collections.OrderedDict([("b", 1), ("a", ("x", [1], {}))]),
        ),
        "non_string_keys": ([1, None], {1: ("x", [1], {}), None: ("x", [2], {}), (1,): 3}),
    }


EXPECTED = {
    'overrides:no_overrides': "ok dict{str:'a': tuple[str:'x', list[int:1, int:2], dict{}], str:'b': tuple[str:'y', list[float:1.0, float:2.1], dict{str:'units': str:'m'}]}",
    'overrides:empty_mapping': 'ok dict{}',
    'overrides:both_empty': 'ok dict{}',
    'overrides:override_a': "ok dict{str:'a': tuple[str:'x', ndarray<int8, (2,)>[1, 2], dict{}], str:'b': tuple[str:'y', list[float:1.0, float:2.1], dict{str:'units': str:'m'}]}",
    'overrides:override_b': "ok dict{str:'a': tuple[str:'x', list[int:1, int:2], dict{}], str:'b': tuple[str:'y', ndarray<float16, (2,)>[1.0, 2.099609375], dict{str:'units': str:'m'}]}",
    'overrides:override_both': "ok dict{str:'a': tuple[str:'x', ndarray<uint64, (2,)>[1, 2], dict{}], str:'b': tuple[str:'y', ndarray<float16, (2,)>[1.0, 2.099609375], dict{str:'units': str:'m'}]}",
    'overrides:override_unrelated': "ok dict{str:'a': tuple[str:'x', list[int:1, int:2], dict{}], str:'b': tuple[str:'y', list[float:1.0, float:2.1], dict{str:'units': str:'m'}]}",
    'overrides:override_np_dtype': "ok dict{str:'a': tuple[str:'x', ndarray<complex64, (2,)>[(1+0j), (2+0j)], dict{}], str:'b': tuple[str:'y', list[float:1.0, float:2.1], dict{str:'units': str:'m'}]}",
    'overrides:override_none_dtype': "ok dict{str:'a': tuple[str:'x', ndarray<int64, (2,)>[1, 2], dict{}], str:'b': tuple[str:'y', list[float:1.0, float:2.1], dict{str:'units': str:'m'}]}",
    'overrides:override_type_object': "ok dict{str:'a': tuple[str:'x', list[int:1, int:2], dict{}], str:'b': tuple[str:'y', ndarray<int64, (2,)>[1, 2], dict{str:'units': str:'m'}]}",
    'overrides:datetimes': "ok dict{str:'t': tuple[str:'rows', ndarray<datetime64[ns], (2,)>[1601555862451000000, 1601642262451000000], dict{}], str:'u': tuple[str:'rows', ndarray<datetime64[ns], (0,)>[], dict{}], str:'v': tuple[str:'rows', list[datetime:datetime.datetime(2020, 10, 1, 12, 37, 42, 451000)], dict{}]}",
    'overrides:datetime_strings': "ok dict{str:'t': tuple[tuple[str:'rows'], ndarray<datetime64[s], (1,)>[datetime.datetime(2020, 1, 1, 0, 0)], dict{str:'a': int:1}]}",
    'overrides:dims_and_attrs_untouched': "ok dict{str:'a': tuple[list[str:'r', str:'c'], ndarray<int16, (2, 2)>[[1, 2], [3, 4]], dict{str:'k': list[int:1]}], str:'z': int:5}",
    'overrides:scalar_data': "ok dict{str:'a': tuple[tuple[], ndarray<float32, ()>3.0, dict{}]}",
    'overrides:ndarray_data': "ok dict{str:'a': tuple[str:'x', ndarray<int8, (2,)>[1, 2], dict{}]}",
    'overrides:list_value_of_three': "ok dict{str:'a': tuple[str:'x', ndarray<int8, (1,)>[1], dict{}]}",
    'overrides:not_overridden_may_be_anything': "ok dict{str:'a': tuple[str:'x', ndarray<int8, (1,)>[1], dict{}], str:'b': int:1, str:'c': NoneType:None}",
    'overrides:key_order_kept': "ok dict{str:'z': int:1, str:'m': tuple[str:'x', ndarray<int8, (1,)>[1], dict{}], str:'a': int:2}",
    'overrides:overrides_as_list': "ok dict{str:'b': tuple[str:'x', list[int:1], dict{}]}",
    'overrides:overrides_as_list_hit': 'raise TypeError: list indices must be integers or slices, not str',
    'overrides:overrides_as_str': "ok dict{str:'d': int:1}",
    'overrides:overrides_none': "raise TypeError: argument of type 'NoneType' is not iterable",
    'overrides:overrides_none_empty_mapping': 'ok dict{}',
    'overrides:invalid_dtype': "raise TypeError: data type 'not-a-dtype' not understood",
    'overrides:invalid_cast': "raise ValueError: invalid literal for int() with base 10: 'q'",
    'overrides:overflow_cast': 'raise OverflowError: Python integer 1000 out of bounds for int8',
    'overrides:ragged_data': 'raise ValueError: setting an array element with a sequence. The requested array has an inhomogeneous shape after 1 dimensions. The detected shape was (2,) + inhomogeneous part.',
    'overrides:pair_value_raises': 'raise ValueError: not enough values to unpack (expected 3, got 2)',
    'overrides:quad_value_raises': 'raise ValueError: too many values to unpack (expected 3)',
    'overrides:scalar_value_raises': 'raise TypeError: cannot unpack non-iterable int object',
    'overrides:none_value_raises': 'raise TypeError: cannot unpack non-iterable NoneType object',
    'overrides:mapping_none': "raise AttributeError: 'NoneType' object has no attribute 'items'",
    'overrides:mapping_list': "raise AttributeError: 'list' object has no attribute 'items'",
    'overrides:ordered_dict_mapping': "ok dict{str:'b': int:1, str:'a': tuple[str:'x', ndarray<int8, (1,)>[1], dict{}]}",
    'overrides:mapping_proxy': "ok dict{str:'a': tuple[str:'x', ndarray<uint8, (1,)>[7], dict{}]}",
    'deduplicate:known_b': "ok dict{str:'a': int:1, str:'c': tuple[str:'y', list[int:2, int:2], dict{}], str:'b': int:1}",
    'deduplicate:known_c': "ok dict{str:'a': int:1, str:'b': tuple[str:'x', list[int:1, int:1], dict{}], str:'c': int:2}",
    'deduplicate:known_b_c': "ok dict{str:'a': int:1, str:'b': int:1, str:'c': int:2}",
    'deduplicate:known_c_b_set': "ok dict{str:'a': int:1, str:'b': int:1, str:'c': int:2}",
    'deduplicate:known_none_of_them': "ok dict{str:'a': int:1, str:'b': tuple[str:'x', list[int:1, int:1], dict{}], str:'c': tuple[str:'y', list[int:2, int:2], dict{}]}",
    'deduplicate:known_empty': "ok dict{str:'a': int:1, str:'b': tuple[str:'x', list[int:1, int:1], dict{}], str:'c': tuple[str:'y', list[int:2, int:2], dict{}]}",
    'deduplicate:known_tuple': "ok dict{str:'a': int:1, str:'c': tuple[str:'y', list[int:2, int:2], dict{}], str:'b': int:1}",
    'deduplicate:known_dict': "ok dict{str:'a': int:1, str:'c': tuple[str:'y', list[int:2, int:2], dict{}], str:'b': int:1}",
    'deduplicate:known_str_substring': "ok dict{str:'d': int:2, str:'ab': int:1, str:'': int:3}",
    'deduplicate:empty_mapping': 'ok dict{}',
    'deduplicate:empty_mapping_known_none': 'ok dict{}',
    'deduplicate:attrs_moved_to_end': "ok dict{str:'z': int:1, str:'b': int:2, str:'a': int:9}",
    'deduplicate:order_within_groups': "ok dict{str:'v1': int:1, str:'v2': int:3, str:'k2': int:2, str:'k1': int:4}",
    'deduplicate:first_of_many': "ok dict{str:'a': int:5}",
    'deduplicate:first_is_tuple': "ok dict{str:'a': tuple[int:5, dict{str:'units': str:'m'}]}",
    'deduplicate:first_of_ndarray': "ok dict{str:'a': int16:np.int16(3)}",
    'deduplicate:first_of_str': "ok dict{str:'a': str:'x'}",
    'deduplicate:first_of_dict': "ok dict{str:'a': str:'k'}",
    'deduplicate:first_of_generator': "ok dict{str:'a': int:4}",
    'deduplicate:pair_is_enough': "ok dict{str:'a': int:1}",
    'deduplicate:list_value': "ok dict{str:'a': int:1}",
    'deduplicate:str_value': "ok dict{str:'a': str:'y'}",
    'deduplicate:longer_value': "ok dict{str:'a': int:1}",
    'deduplicate:scalar_data_raises': "raise TypeError: 'int' object is not iterable",
    'deduplicate:scalar_value_raises': "raise TypeError: 'int' object is not iterable",
    'deduplicate:none_value_raises': "raise TypeError: 'NoneType' object is not iterable",
    'deduplicate:empty_data_truncates': "ok dict{str:'v': int:0, str:'a': int:1}",
    'deduplicate:short_value_truncates': 'ok dict{}',
    'deduplicate:empty_value_truncates': "ok dict{str:'b': int:2}",
    'deduplicate:known_none': "raise TypeError: argument of type 'NoneType' is not iterable",
    'deduplicate:known_int': "raise TypeError: argument of type 'int' is not iterable",
    'deduplicate:mapping_none': "raise AttributeError: 'NoneType' object has no attribute 'items'",
    'deduplicate:mapping_list': "raise AttributeError: 'list' object has no attribute 'items'",
    'deduplicate:ordered_dict_mapping': "ok dict{str:'b': int:1, str:'a': int:1}",
    'deduplicate:non_string_keys': 'ok dict{tuple[int:1]: int:3, int:1: int:1, NoneType:None: int:2}',
    'deduplicate:membership_log': "ok dict{str:'a': tuple[str:'x', list[int:1], dict{}], str:'c': tuple[str:'x', list[int:3], dict{}], str:'b': int:2, str:'d': int:4} log=['a', 'b', 'c', 'd']",
    'overrides:membership_log': "ok dict{str:'a': tuple[str:'x', list[int:1], dict{}], str:'b': tuple[str:'x', ndarray<float32, (1,)>[2.0], dict{}], str:'c': tuple[str:'x', list[int:3], dict{}], str:'d': tuple[str:'x', ndarray<float32, (1,)>[4.0], dict{}]} log=['a', 'b', ('get', 'b'), 'c', 'd', ('get', 'd')]",
    'deduplicate:known_iterator': "ok dict{str:'b': tuple[str:'x', list[int:2], dict{}], str:'c': tuple[str:'x', list[int:3], dict{}], str:'d': tuple[str:'x', list[int:4], dict{}], str:'a': int:1}",
}


def run():
    results = {}
    for prefix, func, cases in (
        ("overrides", metadata.apply_overrides, override_cases()),
        ("deduplicate", metadata.deduplicate_attrs, deduplicate_cases()),
    ):
        for name, args in cases.items():
            try:
                snapshot = canon(copy.deepcopy(args)) if "generator" not in name else None
            except TypeError:  # mapping proxies cannot be copied
                snapshot = None
            results[f"{prefix}:{name}"] = outcome(func, *args)
            if snapshot is not None:
                # the arguments are never modified
                assert snapshot == canon(args), name

    # membership is tested exactly once per key, in mapping order
    loud = Loud(["b", "d"])
    mapping = {"a": ("x", [1], {}), "b": ("x", [2], {}), "c": ("x", [3], {}), "d": ("x", [4], {})}
    results["deduplicate:membership_log"] = (
        outcome(metadata.deduplicate_attrs, loud, mapping) + f" log={loud.log!r}"
    )
    loud = Loud(["b", "d"])
    results["overrides:membership_log"] = (
        outcome(metadata.apply_overrides, loud, mapping) + f" log={loud.log!r}"
    )
    # one-shot iterator as `known`: consumed by the membership tests
    known = iter(["b", "a"])
    results["deduplicate:known_iterator"] = outcome(metadata.deduplicate_attrs, known, mapping)
    return results


def check_details():
    # values which are not overridden / not deduplicated are passed by identity
    data = [1, 2]
    attrs = {"u": 1}
    untouched = ("x", data, attrs)
    casted = ("y", [1.5], attrs)
    out = metadata.apply_overrides({"b": "float32"}, {"a": untouched, "b": casted})
    assert type(out) is dict
    assert out["a"] is untouched
    assert type(out["b"]) is tuple and out["b"][0] == "y" and out["b"][2] is attrs
    assert type(out["b"][1]) is np.ndarray and out["b"][1].dtype == np.dtype("float32")

    # an array which already has the dtype is copied, as np.array does
    arr = np.array([1, 2], dtype="int8")
    out = metadata.apply_overrides({"a": "int8"}, {"a": ("x", arr, {})})
    assert out["a"][1] is not arr and out["a"][1].dtype == arr.dtype

    out = metadata.deduplicate_attrs(["b"], {"a": untouched, "b": ("r", [attrs, 2], {})})
    assert type(out) is dict and list(out) == ["a", "b"]
    assert out["a"] is untouched and out["b"] is attrs

    import inspect

    assert str(inspect.signature(metadata.apply_overrides)) == "(dtype_overrides, mapping)"
    assert str(inspect.signature(metadata.deduplicate_attrs)) == "(known, mapping)"

    # still composed the same way by the caller
    group = metadata.transform_line_metadata(
        [
            {"scan_id": 3, "sensor_acquisition_date": dt.datetime(2020, 1, 1), "prf": (1, {})},
            {"scan_id": 3, "sensor_acquisition_date": dt.datetime(2020, 1, 2), "prf": (2, {})},
        ]
    )
    assert group.attrs == {"scan_id": 3}
    assert list(group.data) == ["sensor_acquisition_date", "prf"]
    assert group.data["sensor_acquisition_date"].data.dtype == np.dtype("datetime64[ns]")


def test_equivalence():
    results = run()
    assert list(results) == list(EXPECTED)
    for name, actual in results.items():
        assert actual == EXPECTED[name], f"{name}: {actual!r} != {EXPECTED[name]!r}"
    check_details()


if __name__ == "__main__":
    if "--record" in sys.argv:
        print("EXPECTED = {")
        for name, value in run().items():
            print(f"    {name!r}: {value!r},")
        print("}")
    else:
        test_equivalence()
        print(f"ok: {len(EXPECTED)} cases")
