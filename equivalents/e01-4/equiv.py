"""Equivalence check for refactoring 4 (``parse_data``, ``compute_selected_ranges``,
``relocate_ranges`` in ``ceos_alos2.array``).

Calls the changed functions directly (and through ``Array.__getitem__`` on a recording file
system) and compares results / exception types with values recorded from the unchanged code.
Must pass with and without ``patch.diff`` applied.

    PYTHONPATH=/tmp/wt2/e01 /venv/bin/python _eq/4/equiv.py          # check
    PYTHONPATH=/tmp/wt2/e01 /venv/bin/python _eq/4/equiv.py --print  # dump observed values
"""

import io
import pprint
import struct
import sys

import numpy as np

from ceos_alos2 import array
from ceos_alos2.array import Array


def attempt(f, *args, **kwargs):
    try:
        return f(*args, **kwargs)
    except Exception as e:  # noqa: BLE001
        return ("raises", type(e).__name__, str(e))


def describe_parsed(result):
    if isinstance(result, tuple):
        return result
    return (
        type(result).__name__,
        result.dtype.str,
        result.shape,
        result.flags.writeable,
        result.tobytes().hex(),
    )


class RecordingFile:
    def __init__(self, content, log):
        self._f = io.BytesIO(content)
        self._log = log

    def seek(self, offset):
        self._log.append(("seek", offset))
        return self._f.seek(offset)

    def read(self, size):
        self._log.append(("read", size))
        return self._f.read(size)

    def __enter__(self):
        return self

    def __exit__(self, *exc):
        self._log.append(("close",))
        return False


class RecordingFS:
    def __init__(self, content):
        self.content = content
        self.log = []

    def open(self, url, mode):
        self.log.append(("open", url, mode))
        return RecordingFile(self.content, self.log)


FLOATS = [
    (1.0, -2.5),
    (float("nan"), float("inf")),
    (float("-inf"), -0.0),
    (0.0, float("nan")),
    (3.0e38, 1.0e-45),
    (-1.0, 1.0),
]


def observe():
    observed = {}

    # ---------------------------------------------------------------- parse_data
    c8 = b"".join(struct.pack(">ff", *pair) for pair in FLOATS)
    c8_payload = bytes.fromhex("7fc00001ffc12345" "7f800001ff800000")  # NaN payloads / sNaN / -inf
    contents = {
        "iu2": ("IU2", bytes(range(16))),
        "iu2-extremes": ("IU2", b"\x00\x00\xff\xff\x80\x00\x00\x01"),
        "iu2-empty": ("IU2", b""),
        "iu2-odd": ("IU2", b"\x00\x01\x02"),
        "iu2-bytearray": ("IU2", bytearray(b"\x01\x02\x03\x04")),
        "iu2-memoryview": ("IU2", memoryview(b"\x01\x02\x03\x04")),
        "iu2-str-content": ("IU2", "abcd"),
        "c8": ("C*8", c8),
        "c8-payload": ("C*8", c8_payload),
        "c8-empty": ("C*8", b""),
        "c8-partial": ("C*8", c8[:12]),
        "c8-bytearray": ("C*8", bytearray(c8[:16])),
        "unknown": ("F*8", c8),
        "unknown-empty-content": ("I*4", b""),
        "lowercase": ("iu2", b"\x00\x01"),
        "none": (None, b"\x00\x01"),
        "int-code": (8, b"\x00\x01"),
        "unhashable": (["C*8"], b"\x00\x01"),
        "dtype-as-code": (np.dtype(">u2"), b"\x00\x01"),
    }
    for name, (type_code, content) in contents.items():
        observed[f"parse-{name}"] = describe_parsed(attempt(array.parse_data, content, type_code))
    observed["parse-keyword"] = describe_parsed(array.parse_data(content=b"\x00\x07", type_code="IU2"))

    # ------------------------------------------------------------ compute_selected_ranges
    byte_ranges = [(0, 3), (5, 8), (16, 19), (22, 25), (30, 33)]
    indexers = {
        "int": 2,
        "int-zero": 0,
        "int-negative": -1,
        "int-most-negative": -5,
        "int-too-large": 5,
        "int-too-negative": -6,
        "bool": True,
        "numpy-int": np.int64(2),
        "numpy-0d": np.array(2),
        "none": None,
        "float": 1.0,
        "ellipsis": Ellipsis,
        "slice-all": slice(None),
        "slice-head": slice(None, 2),
        "slice-tail": slice(-2, None),
        "slice-step": slice(None, None, 2),
        "slice-reversed": slice(None, None, -1),
        "slice-negative-step-bounds": slice(3, 0, -2),
        "slice-empty": slice(3, 1),
        "slice-zero-length": slice(0, 0),
        "slice-out-of-bounds": slice(-100, 100),
        "slice-beyond": slice(7, 9),
        "slice-zero-step": slice(None, None, 0),
        "slice-float": slice(0.0, 2),
        "slice-numpy-ints": slice(np.int64(1), np.int64(4), np.int64(2)),
        "list": [0, 2],
        "list-negative": [0, -1],
        "list-duplicates": [3, 3, 1, 3],
        "list-single": [4],
        "list-empty": [],
        "list-out-of-range": [0, 5],
        "list-out-of-range-single": [-6],
        "list-floats": [0, 1.5],
        "list-float-single": [1.5],
        "list-none": [None],
        "list-bools": [True, False],
        "list-numpy-ints": [np.int64(1), np.uint8(3)],
        "list-with-slice": [0, slice(1, 3)],
        "list-nested": [[0, 1]],
        "tuple": (1, 3),
        "range": range(1, 5, 2),
        "numpy-array": np.array([4, 0, -2]),
        "numpy-empty": np.array([], dtype=int),
        "numpy-bool-mask": np.array([True, False, True, False, True]),
        "string": "12",
    }
    for name, indexer in indexers.items():
        observed[f"select-{name}"] = repr(attempt(array.compute_selected_ranges, byte_ranges, indexer))
    observed["select-generator"] = repr(
        attempt(array.compute_selected_ranges, byte_ranges, (n for n in (2, 0)))
    )
    observed["select-input-untouched"] = byte_ranges == [(0, 3), (5, 8), (16, 19), (22, 25), (30, 33)]
    indexer_list = [1, 0]
    result = array.compute_selected_ranges(byte_ranges, indexer_list)
    observed["select-indexer-untouched"] = (indexer_list, type(result).__name__, type(result[0]).__name__)

    for name, indexer in (("int", 0), ("slice", slice(None)), ("list", []), ("list-zero", [0])):
        observed[f"select-no-rows-{name}"] = repr(attempt(array.compute_selected_ranges, [], indexer))
    observed["select-ranges-tuple"] = repr(
        attempt(array.compute_selected_ranges, tuple(byte_ranges), slice(1, 3))
    )
    observed["select-ranges-dict"] = repr(
        attempt(array.compute_selected_ranges, dict(byte_ranges), [0, -1])
    )
    observed["select-ranges-generator"] = repr(
        attempt(array.compute_selected_ranges, (r for r in byte_ranges), 0)
    )
    observed["select-ranges-none"] = repr(attempt(array.compute_selected_ranges, None, 0))

    # ------------------------------------------------------------------ relocate_ranges
    ranges = [(40, 43), (43, 46), (55, 58)]
    relocations = {
        "plain": ({"offset": 10, "size": 200}, ranges),
        "zero": ({"offset": 0, "size": 1}, ranges),
        "beyond": ({"offset": 50, "size": 1}, ranges),
        "empty": ({"offset": 10, "size": 0}, []),
        "extra-keys": ({"offset": 1, "size": 2, "more": 3}, ranges),
        "missing-offset": ({"size": 2}, ranges),
        "not-a-mapping": ((10, 200), ranges),
        "3-tuples": ({"offset": 1, "size": 2}, [(1, 2, 3)]),
        "float-offset": ({"offset": 0.5, "size": 2}, ranges),
        "numpy": ({"offset": np.int64(7), "size": 2}, [(np.int64(9), 11)]),
    }
    for name, (chunk_info, ranges_) in relocations.items():
        result = attempt(array.relocate_ranges, chunk_info, ranges_)
        observed[f"relocate-{name}"] = repr(result)
        if result[0] != "raises":
            observed[f"relocate-{name}-same-info"] = result[0] is chunk_info
    generator_result = array.relocate_ranges({"offset": 2, "size": 1}, (r for r in ranges))
    observed["relocate-generator"] = repr(generator_result)

    # -------------------------------------------------- end to end, including the reads
    rows = [b"".join(struct.pack(">ff", *FLOATS[(r + c) % 6]) for c in range(2)) for r in range(5)]
    content = b""
    c8_ranges = []
    for row in rows:
        content += b"\xee" * 5
        c8_ranges.append((len(content), len(content) + len(row)))
        content += row
    for rpc in (None, "auto", 2, 9):
        fs = RecordingFS(content)
        arr = Array(
            fs=fs,
            url="c8",
            byte_ranges=c8_ranges,
            shape=(5, 2),
            dtype="complex64",
            type_code="C*8",
            records_per_chunk=rpc,
        )
        for name, key in {
            "all": (slice(None), slice(None)),
            "int": (-2, slice(None)),
            "empty": (slice(2, 2), slice(None)),
            "reversed": (slice(None, None, -2), slice(1, None)),
            "list": ([4, 1, 1], 0),
            "out-of-range": (5, slice(None)),
        }.items():
            del fs.log[:]
            result = attempt(arr.__getitem__, key)
            if not isinstance(result, tuple):
                result = (result.dtype.str, result.shape, result.tobytes().hex())
            observed[f"getitem-rpc={rpc!r}-{name}"] = (result, list(fs.log))

    return observed


# recorded with the unchanged code (clean HEAD)
EXPECTED = {"getitem-rpc='auto'-all": (('<c8',
                             (5, 2),
                             '0000803f000020c00000c07f0000807f0000c07f0000807f000080ff00000080000080ff00000080000000000000c07f000000000000c07fe6b1617f01000000e6b1617f01000000000080bf0000803f'),
                            [('open', 'c8', 'rb'), ('seek', 5), ('read', 100), ('close',)]),
 "getitem-rpc='auto'-empty": (('<c8', (0, 2), ''), [('open', 'c8', 'rb'), ('close',)]),
 "getitem-rpc='auto'-int": (('<c8', (2,), '000000000000c07fe6b1617f01000000'),
                            [('open', 'c8', 'rb'), ('seek', 5), ('read', 100), ('close',)]),
 "getitem-rpc='auto'-list": (('<c8', (3,), 'e6b1617f010000000000c07f0000807f0000c07f0000807f'),
                             [('open', 'c8', 'rb'), ('seek', 5), ('read', 100), ('close',)]),
 "getitem-rpc='auto'-out-of-range": (('raises', 'IndexError', 'list index out of range'), []),
 "getitem-rpc='auto'-reversed": (('<c8', (3, 1), '000080bf0000803f000000000000c07f0000c07f0000807f'),
                                 [('open', 'c8', 'rb'), ('seek', 5), ('read', 100), ('close',)]),
 'getitem-rpc=2-all': (('<c8',
                        (5, 2),
                        '0000803f000020c00000c07f0000807f0000c07f0000807f000080ff00000080000080ff00000080000000000000c07f000000000000c07fe6b1617f01000000e6b1617f01000000000080bf0000803f'),
                       [('open', 'c8', 'rb'),
                        ('seek', 5),
                        ('read', 37),
                        ('seek', 47),
                        ('read', 37),
                        ('seek', 89),
                        ('read', 16),
                        ('close',)]),
 'getitem-rpc=2-empty': (('<c8', (0, 2), ''), [('open', 'c8', 'rb'), ('close',)]),
 'getitem-rpc=2-int': (('<c8', (2,), '000000000000c07fe6b1617f01000000'),
                       [('open', 'c8', 'rb'), ('seek', 47), ('read', 37), ('close',)]),
 'getitem-rpc=2-list': (('<c8', (3,), 'e6b1617f010000000000c07f0000807f0000c07f0000807f'),
                        [('open', 'c8', 'rb'), ('seek', 89), ('read', 16), ('seek', 5), ('read', 37), ('close',)]),
 'getitem-rpc=2-out-of-range': (('raises', 'IndexError', 'list index out of range'), []),
 'getitem-rpc=2-reversed': (('<c8', (3, 1), '000080bf0000803f000000000000c07f0000c07f0000807f'),
                            [('open', 'c8', 'rb'),
                             ('seek', 89),
                             ('read', 16),
                             ('seek', 47),
                             ('read', 37),
                             ('seek', 5),
                             ('read', 37),
                             ('close',)]),
 'getitem-rpc=9-all': (('<c8',
                        (5, 2),
                        '0000803f000020c00000c07f0000807f0000c07f0000807f000080ff00000080000080ff00000080000000000000c07f000000000000c07fe6b1617f01000000e6b1617f01000000000080bf0000803f'),
                       [('open', 'c8', 'rb'), ('seek', 5), ('read', 100), ('close',)]),
 'getitem-rpc=9-empty': (('<c8', (0, 2), ''), [('open', 'c8', 'rb'), ('close',)]),
 'getitem-rpc=9-int': (('<c8', (2,), '000000000000c07fe6b1617f01000000'),
                       [('open', 'c8', 'rb'), ('seek', 5), ('read', 100), ('close',)]),
 'getitem-rpc=9-list': (('<c8', (3,), 'e6b1617f010000000000c07f0000807f0000c07f0000807f'),
                        [('open', 'c8', 'rb'), ('seek', 5), ('read', 100), ('close',)]),
 'getitem-rpc=9-out-of-range': (('raises', 'IndexError', 'list index out of range'), []),
 'getitem-rpc=9-reversed': (('<c8', (3, 1), '000080bf0000803f000000000000c07f0000c07f0000807f'),
                            [('open', 'c8', 'rb'), ('seek', 5), ('read', 100), ('close',)]),
 'getitem-rpc=None-all': (('<c8',
                           (5, 2),
                           '0000803f000020c00000c07f0000807f0000c07f0000807f000080ff00000080000080ff00000080000000000000c07f000000000000c07fe6b1617f01000000e6b1617f01000000000080bf0000803f'),
                          [('open', 'c8', 'rb'), ('seek', 5), ('read', 100), ('close',)]),
 'getitem-rpc=None-empty': (('<c8', (0, 2), ''), [('open', 'c8', 'rb'), ('close',)]),
 'getitem-rpc=None-int': (('<c8', (2,), '000000000000c07fe6b1617f01000000'),
                          [('open', 'c8', 'rb'), ('seek', 5), ('read', 100), ('close',)]),
 'getitem-rpc=None-list': (('<c8', (3,), 'e6b1617f010000000000c07f0000807f0000c07f0000807f'),
                           [('open', 'c8', 'rb'), ('seek', 5), ('read', 100), ('close',)]),
 'getitem-rpc=None-out-of-range': (('raises', 'IndexError', 'list index out of range'), []),
 'getitem-rpc=None-reversed': (('<c8', (3, 1), '000080bf0000803f000000000000c07f0000c07f0000807f'),
                               [('open', 'c8', 'rb'), ('seek', 5), ('read', 100), ('close',)]),
 'parse-c8': ('ndarray',
              '<c8',
              (6,),
              True,
              '0000803f000020c00000c07f0000807f000080ff00000080000000000000c07fe6b1617f01000000000080bf0000803f'),
 'parse-c8-bytearray': ('ndarray', '<c8', (2,), True, '0000803f000020c00000c07f0000807f'),
 'parse-c8-empty': ('ndarray', '<c8', (0,), True, ''),
 'parse-c8-partial': ('raises', 'ValueError', 'buffer size must be a multiple of element size'),
 'parse-c8-payload': ('ndarray', '<c8', (2,), True, '0100c07f4523c1ff0100807f000080ff'),
 'parse-dtype-as-code': ('raises', 'ValueError', 'unknown type code: >u2'),
 'parse-int-code': ('raises', 'ValueError', 'unknown type code: 8'),
 'parse-iu2': ('ndarray', '>u2', (8,), False, '000102030405060708090a0b0c0d0e0f'),
 'parse-iu2-bytearray': ('ndarray', '>u2', (2,), True, '01020304'),
 'parse-iu2-empty': ('ndarray', '>u2', (0,), False, ''),
 'parse-iu2-extremes': ('ndarray', '>u2', (4,), False, '0000ffff80000001'),
 'parse-iu2-memoryview': ('ndarray', '>u2', (2,), False, '01020304'),
 'parse-iu2-odd': ('raises', 'ValueError', 'buffer size must be a multiple of element size'),
 'parse-iu2-str-content': ('raises', 'TypeError', "a bytes-like object is required, not 'str'"),
 'parse-keyword': ('ndarray', '>u2', (1,), False, '0007'),
 'parse-lowercase': ('raises', 'ValueError', 'unknown type code: iu2'),
 'parse-none': ('raises', 'ValueError', 'unknown type code: None'),
 'parse-unhashable': ('raises', 'TypeError', "unhashable type: 'list'"),
 'parse-unknown': ('raises', 'ValueError', 'unknown type code: F*8'),
 'parse-unknown-empty-content': ('raises', 'ValueError', 'unknown type code: I*4'),
 'relocate-3-tuples': "('raises', 'ValueError', 'too many values to unpack (expected 2)')",
 'relocate-beyond': "({'offset': 50, 'size': 1}, [(-10, -7), (-7, -4), (5, 8)])",
 'relocate-beyond-same-info': True,
 'relocate-empty': "({'offset': 10, 'size': 0}, [])",
 'relocate-empty-same-info': True,
 'relocate-extra-keys': "({'offset': 1, 'size': 2, 'more': 3}, [(39, 42), (42, 45), (54, 57)])",
 'relocate-extra-keys-same-info': True,
 'relocate-float-offset': "({'offset': 0.5, 'size': 2}, [(39.5, 42.5), (42.5, 45.5), (54.5, 57.5)])",
 'relocate-float-offset-same-info': True,
 'relocate-generator': "({'offset': 2, 'size': 1}, [(38, 41), (41, 44), (53, 56)])",
 'relocate-missing-offset': '(\'raises\', \'KeyError\', "\'offset\'")',
 'relocate-not-a-mapping': "('raises', 'TypeError', 'tuple indices must be integers or slices, not str')",
 'relocate-numpy': "({'offset': np.int64(7), 'size': 2}, [(np.int64(2), np.int64(4))])",
 'relocate-numpy-same-info': True,
 'relocate-plain': "({'offset': 10, 'size': 200}, [(30, 33), (33, 36), (45, 48)])",
 'relocate-plain-same-info': True,
 'relocate-zero': "({'offset': 0, 'size': 1}, [(40, 43), (43, 46), (55, 58)])",
 'relocate-zero-same-info': True,
 'select-bool': '[(1, (5, 8))]',
 'select-ellipsis': '(\'raises\', \'TypeError\', "\'ellipsis\' object is not iterable")',
 'select-float': '(\'raises\', \'TypeError\', "\'float\' object is not iterable")',
 'select-generator': '[(2, (16, 19)), (0, (0, 3))]',
 'select-indexer-untouched': ([1, 0], 'list', 'tuple'),
 'select-input-untouched': True,
 'select-int': '[(2, (16, 19))]',
 'select-int-most-negative': '[(0, (0, 3))]',
 'select-int-negative': '[(4, (30, 33))]',
 'select-int-too-large': "('raises', 'IndexError', 'list index out of range')",
 'select-int-too-negative': "('raises', 'IndexError', 'list index out of range')",
 'select-int-zero': '[(0, (0, 3))]',
 'select-list': '[(0, (0, 3)), (2, (16, 19))]',
 'select-list-bools': '[(1, (5, 8)), (0, (0, 3))]',
 'select-list-duplicates': '[(3, (22, 25)), (3, (22, 25)), (1, (5, 8)), (3, (22, 25))]',
 'select-list-empty': '[]',
 'select-list-float-single': "('raises', 'TypeError', 'list indices must be integers or slices, not float')",
 'select-list-floats': "('raises', 'TypeError', 'list indices must be integers or slices, not float')",
 'select-list-negative': '[(0, (0, 3)), (4, (30, 33))]',
 'select-list-nested': "('raises', 'TypeError', 'list indices must be integers or slices, not list')",
 'select-list-none': "('raises', 'TypeError', 'list indices must be integers or slices, not NoneType')",
 'select-list-numpy-ints': '[(1, (5, 8)), (3, (22, 25))]',
 'select-list-out-of-range': "('raises', 'IndexError', 'list index out of range')",
 'select-list-out-of-range-single': "('raises', 'IndexError', 'list index out of range')",
 'select-list-single': '[(4, (30, 33))]',
 'select-list-with-slice': '[(0, (0, 3)), [(1, (5, 8)), (2, (16, 19))]]',
 'select-no-rows-int': "('raises', 'IndexError', 'list index out of range')",
 'select-no-rows-list': '[]',
 'select-no-rows-list-zero': "('raises', 'IndexError', 'list index out of range')",
 'select-no-rows-slice': '[]',
 'select-none': '(\'raises\', \'TypeError\', "\'NoneType\' object is not iterable")',
 'select-numpy-0d': "('raises', 'TypeError', 'iteration over a 0-d array')",
 'select-numpy-array': '[(4, (30, 33)), (0, (0, 3)), (3, (22, 25))]',
 'select-numpy-bool-mask': "('raises', 'TypeError', 'list indices must be integers or slices, not numpy.bool')",
 'select-numpy-empty': '[]',
 'select-numpy-int': '(\'raises\', \'TypeError\', "\'numpy.int64\' object is not iterable")',
 'select-range': '[(1, (5, 8)), (3, (22, 25))]',
 'select-ranges-dict': '[(0, 0), (4, 30)]',
 'select-ranges-generator': '(\'raises\', \'TypeError\', "object of type \'generator\' has no len()")',
 'select-ranges-none': '(\'raises\', \'TypeError\', "object of type \'NoneType\' has no len()")',
 'select-ranges-tuple': '[(1, (5, 8)), (2, (16, 19))]',
 'select-slice-all': '[(0, (0, 3)), (1, (5, 8)), (2, (16, 19)), (3, (22, 25)), (4, (30, 33))]',
 'select-slice-beyond': '[]',
 'select-slice-empty': '[]',
 'select-slice-float': "('raises', 'TypeError', 'slice indices must be integers or None or have an __index__ method')",
 'select-slice-head': '[(0, (0, 3)), (1, (5, 8))]',
 'select-slice-negative-step-bounds': '[(3, (22, 25)), (1, (5, 8))]',
 'select-slice-numpy-ints': '[(1, (5, 8)), (3, (22, 25))]',
 'select-slice-out-of-bounds': '[(0, (0, 3)), (1, (5, 8)), (2, (16, 19)), (3, (22, 25)), (4, (30, 33))]',
 'select-slice-reversed': '[(4, (30, 33)), (3, (22, 25)), (2, (16, 19)), (1, (5, 8)), (0, (0, 3))]',
 'select-slice-step': '[(0, (0, 3)), (2, (16, 19)), (4, (30, 33))]',
 'select-slice-tail': '[(3, (22, 25)), (4, (30, 33))]',
 'select-slice-zero-length': '[]',
 'select-slice-zero-step': "('raises', 'ValueError', 'slice step cannot be zero')",
 'select-string': "('raises', 'TypeError', 'list indices must be integers or slices, not str')",
 'select-tuple': '[(1, (5, 8)), (3, (22, 25))]'}


if __name__ == "__main__":
    import ceos_alos2

    observed = observe()
    if "--print" in sys.argv:
        pprint.pprint(observed, width=120)
        sys.exit(0)

    assert set(observed) == set(EXPECTED), set(observed) ^ set(EXPECTED)
    for key, value in EXPECTED.items():
        assert observed[key] == value, (key, observed[key], value)
    print(f"ok: {len(observed)} cases identical ({ceos_alos2.__file__})")
