"""Equivalence check for refactoring 5 (``volume_directory.metadata.transform_text`` and
``transform_record``; end to end through ``volume_directory.open_volume_directory``).

Run as ``python _eq/5/equiv.py`` (or through pytest).  The expected outcomes below were
recorded from the unchanged code (``python _eq/5/equiv.py --record`` prints them).
"""

import copy
import pprint
import struct
import sys

import fsspec

from ceos_alos2.hierarchy import Group
from ceos_alos2.volume_directory import io, metadata, open_volume_directory, structure


def build_record(struct_, values):
    """encode a flat CEOS record: 12 byte binary preamble + blank padded ascii fields"""
    chunks = []
    for subcon in struct_.subcons:
        size = subcon.sizeof()
        if subcon.name == "preamble":
            chunks.append(struct.pack(">IBBBBI", *values.get("preamble", (1, 192, 192, 18, 18, 360))))
            continue
        text = str(values.get(subcon.name, ""))
        assert len(text) <= size, subcon.name
        chunks.append(text.ljust(size).encode("ascii"))
    data = b"".join(chunks)
    assert len(data) == 360
    return data


def build_volume_directory(n_files, datetime="2020101117233798", text=None, declared=None):
    descriptor = build_record(
        structure.volume_descriptor,
        {
            "ascii_ebcdic_flag": "A",
            "superstructure_format_control_document_id": "CEOS-SAR",
            "superstructure_format_control_document_revision_level": "A",
            "superstructure_record_format_revision_level": "A",
            "software_release_and_revision_level": "001.001",
            "physical_volume_id": "PV",
            "logical_volume_id": "LV",
            "volume_set_id": "VS",
            "total_number_of_physical_volumes_in_logical_volume": 1,
            "physical_volume_sequence_number_of_the_first_tape": 1,
            "physical_volume_sequence_number_of_the_last_tape": 1,
            "physical_volume_sequence_number_of_the_current_tape": 1,
            "file_number_in_the_logical_volume": 1,
            "logical_volume_within_a_volume_set": 1,
            "logical_volume_number_within_physical_volume": 1,
            "logical_volume_creation_datetime": datetime,
            "logical_volume_generation_country": "JAPAN",
            "logical_volume_generating_agency": "JAXA",
            "logical_volume_generating_facility": "SCMO",
            "number_of_file_pointer_records": n_files if declared is None else declared,
            "number_of_text_records_in_volume_directory": 1,
        },
    )
    files = [
        build_record(
            structure.file_descriptor,
            {
                "preamble": (2 + index, 219, 192, 18, 18, 360),
                "ascii_ebcdic_flag": "A",
                "referenced_file_number": index + 1,
                "referenced_file_name_id": f"FILE{index}",
                "referenced_file_class": "SARLEADER FILE",
                "referenced_file_class_code": "SARL",
                "referenced_file_data_type": "MIXED BINARY AND ASCII",
                "referenced_file_data_type_code": "MBAA",
                "number_of_records_in_referenced_file": 10 + index,
                "length_of_the_first_record_in_referenced_file": 720,
                "maximum_record_length_in_referenced_file": 4680,
                "referenced_file_record_length_type": "VARIABLE LEN",
                "referenced_file_record_length_type_code": "VARE",
            },
        )
        for index in range(n_files)
    ]
    text_values = {
        "preamble": (2 + n_files, 18, 63, 18, 18, 360),
        "ascii_ebcdic_flag": "A",
        "product_id": "PRODUCT:WWDR1.1__D",
        "location_and_datetime_of_product_creation": "PROCESS:JAPAN-JAXA-ALOS2  20201011 172337",
        "physical_tape_id": "TAPE_ID:",
        "scene_id": "ORBIT:ALOS2225333200-180726",
        "scene_location_id": "FRAME:3200",
    }
    text_values.update(text or {})
    return descriptor + b"".join(files) + build_record(structure.text_record, text_values)


class Key:
    def __repr__(self):
        return "Key()"


KEY = Key()


def text_cases():
    yield "empty", {}
    yield "all-ignored", {"preamble": {}, "ascii_ebcdic_flag": "a", "blanks": "", "physical_tape_id": 1}
    yield "ignored-and-kept", {"blanks": "", "product_id": "PRODUCT:WWDR1.5RUA"}
    yield "renamed", {"product_id": "b", "location_and_datetime_of_product_creation": "a"}
    yield "renamed-first", {"location_and_datetime_of_product_creation": "a", "scene_id": "s"}
    yield "collision-old-first", {
        "location_and_datetime_of_product_creation": "old",
        "x": 1,
        "product_creation": "new",
    }
    yield "collision-new-first", {
        "product_creation": "new",
        "x": 1,
        "location_and_datetime_of_product_creation": "old",
    }
    yield "order", {"z": 1, "spare": 2, "a": None, "m": [1], "preamble": 0, "d": {"k": 1}}
    yield "non-string-keys", {1: "a", None: "b", ("t",): "c", KEY: "d", "blanks": "e"}
    yield "none", None
    yield "list", [("a", 1)]
    yield "string", "blanks"


def record_cases():
    yield "empty", {}
    yield "ignored", {
        "volume_descriptor": {"a": 1},
        "file_descriptors": [{"b": 2}, {"c": 3}],
        "text_record": {"d": 4},
    }
    yield "only-file-descriptors", {"file_descriptors": [{"b": 2}]}
    yield "transformers", {
        "volume_descriptor": {"preamble": "a", "logical_volume_generation_country": "a"},
        "text_record": {"blanks": "", "location_and_datetime_of_product_creation": "b"},
    }
    yield "flattened", {"volume_descriptor": {"a": 1, "b": 2}, "text_record": {"c": 3, "d": 4}}
    yield "text-first", {"text_record": {"c": 3, "d": 4}, "volume_descriptor": {"a": 1, "b": 2}}
    yield "file-descriptors-between", {
        "text_record": {"c": 3},
        "file_descriptors": {"x": 1},
        "volume_descriptor": {"a": 1},
    }
    yield "only-descriptor", {"volume_descriptor": {"spare": "", "volume_set_id": "v"}}
    yield "only-text", {"text_record": {"scene_id": "s", "physical_tape_id": "t"}}
    yield "unknown-scalar-sections", {"a": 1, "volume_descriptor": {"b": 2}, "c": None, "d": "s"}
    yield "unknown-dict-section", {"extra": {"x": 1, "y": {"deep": 2}}, "text_record": {"x": 2}}
    yield "unknown-list-section", {"extra": [{"x": 1}], "other": ({"y": 2},)}
    yield "empty-sections", {"volume_descriptor": {}, "text_record": {}, "extra": {}}
    # overlapping names after flattening: later sections win, first position is kept
    yield "overlap-sections", {
        "volume_descriptor": {"scene_id": "from-descriptor", "k": 1},
        "text_record": {"k": 2, "scene_id": "from-text"},
    }
    yield "overlap-scalar-then-section", {"k": "scalar", "text_record": {"k": "nested", "j": 1}}
    yield "overlap-section-then-scalar", {"text_record": {"k": "nested", "j": 1}, "k": "scalar"}
    yield "overlap-section-name", {"text_record": {"volume_descriptor": "x"}, "z": {"text_record": 1}}
    yield "datetime", {
        "volume_descriptor": {"logical_volume_creation_datetime": "2020101117233798"},
        "text_record": {"creation_datetime": "untouched"},
    }
    yield "datetime-invalid", {
        "text_record": {"a": 1},
        "volume_descriptor": {"logical_volume_creation_datetime": "x"},
    }
    # sections that are not mappings
    yield "descriptor-none", {"volume_descriptor": None, "text_record": {"a": 1}}
    yield "text-list", {"volume_descriptor": {"a": 1}, "text_record": [1, 2]}
    yield "both-invalid", {"text_record": 4, "volume_descriptor": "abc"}
    yield "file-descriptors-invalid-is-ignored", {"file_descriptors": object, "text_record": {}}
    yield "non-string-keys", {1: {"a": 1}, None: "b", KEY: {"c": KEY}, ("t",): [1]}
    # not mappings
    yield "none", None
    yield "list", [("volume_descriptor", {})]
    yield "string", "text_record"


def volume_directories():
    yield "vol/three-files", build_volume_directory(3)
    yield "vol/no-files", build_volume_directory(0)
    yield "vol/six-files", build_volume_directory(6)
    yield "vol/blank-text", build_volume_directory(
        1,
        text={
            "product_id": "",
            "location_and_datetime_of_product_creation": "",
            "scene_id": "",
            "scene_location_id": "",
            "physical_tape_id": "",
        },
    )
    yield "vol/short-datetime", build_volume_directory(2, datetime="20201011172337")
    yield "vol/blank-datetime", build_volume_directory(2, datetime="")
    yield "vol/truncated", build_volume_directory(3)[:-1]
    yield "vol/too-few-file-records", build_volume_directory(1, declared=2)
    yield "vol/trailing-bytes", build_volume_directory(2) + b"\x00" * 17
    yield "vol/empty", b""


def describe_exception(e):
    if e is None:
        return None
    return (type(e).__name__, str(e), e.__suppress_context__, describe_exception(e.__cause__))


def describe(result):
    if isinstance(result, Group):
        return (
            "Group",
            result.path,
            result.url,
            repr(result.data),
            type(result.attrs).__name__,
            repr(list(result.attrs.items())),
        )
    return (type(result).__name__, repr(list(result.items())))


def outcome(func, *args):
    try:
        result = func(*args)
    except Exception as e:  # noqa: BLE001
        return ("raised", describe_exception(e))
    return ("returned", describe(result))


def compute():
    results = {
        "text": [(name, outcome(metadata.transform_text, m)) for name, m in text_cases()],
        "record": [(name, outcome(metadata.transform_record, m)) for name, m in record_cases()],
    }

    files = dict(volume_directories())
    results["open/dict"] = [(name, outcome(open_volume_directory, files, name)) for name in files]
    results["open/dict-missing"] = [("vol/absent", outcome(open_volume_directory, files, "vol/absent"))]

    fs = fsspec.filesystem("memory")
    root = "/eq5"
    if fs.exists(root):
        fs.rm(root, recursive=True)
    for name, data in files.items():
        fs.pipe_file(f"{root}/{name}", data)
    mapper = fs.get_mapper(root)
    results["open/fsspec"] = [(name, outcome(open_volume_directory, mapper, name)) for name in files]
    results["open/fsspec-missing"] = [("VOL-x", outcome(open_volume_directory, mapper, "VOL-x"))]
    fs.rm(root, recursive=True)

    return results


# BEGIN EXPECTED
EXPECTED = {'open/dict': [('vol/three-files',
                ('returned',
                 ('Group',
                  '/',
                  None,
                  '{}',
                  'dict',
                  "[('control_document_id', 'CEOS-SAR'), ('control_document_revision_level', 'A'), "
                  "('record_format_revision_level', 'A'), ('software_version', '001.001'), "
                  "('physical_volume_id', 'PV'), ('logical_volume_id', 'LV'), ('volume_set_id', "
                  "'VS'), ('creation_datetime', '2020-10-11T17:23:37.980000'), "
                  "('creation_country', 'JAPAN'), ('creation_agency', 'JAXA'), "
                  "('creation_facility', 'SCMO'), ('product_id', 'PRODUCT:WWDR1.1__D'), "
                  "('product_creation', 'PROCESS:JAPAN-JAXA-ALOS2  20201011 172337'), ('scene_id', "
                  "'ORBIT:ALOS2225333200-180726'), ('scene_location_id', 'FRAME:3200')]"))),
               ('vol/no-files',
                ('returned',
                 ('Group',
                  '/',
                  None,
                  '{}',
                  'dict',
                  "[('control_document_id', 'CEOS-SAR'), ('control_document_revision_level', 'A'), "
                  "('record_format_revision_level', 'A'), ('software_version', '001.001'), "
                  "('physical_volume_id', 'PV'), ('logical_volume_id', 'LV'), ('volume_set_id', "
                  "'VS'), ('creation_datetime', '2020-10-11T17:23:37.980000'), "
                  "('creation_country', 'JAPAN'), ('creation_agency', 'JAXA'), "
                  "('creation_facility', 'SCMO'), ('product_id', 'PRODUCT:WWDR1.1__D'), "
                  "('product_creation', 'PROCESS:JAPAN-JAXA-ALOS2  20201011 172337'), ('scene_id', "
                  "'ORBIT:ALOS2225333200-180726'), ('scene_location_id', 'FRAME:3200')]"))),
               ('vol/six-files',
                ('returned',
                 ('Group',
                  '/',
                  None,
                  '{}',
                  'dict',
                  "[('control_document_id', 'CEOS-SAR'), ('control_document_revision_level', 'A'), "
                  "('record_format_revision_level', 'A'), ('software_version', '001.001'), "
                  "('physical_volume_id', 'PV'), ('logical_volume_id', 'LV'), ('volume_set_id', "
                  "'VS'), ('creation_datetime', '2020-10-11T17:23:37.980000'), "
                  "('creation_country', 'JAPAN'), ('creation_agency', 'JAXA'), "
                  "('creation_facility', 'SCMO'), ('product_id', 'PRODUCT:WWDR1.1__D'), "
                  "('product_creation', 'PROCESS:JAPAN-JAXA-ALOS2  20201011 172337'), ('scene_id', "
                  "'ORBIT:ALOS2225333200-180726'), ('scene_location_id', 'FRAME:3200')]"))),
               ('vol/blank-text',
                ('returned',
                 ('Group',
                  '/',
                  None,
                  '{}',
                  'dict',
                  "[('control_document_id', 'CEOS-SAR'), ('control_document_revision_level', 'A'), "
                  "('record_format_revision_level', 'A'), ('software_version', '001.001'), "
                  "('physical_volume_id', 'PV'), ('logical_volume_id', 'LV'), ('volume_set_id', "
                  "'VS'), ('creation_datetime', '2020-10-11T17:23:37.980000'), "
                  "('creation_country', 'JAPAN'), ('creation_agency', 'JAXA'), "
                  "('creation_facility', 'SCMO'), ('product_id', ''), ('product_creation', ''), "
                  "('scene_id', ''), ('scene_location_id', '')]"))),
               ('vol/short-datetime',
                ('returned',
                 ('Group',
                  '/',
                  None,
                  '{}',
                  'dict',
                  "[('control_document_id', 'CEOS-SAR'), ('control_document_revision_level', 'A'), "
                  "('record_format_revision_level', 'A'), ('software_version', '001.001'), "
                  "('physical_volume_id', 'PV'), ('logical_volume_id', 'LV'), ('volume_set_id', "
                  "'VS'), ('creation_datetime', '2020-10-11T17:23:03.700000'), "
                  "('creation_country', 'JAPAN'), ('creation_agency', 'JAXA'), "
                  "('creation_facility', 'SCMO'), ('product_id', 'PRODUCT:WWDR1.1__D'), "
                  "('product_creation', 'PROCESS:JAPAN-JAXA-ALOS2  20201011 172337'), ('scene_id', "
                  "'ORBIT:ALOS2225333200-180726'), ('scene_location_id', 'FRAME:3200')]"))),
               ('vol/blank-datetime',
                ('raised',
                 ('ValueError',
                  "time data '' does not match format '%Y%m%d%H%M%S%f'",
                  False,
                  None))),
               ('vol/truncated',
                ('raised',
                 ('StreamError',
                  'Error in path (parsing) -> text_record -> blanks\n'
                  'stream read less than specified amount, expected 124, found 123',
                  False,
                  None))),
               ('vol/too-few-file-records',
                ('raised',
                 ('ValueError', "invalid literal for int() with base 10: 'PROD'", False, None))),
               ('vol/trailing-bytes',
                ('returned',
                 ('Group',
                  '/',
                  None,
                  '{}',
                  'dict',
                  "[('control_document_id', 'CEOS-SAR'), ('control_document_revision_level', 'A'), "
                  "('record_format_revision_level', 'A'), ('software_version', '001.001'), "
                  "('physical_volume_id', 'PV'), ('logical_volume_id', 'LV'), ('volume_set_id', "
                  "'VS'), ('creation_datetime', '2020-10-11T17:23:37.980000'), "
                  "('creation_country', 'JAPAN'), ('creation_agency', 'JAXA'), "
                  "('creation_facility', 'SCMO'), ('product_id', 'PRODUCT:WWDR1.1__D'), "
                  "('product_creation', 'PROCESS:JAPAN-JAXA-ALOS2  20201011 172337'), ('scene_id', "
                  "'ORBIT:ALOS2225333200-180726'), ('scene_location_id', 'FRAME:3200')]"))),
               ('vol/empty',
                ('raised',
                 ('StreamError',
                  'Error in path (parsing) -> volume_descriptor -> preamble -> '
                  'record_sequence_number\n'
                  'stream read less than specified amount, expected 4, found 0',
                  False,
                  None)))],
 'open/dict-missing': [('vol/absent',
                        ('raised',
                         ('FileNotFoundError',
                          'Cannot open vol/absent',
                          True,
                          ('KeyError', "'vol/absent'", False, None))))],
 'open/fsspec': [('vol/three-files',
                  ('returned',
                   ('Group',
                    '/',
                    None,
                    '{}',
                    'dict',
                    "[('control_document_id', 'CEOS-SAR'), ('control_document_revision_level', "
                    "'A'), ('record_format_revision_level', 'A'), ('software_version', '001.001'), "
                    "('physical_volume_id', 'PV'), ('logical_volume_id', 'LV'), ('volume_set_id', "
                    "'VS'), ('creation_datetime', '2020-10-11T17:23:37.980000'), "
                    "('creation_country', 'JAPAN'), ('creation_agency', 'JAXA'), "
                    "('creation_facility', 'SCMO'), ('product_id', 'PRODUCT:WWDR1.1__D'), "
                    "('product_creation', 'PROCESS:JAPAN-JAXA-ALOS2  20201011 172337'), "
                    "('scene_id', 'ORBIT:ALOS2225333200-180726'), ('scene_location_id', "
                    "'FRAME:3200')]"))),
                 ('vol/no-files',
                  ('returned',
                   ('Group',
                    '/',
                    None,
                    '{}',
                    'dict',
                    "[('control_document_id', 'CEOS-SAR'), ('control_document_revision_level', "
                    "'A'), ('record_format_revision_level', 'A'), ('software_version', '001.001'), "
                    "('physical_volume_id', 'PV'), ('logical_volume_id', 'LV'), ('volume_set_id', "
                    "'VS'), ('creation_datetime', '2020-10-11T17:23:37.980000'), "
                    "('creation_country', 'JAPAN'), ('creation_agency', 'JAXA'), "
                    "('creation_facility', 'SCMO'), ('product_id', 'PRODUCT:WWDR1.1__D'), "
                    "('product_creation', 'PROCESS:JAPAN-JAXA-ALOS2  20201011 172337'), "
                    "('scene_id', 'ORBIT:ALOS2225333200-180726'), ('scene_location_id', "
                    "'FRAME:3200')]"))),
                 ('vol/six-files',
                  ('returned',
                   ('Group',
                    '/',
                    None,
                    '{}',
                    'dict',
                    "[('control_document_id', 'CEOS-SAR'), ('control_document_revision_level', "
                    "'A'), ('record_format_revision_level', 'A'), ('software_version', '001.001'), "
                    "('physical_volume_id', 'PV'), ('logical_volume_id', 'LV'), ('volume_set_id', "
                    "'VS'), ('creation_datetime', '2020-10-11T17:23:37.980000'), "
                    "('creation_country', 'JAPAN'), ('creation_agency', 'JAXA'), "
                    "('creation_facility', 'SCMO'), ('product_id', 'PRODUCT:WWDR1.1__D'), "
                    "('product_creation', 'PROCESS:JAPAN-JAXA-ALOS2  20201011 172337'), "
                    "('scene_id', 'ORBIT:ALOS2225333200-180726'), ('scene_location_id', "
                    "'FRAME:3200')]"))),
                 ('vol/blank-text',
                  ('returned',
                   ('Group',
                    '/',
                    None,
                    '{}',
                    'dict',
                    "[('control_document_id', 'CEOS-SAR'), ('control_document_revision_level', "
                    "'A'), ('record_format_revision_level', 'A'), ('software_version', '001.001'), "
                    "('physical_volume_id', 'PV'), ('logical_volume_id', 'LV'), ('volume_set_id', "
                    "'VS'), ('creation_datetime', '2020-10-11T17:23:37.980000'), "
                    "('creation_country', 'JAPAN'), ('creation_agency', 'JAXA'), "
                    "('creation_facility', 'SCMO'), ('product_id', ''), ('product_creation', ''), "
                    "('scene_id', ''), ('scene_location_id', '')]"))),
                 ('vol/short-datetime',
                  ('returned',
                   ('Group',
                    '/',
                    None,
                    '{}',
                    'dict',
                    "[('control_document_id', 'CEOS-SAR'), ('control_document_revision_level', "
                    "'A'), ('record_format_revision_level', 'A'), ('software_version', '001.001'), "
                    "('physical_volume_id', 'PV'), ('logical_volume_id', 'LV'), ('volume_set_id', "
                    "'VS'), ('creation_datetime', '2020-10-11T17:23:03.700000'), "
                    "('creation_country', 'JAPAN'), ('creation_agency', 'JAXA'), "
                    "('creation_facility', 'SCMO'), ('product_id', 'PRODUCT:WWDR1.1__D'), "
                    "('product_creation', 'PROCESS:JAPAN-JAXA-ALOS2  20201011 172337'), "
                    "('scene_id', 'ORBIT:ALOS2225333200-180726'), ('scene_location_id', "
                    "'FRAME:3200')]"))),
                 ('vol/blank-datetime',
                  ('raised',
                   ('ValueError',
                    "time data '' does not match format '%Y%m%d%H%M%S%f'",
                    False,
                    None))),
                 ('vol/truncated',
                  ('raised',
                   ('StreamError',
                    'Error in path (parsing) -> text_record -> blanks\n'
                    'stream read less than specified amount, expected 124, found 123',
                    False,
                    None))),
                 ('vol/too-few-file-records',
                  ('raised',
                   ('ValueError', "invalid literal for int() with base 10: 'PROD'", False, None))),
                 ('vol/trailing-bytes',
                  ('returned',
                   ('Group',
                    '/',
                    None,
                    '{}',
                    'dict',
                    "[('control_document_id', 'CEOS-SAR'), ('control_document_revision_level', "
                    "'A'), ('record_format_revision_level', 'A'), ('software_version', '001.001'), "
                    "('physical_volume_id', 'PV'), ('logical_volume_id', 'LV'), ('volume_set_id', "
                    "'VS'), ('creation_datetime', '2020-10-11T17:23:37.980000'), "
                    "('creation_country', 'JAPAN'), ('creation_agency', 'JAXA'), "
                    "('creation_facility', 'SCMO'), ('product_id', 'PRODUCT:WWDR1.1__D'), "
                    "('product_creation', 'PROCESS:JAPAN-JAXA-ALOS2  20201011 172337'), "
                    "('scene_id', 'ORBIT:ALOS2225333200-180726'), ('scene_location_id', "
                    "'FRAME:3200')]"))),
                 ('vol/empty',
                  ('raised',
                   ('StreamError',
                    'Error in path (parsing) -> volume_descriptor -> preamble -> '
                    'record_sequence_number\n'
                    'stream read less than specified amount, expected 4, found 0',
                    False,
                    None)))],
 'open/fsspec-missing': [('VOL-x',
                          ('raised',
                           ('FileNotFoundError',
                            'Cannot open VOL-x',
                            True,
                            ('KeyError',
                             "'VOL-x'",
                             True,
                             ('FileNotFoundError',
                              '/eq5/VOL-x',
                              True,
                              ('KeyError', "'/eq5/VOL-x'", False, None))))))],
 'record': [('empty', ('returned', ('Group', '/', None, '{}', 'dict', '[]'))),
            ('ignored', ('returned', ('Group', '/', None, '{}', 'dict', "[('a', 1), ('d', 4)]"))),
            ('only-file-descriptors', ('returned', ('Group', '/', None, '{}', 'dict', '[]'))),
            ('transformers',
             ('returned',
              ('Group',
               '/',
               None,
               '{}',
               'dict',
               "[('creation_country', 'a'), ('product_creation', 'b')]"))),
            ('flattened',
             ('returned',
              ('Group', '/', None, '{}', 'dict', "[('a', 1), ('b', 2), ('c', 3), ('d', 4)]"))),
            ('text-first',
             ('returned',
              ('Group', '/', None, '{}', 'dict', "[('c', 3), ('d', 4), ('a', 1), ('b', 2)]"))),
            ('file-descriptors-between',
             ('returned', ('Group', '/', None, '{}', 'dict', "[('c', 3), ('a', 1)]"))),
            ('only-descriptor',
             ('returned', ('Group', '/', None, '{}', 'dict', "[('volume_set_id', 'v')]"))),
            ('only-text', ('returned', ('Group', '/', None, '{}', 'dict', "[('scene_id', 's')]"))),
            ('unknown-scalar-sections',
             ('returned',
              ('Group', '/', None, '{}', 'dict', "[('a', 1), ('b', 2), ('c', None), ('d', 's')]"))),
            ('unknown-dict-section',
             ('returned', ('Group', '/', None, '{}', 'dict', "[('x', 2), ('y', {'deep': 2})]"))),
            ('unknown-list-section',
             ('returned',
              ('Group',
               '/',
               None,
               '{}',
               'dict',
               "[('extra', [{'x': 1}]), ('other', ({'y': 2},))]"))),
            ('empty-sections', ('returned', ('Group', '/', None, '{}', 'dict', '[]'))),
            ('overlap-sections',
             ('returned',
              ('Group', '/', None, '{}', 'dict', "[('scene_id', 'from-text'), ('k', 2)]"))),
            ('overlap-scalar-then-section',
             ('returned', ('Group', '/', None, '{}', 'dict', "[('k', 'nested'), ('j', 1)]"))),
            ('overlap-section-then-scalar',
             ('returned', ('Group', '/', None, '{}', 'dict', "[('k', 'scalar'), ('j', 1)]"))),
            ('overlap-section-name',
             ('returned',
              ('Group',
               '/',
               None,
               '{}',
               'dict',
               "[('volume_descriptor', 'x'), ('text_record', 1)]"))),
            ('datetime',
             ('returned',
              ('Group', '/', None, '{}', 'dict', "[('creation_datetime', 'untouched')]"))),
            ('datetime-invalid',
             ('raised',
              ('ValueError', "time data 'x' does not match format '%Y%m%d%H%M%S%f'", False, None))),
            ('descriptor-none',
             ('raised',
              ('AttributeError', "'NoneType' object has no attribute 'items'", False, None))),
            ('text-list',
             ('raised', ('AttributeError', "'list' object has no attribute 'items'", False, None))),
            ('both-invalid',
             ('raised', ('AttributeError', "'int' object has no attribute 'items'", False, None))),
            ('file-descriptors-invalid-is-ignored',
             ('returned', ('Group', '/', None, '{}', 'dict', '[]'))),
            ('non-string-keys',
             ('returned',
              ('Group',
               '/',
               None,
               '{}',
               'dict',
               "[('a', 1), (None, 'b'), ('c', Key()), (('t',), [1])]"))),
            ('none',
             ('raised',
              ('AttributeError', "'NoneType' object has no attribute 'items'", False, None))),
            ('list',
             ('raised', ('AttributeError', "'list' object has no attribute 'items'", False, None))),
            ('string',
             ('raised', ('AttributeError', "'str' object has no attribute 'items'", False, None)))],
 'text': [('empty', ('returned', ('dict', '[]'))),
          ('all-ignored', ('returned', ('dict', '[]'))),
          ('ignored-and-kept', ('returned', ('dict', "[('product_id', 'PRODUCT:WWDR1.5RUA')]"))),
          ('renamed', ('returned', ('dict', "[('product_id', 'b'), ('product_creation', 'a')]"))),
          ('renamed-first',
           ('returned', ('dict', "[('product_creation', 'a'), ('scene_id', 's')]"))),
          ('collision-old-first',
           ('returned', ('dict', "[('product_creation', 'new'), ('x', 1)]"))),
          ('collision-new-first',
           ('returned', ('dict', "[('product_creation', 'old'), ('x', 1)]"))),
          ('order',
           ('returned',
            ('dict', "[('z', 1), ('spare', 2), ('a', None), ('m', [1]), ('d', {'k': 1})]"))),
          ('non-string-keys',
           ('returned', ('dict', "[(1, 'a'), (None, 'b'), (('t',), 'c'), (Key(), 'd')]"))),
          ('none',
           ('raised',
            ('AttributeError', "'NoneType' object has no attribute 'items'", False, None))),
          ('list',
           ('raised', ('AttributeError', "'list' object has no attribute 'items'", False, None))),
          ('string',
           ('raised', ('AttributeError', "'str' object has no attribute 'items'", False, None)))]}
# END EXPECTED


def test_equivalence():
    actual = compute()
    assert sorted(actual) == sorted(EXPECTED)
    for key in EXPECTED:
        assert len(actual[key]) == len(EXPECTED[key]), key
        for a, e in zip(actual[key], EXPECTED[key]):
            assert a == e, (key, a, e)


def test_inputs_not_modified():
    text = {"preamble": {"a": 1}, "location_and_datetime_of_product_creation": "x", "k": [1]}
    snapshot = copy.deepcopy(text)
    transformed = metadata.transform_text(text)
    assert text == snapshot and list(text) == list(snapshot)
    assert type(transformed) is dict and transformed is not text and transformed["k"] is text["k"]

    shared = [1, 2]
    record = {
        "volume_descriptor": {"preamble": 1, "volume_set_id": shared},
        "file_descriptors": [{"a": 1}],
        "text_record": {"blanks": "", "scene_id": "s"},
        "extra": {"x": shared},
    }
    snapshot = copy.deepcopy(record)
    group = metadata.transform_record(record)
    assert record == snapshot and list(record) == list(snapshot)
    assert type(group) is Group and type(group.attrs) is dict
    assert group.attrs["volume_set_id"] is shared and group.attrs["x"] is shared
    assert group.attrs is not record["extra"]


def test_section_transformers_resolved_at_call_time_in_order():
    calls = []
    originals = {
        name: getattr(metadata, name) for name in ("transform_volume_descriptor", "transform_text")
    }

    def recorder(name):
        def wrapper(section):
            calls.append((name, section))
            return originals[name](section)

        return wrapper

    try:
        for name in originals:
            setattr(metadata, name, recorder(name))
        metadata.transform_record(
            {
                "text_record": {"a": 1},
                "file_descriptors": {"never": "transformed"},
                "other": {"b": 2},
                "volume_descriptor": {"c": 3},
            }
        )
        # the first failing section stops everything; later sections are not transformed
        try:
            metadata.transform_record({"text_record": None, "volume_descriptor": {"c": 3}})
        except AttributeError:
            pass
        else:
            raise AssertionError("AttributeError expected")
    finally:
        for name, func in originals.items():
            setattr(metadata, name, func)

    assert calls == [
        ("transform_text", {"a": 1}),
        ("transform_volume_descriptor", {"c": 3}),
        ("transform_text", None),
    ]


def test_mapper_accessed_once():
    class Recorder(dict):
        def __init__(self, *args):
            super().__init__(*args)
            self.log = []

        def __getitem__(self, key):
            self.log.append(("getitem", key))
            return super().__getitem__(key)

        def __contains__(self, key):
            self.log.append(("contains", key))
            return super().__contains__(key)

        def get(self, key, default=None):
            self.log.append(("get", key))
            return super().get(key, default)

    mapper = Recorder({"VOL": build_volume_directory(2)})
    open_volume_directory(mapper, "VOL")
    try:
        open_volume_directory(mapper, "LED")
    except FileNotFoundError:
        pass
    assert mapper.log == [("getitem", "VOL"), ("getitem", "LED")]
    assert isinstance(io.parse_data(mapper["VOL"]), dict)


if __name__ == "__main__":
    if "--record" in sys.argv:
        pprint.pprint(compute(), width=100)
        sys.exit(0)

    test_equivalence()
    test_inputs_not_modified()
    test_section_transformers_resolved_at_call_time_in_order()
    test_mapper_accessed_once()
    print("ok:", sum(len(v) for v in EXPECTED.values()), "recorded outcomes")
