"""Equivalence check for refactoring 2 (ceos_alos2/sar_leader/facility_related_data.py).

Builds synthetic facility related data records (the generic record 1-4 layout with
several record lengths, and the 5000 byte record 5), parses them with the structs
and runs ``transform_auxiliary_file`` / ``transform_record5`` / ``transform_group``.
The results are compared with hard-coded values produced by the UNCHANGED code
(HEAD), so the script has to pass both with and without ``patch.diff`` applied.

run with::

    cd /tmp/wt2/e04 && PYTHONPATH=/tmp/wt2/e04 /venv/bin/python _eq/2/equiv.py
"""

import pprint
import struct
import sys

import numpy as np

from ceos_alos2.hierarchy import Group, Variable
from ceos_alos2.sar_leader import facility_related_data as frd
from ceos_alos2.utils import to_dict


def canon(obj):
    """order- and type-preserving plain representation"""
    if isinstance(obj, Group):
        return ("Group", obj.path, obj.url, canon(obj.data), canon(obj.attrs))
    if isinstance(obj, Variable):
        return ("Variable", canon(obj.dims), canon(obj.data), canon(obj.attrs))
    if isinstance(obj, np.ndarray):
        values = obj.astype("int64") if obj.dtype.kind in "mM" else obj
        return ("ndarray", str(obj.dtype), obj.shape, values.tolist())
    if isinstance(obj, dict):
        return ("dict", [(k, canon(v)) for k, v in obj.items()])
    if isinstance(obj, list):
        return ("list", [canon(v) for v in obj])
    if isinstance(obj, tuple):
        return ("tuple", [canon(v) for v in obj])
    if isinstance(obj, (float, complex)):
        return (type(obj).__name__, repr(obj))  # keeps nan and -0.0 apart from 0.0
    if isinstance(obj, (str, bytes, int, bool, type(None))):
        return (type(obj).__name__, obj)
    raise TypeError(f"unexpected object: {obj!r}")


def outcome(func, *args):
    try:
        return ("ok", canon(func(*args)))
    except Exception as e:
        return ("raise", type(e).__name__, str(e))


def ascii_field(value, width):
    text = f"{value:>{width}}"
    assert len(text) == width, (value, width)
    return text.encode("ascii")


def preamble(record_length, sequence_number=11):
    return struct.pack(">IBBBBI", sequence_number, 18, 200, 18, 70, record_length)


def build_auxiliary_record(record_length, data_type, payload):
    body = ascii_field(data_type, 4) + b" " * 50 + payload
    return preamble(record_length) + body


def floats(start, step, n):
    return b"".join(ascii_field(f"{start + step * i:.10E}", 20) for i in range(n))


def build_record5():
    parts = [
        preamble(5000),
        ascii_field(5, 4),
        floats(1.0, 0.5, 10),  # a (mid precision)
        floats(-1.0, -0.25, 10),  # b (mid precision)
        ascii_field(3, 4),  # calibration mode data location flag
        ascii_field(1, 8) + ascii_field(120, 8),  # calibration at upper image
        ascii_field(30001, 8) + ascii_field("", 8),  # calibration at bottom image
        ascii_field(1, 4),  # prf switching flag
        ascii_field(4711, 8),
        b" " * 8,  # blanks1
        ascii_field(0, 8) + ascii_field(17, 8),  # number of loss lines
        b" " * 312,  # blanks2
        ascii_field("reserved", 224),
        floats(100.0, 1.0, 25) + floats(200.0, 2.0, 25),
        ascii_field("1.5", 20) + ascii_field("2.5", 20),
        floats(300.0, 3.0, 25) + floats(400.0, 4.0, 24) + ascii_field("", 20),
        ascii_field("35.25", 20) + ascii_field("139.75", 20),
        b" " * 1896,
    ]
    record = b"".join(parts)
    assert len(record) == 5000
    return record


def parse(data):
    return to_dict(frd.facility_related_data_record.parse(data))


def parse5(data):
    return to_dict(frd.facility_related_data_5_record.parse(data))


def compute():
    results = {}

    # record types 1 - 4
    record = build_auxiliary_record(100, 2, ascii_field("determined ephemeris", 34))
    parsed = parse(record)
    results["aux_parsed"] = canon(parsed)
    results["aux_transformed"] = canon(frd.transform_auxiliary_file(parsed))
    # the smallest possible record: raw_file_data has length 0
    results["aux_minimal"] = outcome(parse, build_auxiliary_record(66, 1, b""))
    # record length smaller than the fixed part: negative length
    results["aux_negative"] = outcome(parse, build_auxiliary_record(65, 1, b"abc"))
    # more data requested than available
    results["aux_truncated"] = outcome(parse, build_auxiliary_record(70, 1, b"abc"))
    results["aux_data_types"] = [
        outcome(frd.transform_auxiliary_file, {"preamble": {}, "record_sequence_number": i})
        for i in (-1, 0, 1, 2, 3, 4, 5, None, [])
    ]

    # record type 5
    record5 = build_record5()
    parsed5 = parse5(record5)
    results["record5_parsed"] = canon(parsed5)
    results["record5_transformed"] = canon(frd.transform_record5(parsed5))
    results["record5_truncated"] = outcome(parse5, record5[:700])
    results["record5_garbage"] = outcome(parse5, record5[:16] + b"x" * 4984)

    results["transform_group"] = [
        outcome(frd.transform_group, ({"a": [1, 2], "b": 3}, {"formula": "f"}), "dim"),
        outcome(frd.transform_group, ({}, {}), "dim"),
        outcome(frd.transform_group, 5, "dim"),
        outcome(frd.transform_group, ({"a": 1},), "dim"),
    ]
    results["record5_errors"] = [
        outcome(frd.transform_record5, {}),
        outcome(frd.transform_record5, None),
        outcome(frd.transform_record5, {"conversion_from_pixel_to_geographic": 5}),
        outcome(frd.transform_record5, {"conversion_from_geographic_to_pixel": (5, {})}),
        outcome(frd.transform_record5, {"conversion_from_map_projection_to_pixel": "ab"}),
        outcome(frd.transform_record5, {"prf_switching_flag": 0, "prf_switching": 1}),
    ]

    return results


EXPECTED = {'aux_parsed': ('dict',
                [('preamble',
                  ('dict',
                   [('record_sequence_number', ('int', 11)),
                    ('first_record_subtype', ('int', 18)),
                    ('record_type', ('int', 200)),
                    ('second_record_subtype', ('int', 18)),
                    ('third_record_subtype', ('int', 70)),
                    ('record_length', ('int', 100))])),
                 ('record_sequence_number', ('int', 2)),
                 ('blanks', ('str', '')),
                 ('raw_file_data', ('str', 'determined ephemeris'))]),
 'aux_transformed': ('dict',
                     [('data_type', ('str', 'determined ephemeris')),
                      ('raw_file_data', ('str', 'determined ephemeris'))]),
 'aux_minimal': ('ok',
                 ('dict',
                  [('preamble',
                    ('dict',
                     [('record_sequence_number', ('int', 11)),
                      ('first_record_subtype', ('int', 18)),
                      ('record_type', ('int', 200)),
                      ('second_record_subtype', ('int', 18)),
                      ('third_record_subtype', ('int', 70)),
                      ('record_length', ('int', 66))])),
                   ('record_sequence_number', ('int', 1)),
                   ('blanks', ('str', '')),
                   ('raw_file_data', ('str', ''))])),
 'aux_negative': ('raise',
                  'PaddingError',
                  'Error in path (parsing) -> raw_file_data\nlength cannot be negative'),
 'aux_truncated': ('raise',
                   'StreamError',
                   'Error in path (parsing) -> raw_file_data\n'
                   'stream read less than specified amount, expected 4, found 3'),
 'aux_data_types': [('ok', ('dict', [('data_type', ('NoneType', None))])),
                    ('ok', ('dict', [('data_type', ('NoneType', None))])),
                    ('ok', ('dict', [('data_type', ('str', 'dummy data'))])),
                    ('ok', ('dict', [('data_type', ('str', 'determined ephemeris'))])),
                    ('ok', ('dict', [('data_type', ('str', 'time error information'))])),
                    ('ok', ('dict', [('data_type', ('str', 'coordinate conversion information'))])),
                    ('ok', ('dict', [('data_type', ('NoneType', None))])),
                    ('ok', ('dict', [('data_type', ('NoneType', None))])),
                    ('raise', 'TypeError', "unhashable type: 'list'")],
 'record5_parsed': ('dict',
                    [('preamble',
                      ('dict',
                       [('record_sequence_number', ('int', 11)),
                        ('first_record_subtype', ('int', 18)),
                        ('record_type', ('int', 200)),
                        ('second_record_subtype', ('int', 18)),
                        ('third_record_subtype', ('int', 70)),
                        ('record_length', ('int', 5000))])),
                     ('record_sequence_number', ('int', 5)),
                     ('conversion_from_map_projection_to_pixel',
                      ('tuple',
                       [('dict',
                         [('a',
                           ('list',
                            [('float', '1.0'),
                             ('float', '1.5'),
                             ('float', '2.0'),
                             ('float', '2.5'),
                             ('float', '3.0'),
                             ('float', '3.5'),
                             ('float', '4.0'),
                             ('float', '4.5'),
                             ('float', '5.0'),
                             ('float', '5.5')])),
                          ('b',
                           ('list',
                            [('float', '-1.0'),
                             ('float', '-1.25'),
                             ('float', '-1.5'),
                             ('float', '-1.75'),
                             ('float', '-2.0'),
                             ('float', '-2.25'),
                             ('float', '-2.5'),
                             ('float', '-2.75'),
                             ('float', '-3.0'),
                             ('float', '-3.25')]))]),
                        ('dict',
                         [('formula',
                           ('str',
                            'P = a0 + a1*φ + a2*λ + a3*φ*λ + a4*φ^2 + a5*λ^2 + a6*φ^2*λ + a7*φ*λ^2 '
                            '+ a8*φ^3 + a9*λ^3; L = b0 + b1*φ + b2*λ + b3*φ*λ + b4*φ^2 + b5*λ^2 + '
                            'b6*φ^2*λ + b7*φ*λ^2 + b8*φ^3 + b9*λ^3'))])])),
                     ('calibration_mode_data_location_flag',
                      ('str', 'side_of_observation_start_and_end')),
                     ('calibration_at_upper_image',
                      ('dict',
                       [('start_line_number', ('int', 1)), ('end_line_number', ('int', 120))])),
                     ('calibration_at_bottom_image',
                      ('dict',
                       [('start_line_number', ('int', 30001)), ('end_line_number', ('int', -1))])),
                     ('prf_switching_flag', ('int', 1)),
                     ('start_line_number_of_prf_switching', ('int', 4711)),
                     ('blanks1', ('str', '')),
                     ('number_of_loss_lines',
                      ('dict', [('level1.0', ('int', 0)), ('others', ('int', 17))])),
                     ('blanks2', ('str', '')),
                     ('system_reserve', ('str', 'reserved')),
                     ('conversion_from_pixel_to_geographic',
                      ('tuple',
                       [('dict',
                         [('a',
                           ('list',
                            [('float', '100.0'),
                             ('float', '101.0'),
                             ('float', '102.0'),
                             ('float', '103.0'),
                             ('float', '104.0'),
                             ('float', '105.0'),
                             ('float', '106.0'),
                             ('float', '107.0'),
                             ('float', '108.0'),
                             ('float', '109.0'),
                             ('float', '110.0'),
                             ('float', '111.0'),
                             ('float', '112.0'),
                             ('float', '113.0'),
                             ('float', '114.0'),
                             ('float', '115.0'),
                             ('float', '116.0'),
                             ('float', '117.0'),
                             ('float', '118.0'),
                             ('float', '119.0'),
                             ('float', '120.0'),
                             ('float', '121.0'),
                             ('float', '122.0'),
                             ('float', '123.0'),
                             ('float', '124.0')])),
                          ('b',
                           ('list',
                            [('float', '200.0'),
                             ('float', '202.0'),
                             ('float', '204.0'),
                             ('float', '206.0'),
                             ('float', '208.0'),
                             ('float', '210.0'),
                             ('float', '212.0'),
                             ('float', '214.0'),
                             ('float', '216.0'),
                             ('float', '218.0'),
                             ('float', '220.0'),
                             ('float', '222.0'),
                             ('float', '224.0'),
                             ('float', '226.0'),
                             ('float', '228.0'),
                             ('float', '230.0'),
                             ('float', '232.0'),
                             ('float', '234.0'),
                             ('float', '236.0'),
                             ('float', '238.0'),
                             ('float', '240.0'),
                             ('float', '242.0'),
                             ('float', '244.0'),
                             ('float', '246.0'),
                             ('float', '248.0')])),
                          ('origin_pixel', ('float', '1.5')),
                          ('origin_line', ('float', '2.5'))]),
                        ('dict',
                         [('formula',
                           ('str',
                            'φ = a0*L^4*P^4 + a1*L^3*P^4 + a2*L^2*P^4 + a3*L*P^4 + a4*P^4 + '
                            'a5*L^4*P^3 + a6*L^3*P^3 + a7*L^2*P^3 + a8*L*P^3 + a9*P^3 + '
                            'a10*L^4*P^2 + a11*L^3*P^2 + a12*L^2*P^2 + a13*L*P^2 + a14*P^2 + '
                            'a15*L^4*P + a16*L^3*P + a17*L^2*P + a18*L*P + a19*P + a20*L^4 + '
                            'a21*L^3 + a22*L^2 + a23*L + a24; λ = b0*L^4*P^4 + b1*L^3*P^4 + '
                            'b2*L^2*P^4 + b3*L*P^4 + b4*P^4 + b5*L^4*P^3 + b6*L^3*P^3 + b7*L^2*P^3 '
                            '+ b8*L*P^3 + b9*P^3 + b10*L^4*P^2 + b11*L^3*P^2 + b12*L^2*P^2 + '
                            'b13*L*P^2 + b14*P^2 + b15*L^4*P + b16*L^3*P + b17*L^2*P + b18*L*P + '
                            'b19*P + b20*L^4 + b21*L^3 + b22*L^2 + b23*L + b24'))])])),
                     ('conversion_from_geographic_to_pixel',
                      ('tuple',
                       [('dict',
                         [('c',
                           ('list',
                            [('float', '300.0'),
                             ('float', '303.0'),
                             ('float', '306.0'),
                             ('float', '309.0'),
                             ('float', '312.0'),
                             ('float', '315.0'),
                             ('float', '318.0'),
                             ('float', '321.0'),
                             ('float', '324.0'),
                             ('float', '327.0'),
                             ('float', '330.0'),
                             ('float', '333.0'),
                             ('float', '336.0'),
                             ('float', '339.0'),
                             ('float', '342.0'),
                             ('float', '345.0'),
                             ('float', '348.0'),
                             ('float', '351.0'),
                             ('float', '354.0'),
                             ('float', '357.0'),
                             ('float', '360.0'),
                             ('float', '363.0'),
                             ('float', '366.0'),
                             ('float', '369.0'),
                             ('float', '372.0')])),
                          ('d',
                           ('list',
                            [('float', '400.0'),
                             ('float', '404.0'),
                             ('float', '408.0'),
                             ('float', '412.0'),
                             ('float', '416.0'),
                             ('float', '420.0'),
                             ('float', '424.0'),
                             ('float', '428.0'),
                             ('float', '432.0'),
                             ('float', '436.0'),
                             ('float', '440.0'),
                             ('float', '444.0'),
                             ('float', '448.0'),
                             ('float', '452.0'),
                             ('float', '456.0'),
                             ('float', '460.0'),
                             ('float', '464.0'),
                             ('float', '468.0'),
                             ('float', '472.0'),
                             ('float', '476.0'),
                             ('float', '480.0'),
                             ('float', '484.0'),
                             ('float', '488.0'),
                             ('float', '492.0'),
                             ('float', 'nan')])),
                          ('origin_latitude', ('float', '35.25')),
                          ('origin_longitude', ('float', '139.75'))]),
                        ('dict',
                         [('formula',
                           ('str',
                            'p = c0*Λ^4*Φ^4 + c1*Λ^3*Φ^4 + c2*Λ^2*Φ^4 + c3*Λ*Φ^4 + c4*Φ^4 + '
                            'c5*Λ^4*Φ^3 + c6*Λ^3*Φ^3 + c7*Λ^2*Φ^3 + c8*Λ*Φ^3 + c9*Φ^3 + '
                            'c10*Λ^4*Φ^2 + c11*Λ^3*Φ^2 + c12*Λ^2*Φ^2 + c13*Λ*Φ^2 + c14*Φ^2 + '
                            'c15*Λ^4*Φ + c16*Λ^3*Φ + c17*Λ^2*Φ + c18*Λ*Φ + c19*Φ; l = d0*Λ^4*Φ^4 + '
                            'd1*Λ^3*Φ^4 + d2*Λ^2*Φ^4 + d3*Λ*Φ^4 + d4*Φ^4 + d5*Λ^4*Φ^3 + d6*Λ^3*Φ^3 '
                            '+ d7*Λ^2*Φ^3 + d8*Λ*Φ^3 + d9*Φ^3 + d10*Λ^4*Φ^2 + d11*Λ^3*Φ^2 + '
                            'd12*Λ^2*Φ^2 + d13*Λ*Φ^2 + d14*Φ^2 + d15*Λ^4*Φ + d16*Λ^3*Φ + d17*Λ^2*Φ '
                            '+ d18*Λ*Φ + d19*Φ + d20*Λ^4 + d21*Λ^3 + d22*Λ^2 + d23*Λ + d24'))])])),
                     ('blanks', ('str', ''))]),
 'record5_transformed': ('Group',
                         '/',
                         None,
                         ('dict',
                          [('projected_to_image',
                            ('Group',
                             '/projected_to_image',
                             None,
                             ('dict',
                              [('a',
                                ('Variable',
                                 ('list', [('str', 'mid_precision_coeffs')]),
                                 ('list',
                                  [('float', '1.0'),
                                   ('float', '1.5'),
                                   ('float', '2.0'),
                                   ('float', '2.5'),
                                   ('float', '3.0'),
                                   ('float', '3.5'),
                                   ('float', '4.0'),
                                   ('float', '4.5'),
                                   ('float', '5.0'),
                                   ('float', '5.5')]),
                                 ('dict', []))),
                               ('b',
                                ('Variable',
                                 ('list', [('str', 'mid_precision_coeffs')]),
                                 ('list',
                                  [('float', '-1.0'),
                                   ('float', '-1.25'),
                                   ('float', '-1.5'),
                                   ('float', '-1.75'),
                                   ('float', '-2.0'),
                                   ('float', '-2.25'),
                                   ('float', '-2.5'),
                                   ('float', '-2.75'),
                                   ('float', '-3.0'),
                                   ('float', '-3.25')]),
                                 ('dict', [])))]),
                             ('dict',
                              [('formula',
                                ('str',
                                 'P = a0 + a1*φ + a2*λ + a3*φ*λ + a4*φ^2 + a5*λ^2 + a6*φ^2*λ + '
                                 'a7*φ*λ^2 + a8*φ^3 + a9*λ^3; L = b0 + b1*φ + b2*λ + b3*φ*λ + '
                                 'b4*φ^2 + b5*λ^2 + b6*φ^2*λ + b7*φ*λ^2 + b8*φ^3 + b9*λ^3'))]))),
                           ('calibration_at_upper_image',
                            ('Group',
                             '/calibration_at_upper_image',
                             None,
                             ('dict', []),
                             ('dict',
                              [('start_line_number', ('int', 1)),
                               ('end_line_number', ('int', 120))]))),
                           ('calibration_at_bottom_image',
                            ('Group',
                             '/calibration_at_bottom_image',
                             None,
                             ('dict', []),
                             ('dict',
                              [('start_line_number', ('int', 30001)),
                               ('end_line_number', ('int', -1))]))),
                           ('number_of_loss_lines',
                            ('Group',
                             '/number_of_loss_lines',
                             None,
                             ('dict', []),
                             ('dict', [('level1.0', ('int', 0)), ('others', ('int', 17))]))),
                           ('image_to_geographic',
                            ('Group',
                             '/image_to_geographic',
                             None,
                             ('dict',
                              [('a',
                                ('Variable',
                                 ('list', [('str', 'high_precision_coeffs')]),
                                 ('list',
                                  [('float', '100.0'),
                                   ('float', '101.0'),
                                   ('float', '102.0'),
                                   ('float', '103.0'),
                                   ('float', '104.0'),
                                   ('float', '105.0'),
                                   ('float', '106.0'),
                                   ('float', '107.0'),
                                   ('float', '108.0'),
                                   ('float', '109.0'),
                                   ('float', '110.0'),
                                   ('float', '111.0'),
                                   ('float', '112.0'),
                                   ('float', '113.0'),
                                   ('float', '114.0'),
                                   ('float', '115.0'),
                                   ('float', '116.0'),
                                   ('float', '117.0'),
                                   ('float', '118.0'),
                                   ('float', '119.0'),
                                   ('float', '120.0'),
                                   ('float', '121.0'),
                                   ('float', '122.0'),
                                   ('float', '123.0'),
                                   ('float', '124.0')]),
                                 ('dict', []))),
                               ('b',
                                ('Variable',
                                 ('list', [('str', 'high_precision_coeffs')]),
                                 ('list',
                                  [('float', '200.0'),
                                   ('float', '202.0'),
                                   ('float', '204.0'),
                                   ('float', '206.0'),
                                   ('float', '208.0'),
                                   ('float', '210.0'),
                                   ('float', '212.0'),
                                   ('float', '214.0'),
                                   ('float', '216.0'),
                                   ('float', '218.0'),
                                   ('float', '220.0'),
                                   ('float', '222.0'),
                                   ('float', '224.0'),
                                   ('float', '226.0'),
                                   ('float', '228.0'),
                                   ('float', '230.0'),
                                   ('float', '232.0'),
                                   ('float', '234.0'),
                                   ('float', '236.0'),
                                   ('float', '238.0'),
                                   ('float', '240.0'),
                                   ('float', '242.0'),
                                   ('float', '244.0'),
                                   ('float', '246.0'),
                                   ('float', '248.0')]),
                                 ('dict', []))),
                               ('origin_pixel',
                                ('Variable', ('tuple', []), ('float', '1.5'), ('dict', []))),
                               ('origin_line',
                                ('Variable', ('tuple', []), ('float', '2.5'), ('dict', [])))]),
                             ('dict',
                              [('formula',
                                ('str',
                                 'φ = a0*L^4*P^4 + a1*L^3*P^4 + a2*L^2*P^4 + a3*L*P^4 + a4*P^4 + '
                                 'a5*L^4*P^3 + a6*L^3*P^3 + a7*L^2*P^3 + a8*L*P^3 + a9*P^3 + '
                                 'a10*L^4*P^2 + a11*L^3*P^2 + a12*L^2*P^2 + a13*L*P^2 + a14*P^2 + '
                                 'a15*L^4*P + a16*L^3*P + a17*L^2*P + a18*L*P + a19*P + a20*L^4 + '
                                 'a21*L^3 + a22*L^2 + a23*L + a24; λ = b0*L^4*P^4 + b1*L^3*P^4 + '
                                 'b2*L^2*P^4 + b3*L*P^4 + b4*P^4 + b5*L^4*P^3 + b6*L^3*P^3 + '
                                 'b7*L^2*P^3 + b8*L*P^3 + b9*P^3 + b10*L^4*P^2 + b11*L^3*P^2 + '
                                 'b12*L^2*P^2 + b13*L*P^2 + b14*P^2 + b15*L^4*P + b16*L^3*P + '
                                 'b17*L^2*P + b18*L*P + b19*P + b20*L^4 + b21*L^3 + b22*L^2 + '
                                 'b23*L + b24'))]))),
                           ('geographic_to_image',
                            ('Group',
                             '/geographic_to_image',
                             None,
                             ('dict',
                              [('c',
                                ('Variable',
                                 ('list', [('str', 'high_precision_coeffs')]),
                                 ('list',
                                  [('float', '300.0'),
                                   ('float', '303.0'),
                                   ('float', '306.0'),
                                   ('float', '309.0'),
                                   ('float', '312.0'),
                                   ('float', '315.0'),
                                   ('float', '318.0'),
                                   ('float', '321.0'),
                                   ('float', '324.0'),
                                   ('float', '327.0'),
                                   ('float', '330.0'),
                                   ('float', '333.0'),
                                   ('float', '336.0'),
                                   ('float', '339.0'),
                                   ('float', '342.0'),
                                   ('float', '345.0'),
                                   ('float', '348.0'),
                                   ('float', '351.0'),
                                   ('float', '354.0'),
                                   ('float', '357.0'),
                                   ('float', '360.0'),
                                   ('float', '363.0'),
                                   ('float', '366.0'),
                                   ('float', '369.0'),
                                   ('float', '372.0')]),
                                 ('dict', []))),
                               ('d',
                                ('Variable',
                                 ('list', [('str', 'high_precision_coeffs')]),
                                 ('list',
                                  [('float', '400.0'),
                                   ('float', '404.0'),
                                   ('float', '408.0'),
                                   ('float', '412.0'),
                                   ('float', '416.0'),
                                   ('float', '420.0'),
                                   ('float', '424.0'),
                                   ('float', '428.0'),
                                   ('float', '432.0'),
                                   ('float', '436.0'),
                                   ('float', '440.0'),
                                   ('float', '444.0'),
                                   ('float', '448.0'),
                                   ('float', '452.0'),
                                   ('float', '456.0'),
                                   ('float', '460.0'),
                                   ('float', '464.0'),
                                   ('float', '468.0'),
                                   ('float', '472.0'),
                                   ('float', '476.0'),
                                   ('float', '480.0'),
                                   ('float', '484.0'),
                                   ('float', '488.0'),
                                   ('float', '492.0'),
                                   ('float', 'nan')]),
                                 ('dict', []))),
                               ('origin_latitude',
                                ('Variable', ('tuple', []), ('float', '35.25'), ('dict', []))),
                               ('origin_longitude',
                                ('Variable', ('tuple', []), ('float', '139.75'), ('dict', [])))]),
                             ('dict',
                              [('formula',
                                ('str',
                                 'p = c0*Λ^4*Φ^4 + c1*Λ^3*Φ^4 + c2*Λ^2*Φ^4 + c3*Λ*Φ^4 + c4*Φ^4 + '
                                 'c5*Λ^4*Φ^3 + c6*Λ^3*Φ^3 + c7*Λ^2*Φ^3 + c8*Λ*Φ^3 + c9*Φ^3 + '
                                 'c10*Λ^4*Φ^2 + c11*Λ^3*Φ^2 + c12*Λ^2*Φ^2 + c13*Λ*Φ^2 + c14*Φ^2 + '
                                 'c15*Λ^4*Φ + c16*Λ^3*Φ + c17*Λ^2*Φ + c18*Λ*Φ + c19*Φ; l = '
                                 'd0*Λ^4*Φ^4 + d1*Λ^3*Φ^4 + d2*Λ^2*Φ^4 + d3*Λ*Φ^4 + d4*Φ^4 + '
                                 'd5*Λ^4*Φ^3 + d6*Λ^3*Φ^3 + d7*Λ^2*Φ^3 + d8*Λ*Φ^3 + d9*Φ^3 + '
                                 'd10*Λ^4*Φ^2 + d11*Λ^3*Φ^2 + d12*Λ^2*Φ^2 + d13*Λ*Φ^2 + d14*Φ^2 + '
                                 'd15*Λ^4*Φ + d16*Λ^3*Φ + d17*Λ^2*Φ + d18*Λ*Φ + d19*Φ + d20*Λ^4 + '
                                 'd21*Λ^3 + d22*Λ^2 + d23*Λ + d24'))])))]),
                         ('dict',
                          [('calibration_mode_data_location_flag',
                            ('str', 'side_of_observation_start_and_end')),
                           ('prf_switching', ('bool', True)),
                           ('start_line_number_of_prf_switching', ('int', 4711))])),
 'record5_truncated': ('raise',
                       'StreamError',
                       'Error in path (parsing) -> blanks2\n'
                       'stream read less than specified amount, expected 312, found 212'),
 'record5_garbage': ('raise',
                     'ValueError',
                     "could not convert string to float: 'xxxxxxxxxxxxxxxxxxxx'"),
 'transform_group': [('ok',
                      ('tuple',
                       [('dict',
                         [('a',
                           ('tuple',
                            [('str', 'dim'), ('list', [('int', 1), ('int', 2)]), ('dict', [])])),
                          ('b', ('tuple', [('tuple', []), ('int', 3), ('dict', [])]))]),
                        ('dict', [('formula', ('str', 'f'))])])),
                     ('ok', ('tuple', [('dict', []), ('dict', [])])),
                     ('raise', 'TypeError', 'cannot unpack non-iterable int object'),
                     ('raise', 'ValueError', 'not enough values to unpack (expected 2, got 1)')],
 'record5_errors': [('ok', ('Group', '/', None, ('dict', []), ('dict', []))),
                    ('raise', 'AttributeError', "'NoneType' object has no attribute 'items'"),
                    ('raise', 'TypeError', 'cannot unpack non-iterable int object'),
                    ('raise', 'AttributeError', "'int' object has no attribute 'keys'"),
                    ('raise', 'AttributeError', "'str' object has no attribute 'keys'"),
                    ('ok',
                     ('Group',
                      '/',
                      None,
                      ('dict', []),
                      ('dict', [('prf_switching', ('int', 1))])))]}


if __name__ == "__main__":
    actual = compute()
    if "--dump" in sys.argv:
        pprint.pprint(actual, width=100, sort_dicts=False)
        sys.exit(0)

    for key, expected in EXPECTED.items():
        assert actual[key] == expected, f"{key}:\n{actual[key]!r}\n!=\n{expected!r}"
    assert list(actual) == list(EXPECTED)
    print(f"equiv 2: OK ({len(EXPECTED)} result sets identical to the values from unchanged code)")
