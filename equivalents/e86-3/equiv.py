"""Equivalence check for refactoring 3 (ceos_alos2/sar_image/processed_data.py).

Parses synthetic processed data records (level 1.5 style, record type 11) directly, through
``parse_chunk`` and through ``read_metadata`` / ``transform_metadata`` (with a recording fake
file) and compares names, order, types, values, the sharing of the attrs dicts, the I/O requests
and the exception types and messages against what the unchanged code produced.  Run as

    cd /tmp/wt10/e86 && PYTHONPATH=/tmp/wt10/e86 /venv/bin/python _eq/3/equiv.py

(``--record`` prints the table of expected results instead of checking it).
"""

import hashlib
import io
import pprint
import struct
import sys

import numpy as np
from construct import Container, EnumIntegerString, ListContainer

from ceos_alos2.hierarchy import Group, Variable
from ceos_alos2.sar_image import processed_data as module
from ceos_alos2.sar_image.io import adjust_offsets, parse_chunk, read_metadata
from ceos_alos2.sar_image.metadata import transform_metadata
from ceos_alos2.sar_image.processed_data import processed_data_record

# the layout of the prefix according to the unchanged source: (name, struct format)
LAYOUT = [
    ("sar_image_data_line_number", "I"),
    ("sar_image_data_record_index", "I"),
    ("actual_count_of_left_fill_pixels", "I"),
    ("actual_count_of_data_pixels", "I"),
    ("actual_count_of_right_fill_pixels", "I"),
    ("sensor_parameters_update_flag", "I"),
    ("year", "I"),
    ("day_of_year", "I"),
    ("milliseconds", "I"),
    ("sar_channel_id", "H"),
    ("sar_channel_code", "H"),
    ("transmitted_pulse_polarization", "H"),
    ("received_pulse_polarization", "H"),
    ("prf", "I"),
    ("scan_id", "I"),
    ("slant_range_to_first_pixel", "I"),
    ("slant_range_to_mid_pixel", "I"),
    ("slant_range_to_last_pixel", "I"),
    ("doppler_centroid_value_at_first_pixel", "I"),
    ("doppler_centroid_value_at_mid_pixel", "I"),
    ("doppler_centroid_value_at_last_pixel", "I"),
    ("azimuth_fm_rate_of_first_pixel", "I"),
    ("azimuth_fm_rate_of_mid_pixel", "I"),
    ("azimuth_fm_rate_of_last_pixel", "I"),
    ("look_angle_of_nadir", "I"),
    ("azimuth_squint_angle", "I"),
    ("blanks1", "20s"),
    ("geographic_reference_parameter_update_flag", "I"),
    ("latitude_of_first_pixel", "I"),
    ("latitude_of_center_pixel", "I"),
    ("latitude_of_last_pixel", "I"),
    ("longitude_of_first_pixel", "I"),
    ("longitude_of_center_pixel", "I"),
    ("longitude_of_last_pixel", "I"),
    ("northing_of_first_pixel", "I"),
    ("blanks2", "4s"),
    ("northing_of_last_pixel", "I"),
    ("easting_of_first_pixel", "I"),
    ("blanks3", "4s"),
    ("easting_of_last_pixel", "I"),
    ("line_heading", "I"),
    ("blanks4", "8s"),
]
FORMAT = ">" + "".join(fmt for _, fmt in LAYOUT)
PREFIX_SIZE = 12 + struct.calcsize(FORMAT)
assert PREFIX_SIZE == 192

ENUMS = {
    "sar_channel_id": (1, 2, 4),
    "sar_channel_code": (0, 1, 2, 3, 4, 5),
    "transmitted_pulse_polarization": (0, 1),
    "received_pulse_polarization": (0, 1),
}


class Stream:
    """deterministic pseudo-random numbers that do not depend on the ``random`` module"""

    def __init__(self, seed):
        self.seed = seed
        self.counter = 0

    def below(self, n):
        digest = hashlib.sha256(f"{self.seed}:{self.counter}".encode()).digest()
        self.counter += 1
        return int.from_bytes(digest[:8], "big") % n

    def choice(self, options):
        return options[self.below(len(options))]

    def bytes(self, n):
        return bytes(self.below(256) for _ in range(n))


def make_values(stream, line_number, overrides=None):
    values = {}
    for name, fmt in LAYOUT:
        if fmt.endswith("s"):
            n = int(fmt[:-1])
            style = stream.below(4)
            if style == 0:
                value = b"\x00" * n
            elif style == 1:
                value = b" " * n
            elif style == 2:
                value = (b"\x00" + stream.bytes(n - 2) + b"\x00")[:n]
            else:
                value = stream.bytes(n)
        elif name in ENUMS:
            value = stream.choice(ENUMS[name]) if stream.below(8) else stream.below(2**16)
        elif name == "year":
            value = 2014 + stream.below(12)
        elif name == "day_of_year":
            value = 1 + stream.below(366)
        elif name == "milliseconds":
            value = stream.below(86400000)
        elif name == "sar_image_data_line_number":
            value = line_number
        else:
            style = stream.below(6)
            limit = 2 ** (8 * struct.calcsize(fmt))
            if style == 0:
                value = 0
            elif style == 1:
                value = limit - 1
            elif style == 2:
                value = stream.below(1000)
            else:
                value = stream.below(limit)
        values[name] = value
    values.update(overrides or {})
    return values


def make_record(seed, line_number=1, payload=16, overrides=None, record_length=None, rtype=11):
    stream = Stream(seed)
    values = make_values(stream, line_number, overrides)
    if record_length is None:
        record_length = PREFIX_SIZE + payload
    preamble = struct.pack(">IBBBBI", line_number + 1, 50, rtype, 18, 20, record_length)
    prefix = struct.pack(FORMAT, *(values[name] for name, _ in LAYOUT))
    return preamble + prefix + stream.bytes(payload)


def make_descriptor(n_records, record_length, n_columns=2, type_code=b"IU2 "):
    data = bytearray(b" " * 720)
    data[:12] = struct.pack(">IBBBBI", 1, 50, 192, 18, 18, 720)
    data[180:186] = b"%6d" % n_records
    data[186:192] = b"%6d" % record_length
    data[236:244] = b"%8d" % n_records
    data[248:256] = b"%8d" % n_columns
    data[268:272] = b"BSQ "
    data[428:432] = type_code
    data[440:448] = b"%8d" % 65535
    return bytes(data)


def make_file(n_records, payload=8, seed="file", **kwargs):
    record_length = PREFIX_SIZE + payload
    records = [
        make_record(f"{seed}-{index}", line_number=index + 1, payload=payload)
        for index in range(n_records)
    ]
    return make_descriptor(n_records, record_length, **kwargs) + b"".join(records)


def canon(value):
    if isinstance(value, EnumIntegerString):
        return f"EnumIntegerString:{str(value)!r}={int(value)}"
    if isinstance(value, Container):
        items = ", ".join(f"{k!r}: {canon(v)}" for k, v in value.items() if k != "_io")
        return f"Container({items})"
    if isinstance(value, Group):
        return (
            f"Group(path={value.path!r}, url={value.url!r}, data={canon(value.data)},"
            f" attrs={canon(value.attrs)})"
        )
    if isinstance(value, Variable):
        return f"Variable({canon(value.dims)}, {canon(value.data)}, {canon(value.attrs)})"
    if isinstance(value, np.ndarray):
        return f"ndarray[{value.dtype}]{value.shape}:{value.tolist()!r}"
    if isinstance(value, dict):
        items = ", ".join(f"{k!r}: {canon(v)}" for k, v in value.items())
        return f"{type(value).__name__}({items})"
    if isinstance(value, ListContainer):
        return "ListContainer[" + ", ".join(canon(v) for v in value) + "]"
    if isinstance(value, list):
        return "[" + ", ".join(canon(v) for v in value) + "]"
    if isinstance(value, tuple):
        return "(" + ", ".join(canon(v) for v in value) + ")"
    return f"{type(value).__module__}.{type(value).__qualname__}:{value!r}"


def summarize(text):
    if len(text) <= 600:
        return text
    return f"sha256:{hashlib.sha256(text.encode()).hexdigest()} length:{len(text)}"


def run(func):
    try:
        result = func()
    except BaseException as e:  # noqa: B902
        chain = []
        while e is not None:
            chain.append(f"{type(e).__module__}.{type(e).__qualname__}:{e}")
            e = e.__cause__ or (None if e.__suppress_context__ else e.__context__)
        return "EXC " + " <- ".join(chain)
    return summarize("OK " + canon(result))


def parse(data):
    return lambda: processed_data_record.parse(data)


def fields(data, *names):
    def func():
        parsed = processed_data_record.parse(data)
        return tuple(parsed[name] for name in names)

    return func


def chunk(data, element_size):
    return lambda: parse_chunk(data, element_size)


def structure():
    """field names, order, parser classes, sizes, scale factors and attrs"""

    def describe(con):
        details = type(con).__name__
        if hasattr(con, "factor"):
            details += f"[factor={con.factor!r}]"
        if hasattr(con, "attrs"):
            details += f"[attrs={con.attrs!r}]"
        if hasattr(con, "length"):
            details += f"[length={con.length!r}]"
        if hasattr(con, "fmtstr"):
            details += f"[{con.fmtstr}]"
        if hasattr(con, "encmapping"):
            details += f"[{dict(con.encmapping)!r}]"
        return details

    def walk(con, prefix):
        out = []
        for sub in con.subcons:
            path = f"{prefix}{sub.name}"
            chain = [sub]
            while hasattr(chain[-1], "subcon") and not hasattr(chain[-1], "subcons"):
                chain.append(chain[-1].subcon)
            classes = ">".join(describe(c) for c in chain)
            try:
                size = sub.sizeof()
            except Exception as e:
                size = type(e).__name__
            out.append(f"{path}:{classes}:{size}")
            if hasattr(chain[-1], "subcons"):
                out.extend(walk(chain[-1], path + "."))
        return out

    lines = walk(processed_data_record, "")
    return (len(lines), "\n".join(lines))


ORIGINAL_PUBLIC_NAMES = {
    "Bytes", "Computed", "Int32ub", "Seek", "Struct", "Tell", "this", "record_preamble",
    "DatetimeYdms", "Factor", "Metadata", "StripNullBytes", "pulse_polarization",
    "sar_channel_code", "sar_channel_id", "processed_data_record",
}  # fmt: skip


def public_names():
    return tuple(sorted(ORIGINAL_PUBLIC_NAMES - set(vars(module))))


def metadata_fields(parsed):
    return [
        name
        for name, value in parsed.items()
        if isinstance(value, tuple) and len(value) == 2 and isinstance(value[1], dict)
    ]


def attrs_sharing():
    """which fields hand out the very same attrs dict (within a record / between two parses)"""
    data = make_record("sharing")
    first = processed_data_record.parse(data)
    second = processed_data_record.parse(data)
    names = metadata_fields(first)

    groups = {}
    for name in names:
        groups.setdefault(id(first[name][1]), []).append(name)
    same_between_parses = all(first[name][1] is second[name][1] for name in names)
    shared = tuple(tuple(group) for group in groups.values() if len(group) > 1)
    return (len(names), len(groups), shared, same_between_parses)


def attrs_isolation():
    """modifying the attrs handed out for one field shows up for that field only"""
    data = make_record("isolation")
    out = []
    for victim in ("slant_range_to_mid_pixel", "latitude_of_last_pixel", "line_heading"):
        parsed = processed_data_record.parse(data)
        attrs = parsed[victim][1]
        before = dict(attrs)
        attrs["units"] = "parsec"
        attrs["extra"] = 1
        try:
            again = processed_data_record.parse(data)
            changed = tuple(
                name for name in metadata_fields(again) if again[name][1] != parsed[name][1]
                or "extra" in again[name][1]
            )
        finally:
            attrs.clear()
            attrs.update(before)
        restored = processed_data_record.parse(data)
        out.append((victim, changed, restored[victim][1]))
    return tuple(out)


def independent_results():
    data = make_record("independent")
    first = processed_data_record.parse(data)
    first["prf"] = None
    first["data"]["start"] = -1
    del first["scan_id"]
    second = processed_data_record.parse(data)
    return (second["prf"], second["data"], "scan_id" in second, first["data"] is second["data"])


class RecordingFile(io.BytesIO):
    def __init__(self, data):
        super().__init__(data)
        self.requests = []

    def read(self, size=-1):
        self.requests.append(("read", size, self.tell()))
        return super().read(size)

    def seek(self, *args):
        self.requests.append(("seek", *args))
        return super().seek(*args)


def through_io(data, records_per_chunk, transform=False):
    def func():
        f = RecordingFile(data)
        try:
            header, metadata = read_metadata(f, records_per_chunk)
        finally:
            requests = tuple(f.requests)
        if not transform:
            return (header, metadata, requests, f.tell())
        group, array_metadata = transform_metadata(header, metadata)
        return (group, array_metadata, requests, f.tell())

    return func


def io_failure(data, records_per_chunk):
    def func():
        f = RecordingFile(data)
        try:
            read_metadata(f, records_per_chunk)
        except Exception as e:
            return (type(e).__name__, str(e), tuple(f.requests), f.tell())
        raise AssertionError("expected a failure")

    return func


def offsets():
    data = b"".join(make_record(f"offsets-{i}", line_number=i, payload=4) for i in range(3))
    records = parse_chunk(data, PREFIX_SIZE + 4)
    adjusted = adjust_offsets(records, 720)
    return (adjusted, all(a is b for a, b in zip(records, adjusted)))


def boundaries():
    positions = {0, 1, 4, 11, 12}
    position = 12
    for _, fmt in LAYOUT:
        width = struct.calcsize(">" + fmt)
        positions.update({position + 1, position + width - 1, position + width})
        position += width
    return sorted(p for p in positions if p < PREFIX_SIZE)


typical = make_record("typical", line_number=7, payload=32)
three = b"".join(make_record(f"three-{i}", line_number=i + 1, payload=10) for i in range(3))
many = b"".join(make_record(f"many-{i}", line_number=i + 1, payload=0) for i in range(17))

cases = {
    "structure": structure,
    "missing-public-names": public_names,
    "typical": parse(typical),
    "typical-explicit": fields(
        typical,
        "record_start",
        "sensor_acquisition_date",
        "sar_channel_id",
        "prf",
        "slant_range_to_first_pixel",
        "doppler_centroid_value_at_mid_pixel",
        "azimuth_fm_rate_of_last_pixel",
        "look_angle_of_nadir",
        "longitude_of_center_pixel",
        "easting_of_last_pixel",
        "line_heading",
        "blanks4",
        "data",
    ),
    "attrs-sharing": attrs_sharing,
    "attrs-isolation": attrs_isolation,
    "independent-results": independent_results,
    "offsets": offsets,
    "all-zero": parse(struct.pack(">IBBBBI", 1, 50, 11, 18, 20, 192) + b"\x00" * 180),
    "all-ones": parse(struct.pack(">IBBBBI", 1, 50, 11, 18, 20, 192) + b"\xff" * 180),
    "valid-date-all-ones": parse(
        make_record(
            "ones",
            overrides={
                name: 2 ** (8 * struct.calcsize(fmt)) - 1
                for name, fmt in LAYOUT
                if not fmt.endswith("s") and name not in ("year", "day_of_year", "milliseconds")
            },
        )
    ),
    "scale-exactness": fields(
        make_record(
            "scale",
            overrides={
                "doppler_centroid_value_at_first_pixel": 1,
                "doppler_centroid_value_at_mid_pixel": 3,
                "doppler_centroid_value_at_last_pixel": 123456789,
                "look_angle_of_nadir": 1,
                "azimuth_squint_angle": 3,
                "latitude_of_first_pixel": 35123457,
                "latitude_of_center_pixel": 4294967295,
                "latitude_of_last_pixel": 7,
                "longitude_of_first_pixel": 139999999,
                "line_heading": 359999999,
            },
        ),
        "doppler_centroid_value_at_first_pixel",
        "doppler_centroid_value_at_mid_pixel",
        "doppler_centroid_value_at_last_pixel",
        "look_angle_of_nadir",
        "azimuth_squint_angle",
        "latitude_of_first_pixel",
        "latitude_of_center_pixel",
        "latitude_of_last_pixel",
        "longitude_of_first_pixel",
        "line_heading",
    ),
    "bad-year": parse(make_record("bad-year", overrides={"year": 0})),
    "bad-day": parse(make_record("bad-day", overrides={"year": 9999, "day_of_year": 400})),
    "record-length-0": parse(make_record("length-0", record_length=0)),
    "record-length-short": parse(make_record("length-short", record_length=100)),
    "record-length-long": parse(make_record("length-long", record_length=10**6)),
    "record-length-max": parse(make_record("length-max", record_length=2**32 - 1)),
    "no-payload": parse(make_record("no-payload", payload=0)),
    "trailing": parse(typical + b"trailing bytes"),
    "wrong-record-type": parse(make_record("wrong-type", rtype=10)),
    "build": lambda: processed_data_record.build({}),
    "chunk-1": chunk(typical, len(typical)),
    "chunk-3": chunk(three, PREFIX_SIZE + 10),
    "chunk-17": chunk(many, PREFIX_SIZE),
    "chunk-3-as-1": chunk(three, len(three)),
    "chunk-size-mismatch": chunk(three, PREFIX_SIZE + 11),
    "chunk-lying-length": chunk(
        make_record("lying-1", payload=8, record_length=PREFIX_SIZE + 4)
        + make_record("lying-2", payload=8),
        PREFIX_SIZE + 8,
    ),
    "chunk-short-length": chunk(
        make_record("short-1", payload=8, record_length=50) + make_record("short-2", payload=8),
        PREFIX_SIZE + 8,
    ),
    "chunk-unknown-type": chunk(make_record("unknown", rtype=12), PREFIX_SIZE + 16),
    "chunk-empty": chunk(b"", PREFIX_SIZE),
    "file-5-by-1024": through_io(make_file(5), 1024),
    "file-5-by-2": through_io(make_file(5), 2),
    "file-5-by-1": through_io(make_file(5), 1),
    "file-5-by-5": through_io(make_file(5), 5),
    "file-0": through_io(make_file(0), 1024),
    "file-9-transformed": through_io(make_file(9, payload=4, seed="t"), 4, transform=True),
    "file-2-transformed-c8": through_io(
        make_file(2, payload=16, seed="c", type_code=b"C*8 "), 1024, transform=True
    ),
    "file-2-unknown-type-code": through_io(
        make_file(2, seed="u", type_code=b"XYZ "), 1024, transform=True
    ),
    "file-truncated": io_failure(make_file(5)[:-100], 2),
    "file-truncated-in-prefix": io_failure(make_file(3)[: 720 + PREFIX_SIZE + 8 + 50], 1),
    "file-bad-date": io_failure(
        make_descriptor(2, PREFIX_SIZE)
        + make_record("ok", payload=0)
        + make_record("bad", payload=0, overrides={"year": 0}),
        1,
    ),
    "file-no-chunksize": io_failure(make_file(2), None),
}
for index in range(10):
    cases[f"random-{index}"] = parse(make_record(f"random-{index}", line_number=index))
for offset in boundaries():
    cases[f"truncated-{offset}"] = parse(typical[:offset])

# recorded with the unchanged code (``--record``)
EXPECTED = {'structure': 'sha256:4dda7117d64fcc73113d62ee3c03be12a0c07d38f8e865102f0ac29490848af4 length:6124',
 'missing-public-names': 'OK ()',
 'typical': 'sha256:9db7b4d9577098b4837aecadf0dad430b594b4457bb1fb540bd106a3f286a3c5 length:3398',
 'typical-explicit': 'sha256:ef0ca6877f10f6035c269b1938789004399ae106eb28b0d6b606f700b911c738 '
                     'length:723',
 'attrs-sharing': 'OK (builtins.int:23, builtins.int:23, (), builtins.bool:True)',
 'attrs-isolation': "OK ((builtins.str:'slant_range_to_mid_pixel', "
                    "(builtins.str:'slant_range_to_mid_pixel'), dict('units': builtins.str:'m')), "
                    "(builtins.str:'latitude_of_last_pixel', "
                    "(builtins.str:'latitude_of_last_pixel'), dict('units': builtins.str:'deg')), "
                    "(builtins.str:'line_heading', (builtins.str:'line_heading'), dict('units': "
                    "builtins.str:'deg')))",
 'independent-results': "OK ((builtins.int:3852445011, dict('units': builtins.str:'mHz')), "
                        "Container('start': builtins.int:192, 'size': builtins.int:16, 'stop': "
                        'builtins.int:208), builtins.bool:True, builtins.bool:False)',
 'offsets': 'sha256:dd5e783fdfc17fa4115690c3ca96fd591bd4e7607aef97b40e6ae9d3aa085730 length:10200',
 'all-zero': 'EXC builtins.ValueError:year 0 is out of range',
 'all-ones': 'EXC builtins.OverflowError:signed integer is greater than maximum',
 'valid-date-all-ones': 'sha256:8c9294970fc72a5e12593737bdd0a4834bc1edb0616e7b068268876efa36dbdb '
                        'length:3558',
 'scale-exactness': 'sha256:ac4a39203e45056df78fc5074e29e7e0c2d92c4533c866724630541f932ceeb6 '
                    'length:622',
 'bad-year': 'EXC builtins.ValueError:year 0 is out of range',
 'bad-day': 'EXC builtins.OverflowError:date value out of range',
 'record-length-0': 'sha256:55cfbc7e9060f1c206d09de3de4acb0c993e45302c63d222cc5da72adb6417c4 '
                    'length:3380',
 'record-length-short': 'sha256:14dadb6284052dfd16da7d95eb7500b1e02b13ff50efd45fca2cb0fca734fa13 '
                        'length:3463',
 'record-length-long': 'sha256:f7e855f8c4a53d83778f53e14cab1c4870d37edc8c438feb419d81fd289464f7 '
                       'length:3455',
 'record-length-max': 'sha256:20117ae4b9c81740c00cb5809948c883462f0f5d5c7a9c48f23e5d3b0938bbc6 '
                      'length:3454',
 'no-payload': 'sha256:55d81793c3a10186a97f12daede43af5ecca69edbbd0a0582e73c71ae9a294aa '
               'length:3419',
 'trailing': 'sha256:9db7b4d9577098b4837aecadf0dad430b594b4457bb1fb540bd106a3f286a3c5 length:3398',
 'wrong-record-type': 'sha256:dff63dfeb66f7b88fd58ede3e6a965365feee14c065897b2b8550a9469535080 '
                      'length:3470',
 'build': "EXC builtins.KeyError:'preamble'",
 'chunk-1': 'sha256:9dd6a44b9b54cec5181d73845e8c1ef807e2c38d29e6f8157642fd829caa9bf4 length:3400',
 'chunk-3': 'sha256:b97c80ba86fef5e0658215eecee1749abb2a7f43f3bd118211263ffb3269d8df length:10216',
 'chunk-17': 'sha256:f307df4db2dd48bbb9f752d4bcda28f263e568699d64ffb66068efd7bd760119 length:57755',
 'chunk-3-as-1': 'sha256:06ccd44ade611b13dd87c320949acd6fa500802182aafd0780bc6122eeae3653 '
                 'length:3415',
 'chunk-size-mismatch': 'EXC builtins.ValueError:sizes mismatch: chunksize is 406 but got 606 '
                        'bytes',
 'chunk-lying-length': 'EXC builtins.OverflowError:signed integer is greater than maximum',
 'chunk-short-length': 'EXC builtins.ValueError:year 698417151 is out of range',
 'chunk-unknown-type': 'EXC builtins.ValueError:unknown record type code: 12',
 'chunk-empty': 'EXC construct.core.StreamError:Error in path (parsing) -> record_sequence_number\n'
                'stream read less than specified amount, expected 4, found 0',
 'file-5-by-1024': 'sha256:d03cbabf40bf5b33856c5ba4f4aae80457339b5097deca820e5f2c22c78be54c '
                   'length:20495',
 'file-5-by-2': 'sha256:104d1dc4103a72dbd8d42221091137a5fc9e97ccfd52025c11077b909b6b353e '
                'length:20614',
 'file-5-by-1': 'sha256:5801f10909185edf3fd25f91089f984dabc42d9d27c48a7855906f6066cdbf8e '
                'length:20733',
 'file-5-by-5': 'sha256:d03cbabf40bf5b33856c5ba4f4aae80457339b5097deca820e5f2c22c78be54c '
                'length:20495',
 'file-0': 'sha256:47b884799f1c282784486f7b7d432d35c374ebdab1ba9169a6a860d1a5ddea2a length:3524',
 'file-9-transformed': 'sha256:b9c752e8e5d5883a2c61665e032543a0769d3ff5db37d5188e3c19bf16e4316c '
                       'length:10302',
 'file-2-transformed-c8': 'sha256:80a847439f6045f5373790bb26dbf9a62cedeb5e57c4056b67a92d3d874ad337 '
                          'length:5524',
 'file-2-unknown-type-code': 'EXC builtins.ValueError:unknown type code: XYZ',
 'file-truncated': "OK (builtins.str:'ValueError', builtins.str:'sizes mismatch: chunksize is 0 "
                   "but got 100 bytes', ((builtins.str:'read', builtins.int:720, builtins.int:0), "
                   "(builtins.str:'read', builtins.int:400, builtins.int:720), "
                   "(builtins.str:'read', builtins.int:400, builtins.int:1120), "
                   "(builtins.str:'read', builtins.int:200, builtins.int:1520)), "
                   'builtins.int:1620)',
 'file-truncated-in-prefix': "OK (builtins.str:'ValueError', builtins.str:'sizes mismatch: "
                             "chunksize is 0 but got 50 bytes', ((builtins.str:'read', "
                             "builtins.int:720, builtins.int:0), (builtins.str:'read', "
                             "builtins.int:200, builtins.int:720), (builtins.str:'read', "
                             'builtins.int:200, builtins.int:920)), builtins.int:970)',
 'file-bad-date': "OK (builtins.str:'ValueError', builtins.str:'year 0 is out of range', "
                  "((builtins.str:'read', builtins.int:720, builtins.int:0), (builtins.str:'read', "
                  "builtins.int:192, builtins.int:720), (builtins.str:'read', builtins.int:192, "
                  'builtins.int:912)), builtins.int:1104)',
 'file-no-chunksize': 'OK (builtins.str:\'TypeError\', builtins.str:"unsupported operand type(s) '
                      'for /: \'int\' and \'NoneType\'", ((builtins.str:\'read\', '
                      'builtins.int:720, builtins.int:0)), builtins.int:720)',
 'random-0': 'sha256:655d3d56b7a821a829655c032ac6f9e5aa8732a2c2807af89d2668015446eb5c length:3351',
 'random-1': 'sha256:b9a4b8e5be669284a579708710b58e8d607e13c204b801122ea9118856e3a4c0 length:3386',
 'random-2': 'sha256:7c47c61bfc39c150b3f5d4565c1d4deda3ea5dc3a33127ae122cc63012205128 length:3379',
 'random-3': 'sha256:820daf45996f3cafb20cd51ff29bc3c4e813718617ce036936644ad47b8df546 length:3414',
 'random-4': 'sha256:8c5071fada493c58a088cc40bfb821255713a066a346d3a704655e5ec334ac9f length:3421',
 'random-5': 'sha256:c7e8fa09413915ae36eab950cfcfa2bc44e96a4c64f84691b9dfa6e3a99727c5 length:3451',
 'random-6': 'sha256:4a191c695c79405c93a3911f1fa158121b03c35b9574ab0b95f57ce0628b5d58 length:3393',
 'random-7': 'sha256:35f167fd066c62bf6673af6e906b876b1ff1888640faf05dec1e348ecfb7a438 length:3370',
 'random-8': 'sha256:92da86f4aaf082d067422f5b837d499016f6c863122b159fabe5d9db5261c506 length:3445',
 'random-9': 'sha256:65132020780581b25570f4ee4bc1021af8d883dc446defd8c817215b765104d1 length:3388',
 'truncated-0': 'EXC construct.core.StreamError:Error in path (parsing) -> preamble -> '
                'record_sequence_number\n'
                'stream read less than specified amount, expected 4, found 0',
 'truncated-1': 'EXC construct.core.StreamError:Error in path (parsing) -> preamble -> '
                'record_sequence_number\n'
                'stream read less than specified amount, expected 4, found 1',
 'truncated-4': 'EXC construct.core.StreamError:Error in path (parsing) -> preamble -> '
                'first_record_subtype\n'
                'stream read less than specified amount, expected 1, found 0',
 'truncated-11': 'EXC construct.core.StreamError:Error in path (parsing) -> preamble -> '
                 'record_length\n'
                 'stream read less than specified amount, expected 4, found 3',
 'truncated-12': 'EXC construct.core.StreamError:Error in path (parsing) -> '
                 'sar_image_data_line_number\n'
                 'stream read less than specified amount, expected 4, found 0',
 'truncated-13': 'EXC construct.core.StreamError:Error in path (parsing) -> '
                 'sar_image_data_line_number\n'
                 'stream read less than specified amount, expected 4, found 1',
 'truncated-15': 'EXC construct.core.StreamError:Error in path (parsing) -> '
                 'sar_image_data_line_number\n'
                 'stream read less than specified amount, expected 4, found 3',
 'truncated-16': 'EXC construct.core.StreamError:Error in path (parsing) -> '
                 'sar_image_data_record_index\n'
                 'stream read less than specified amount, expected 4, found 0',
 'truncated-17': 'EXC construct.core.StreamError:Error in path (parsing) -> '
                 'sar_image_data_record_index\n'
                 'stream read less than specified amount, expected 4, found 1',
 'truncated-19': 'EXC construct.core.StreamError:Error in path (parsing) -> '
                 'sar_image_data_record_index\n'
                 'stream read less than specified amount, expected 4, found 3',
 'truncated-20': 'EXC construct.core.StreamError:Error in path (parsing) -> '
                 'actual_count_of_left_fill_pixels\n'
                 'stream read less than specified amount, expected 4, found 0',
 'truncated-21': 'EXC construct.core.StreamError:Error in path (parsing) -> '
                 'actual_count_of_left_fill_pixels\n'
                 'stream read less than specified amount, expected 4, found 1',
 'truncated-23': 'EXC construct.core.StreamError:Error in path (parsing) -> '
                 'actual_count_of_left_fill_pixels\n'
                 'stream read less than specified amount, expected 4, found 3',
 'truncated-24': 'EXC construct.core.StreamError:Error in path (parsing) -> '
                 'actual_count_of_data_pixels\n'
                 'stream read less than specified amount, expected 4, found 0',
 'truncated-25': 'EXC construct.core.StreamError:Error in path (parsing) -> '
                 'actual_count_of_data_pixels\n'
                 'stream read less than specified amount, expected 4, found 1',
 'truncated-27': 'EXC construct.core.StreamError:Error in path (parsing) -> '
                 'actual_count_of_data_pixels\n'
                 'stream read less than specified amount, expected 4, found 3',
 'truncated-28': 'EXC construct.core.StreamError:Error in path (parsing) -> '
                 'actual_count_of_right_fill_pixels\n'
                 'stream read less than specified amount, expected 4, found 0',
 'truncated-29': 'EXC construct.core.StreamError:Error in path (parsing) -> '
                 'actual_count_of_right_fill_pixels\n'
                 'stream read less than specified amount, expected 4, found 1',
 'truncated-31': 'EXC construct.core.StreamError:Error in path (parsing) -> '
                 'actual_count_of_right_fill_pixels\n'
                 'stream read less than specified amount, expected 4, found 3',
 'truncated-32': 'EXC construct.core.StreamError:Error in path (parsing) -> '
                 'sensor_parameters_update_flag\n'
                 'stream read less than specified amount, expected 4, found 0',
 'truncated-33': 'EXC construct.core.StreamError:Error in path (parsing) -> '
                 'sensor_parameters_update_flag\n'
                 'stream read less than specified amount, expected 4, found 1',
 'truncated-35': 'EXC construct.core.StreamError:Error in path (parsing) -> '
                 'sensor_parameters_update_flag\n'
                 'stream read less than specified amount, expected 4, found 3',
 'truncated-36': 'EXC construct.core.StreamError:Error in path (parsing) -> '
                 'sensor_acquisition_date -> year\n'
                 'stream read less than specified amount, expected 4, found 0',
 'truncated-37': 'EXC construct.core.StreamError:Error in path (parsing) -> '
                 'sensor_acquisition_date -> year\n'
                 'stream read less than specified amount, expected 4, found 1',
 'truncated-39': 'EXC construct.core.StreamError:Error in path (parsing) -> '
                 'sensor_acquisition_date -> year\n'
                 'stream read less than specified amount, expected 4, found 3',
 'truncated-40': 'EXC construct.core.StreamError:Error in path (parsing) -> '
                 'sensor_acquisition_date -> day_of_year\n'
                 'stream read less than specified amount, expected 4, found 0',
 'truncated-41': 'EXC construct.core.StreamError:Error in path (parsing) -> '
                 'sensor_acquisition_date -> day_of_year\n'
                 'stream read less than specified amount, expected 4, found 1',
 'truncated-43': 'EXC construct.core.StreamError:Error in path (parsing) -> '
                 'sensor_acquisition_date -> day_of_year\n'
                 'stream read less than specified amount, expected 4, found 3',
 'truncated-44': 'EXC construct.core.StreamError:Error in path (parsing) -> '
                 'sensor_acquisition_date -> milliseconds\n'
                 'stream read less than specified amount, expected 4, found 0',
 'truncated-45': 'EXC construct.core.StreamError:Error in path (parsing) -> '
                 'sensor_acquisition_date -> milliseconds\n'
                 'stream read less than specified amount, expected 4, found 1',
 'truncated-47': 'EXC construct.core.StreamError:Error in path (parsing) -> '
                 'sensor_acquisition_date -> milliseconds\n'
                 'stream read less than specified amount, expected 4, found 3',
 'truncated-48': 'EXC construct.core.StreamError:Error in path (parsing) -> sar_channel_id\n'
                 'stream read less than specified amount, expected 2, found 0',
 'truncated-49': 'EXC construct.core.StreamError:Error in path (parsing) -> sar_channel_id\n'
                 'stream read less than specified amount, expected 2, found 1',
 'truncated-50': 'EXC construct.core.StreamError:Error in path (parsing) -> sar_channel_code\n'
                 'stream read less than specified amount, expected 2, found 0',
 'truncated-51': 'EXC construct.core.StreamError:Error in path (parsing) -> sar_channel_code\n'
                 'stream read less than specified amount, expected 2, found 1',
 'truncated-52': 'EXC construct.core.StreamError:Error in path (parsing) -> '
                 'transmitted_pulse_polarization\n'
                 'stream read less than specified amount, expected 2, found 0',
 'truncated-53': 'EXC construct.core.StreamError:Error in path (parsing) -> '
                 'transmitted_pulse_polarization\n'
                 'stream read less than specified amount, expected 2, found 1',
 'truncated-54': 'EXC construct.core.StreamError:Error in path (parsing) -> '
                 'received_pulse_polarization\n'
                 'stream read less than specified amount, expected 2, found 0',
 'truncated-55': 'EXC construct.core.StreamError:Error in path (parsing) -> '
                 'received_pulse_polarization\n'
                 'stream read less than specified amount, expected 2, found 1',
 'truncated-56': 'EXC construct.core.StreamError:Error in path (parsing) -> prf\n'
                 'stream read less than specified amount, expected 4, found 0',
 'truncated-57': 'EXC construct.core.StreamError:Error in path (parsing) -> prf\n'
                 'stream read less than specified amount, expected 4, found 1',
 'truncated-59': 'EXC construct.core.StreamError:Error in path (parsing) -> prf\n'
                 'stream read less than specified amount, expected 4, found 3',
 'truncated-60': 'EXC construct.core.StreamError:Error in path (parsing) -> scan_id\n'
                 'stream read less than specified amount, expected 4, found 0',
 'truncated-61': 'EXC construct.core.StreamError:Error in path (parsing) -> scan_id\n'
                 'stream read less than specified amount, expected 4, found 1',
 'truncated-63': 'EXC construct.core.StreamError:Error in path (parsing) -> scan_id\n'
                 'stream read less than specified amount, expected 4, found 3',
 'truncated-64': 'EXC construct.core.StreamError:Error in path (parsing) -> '
                 'slant_range_to_first_pixel\n'
                 'stream read less than specified amount, expected 4, found 0',
 'truncated-65': 'EXC construct.core.StreamError:Error in path (parsing) -> '
                 'slant_range_to_first_pixel\n'
                 'stream read less than specified amount, expected 4, found 1',
 'truncated-67': 'EXC construct.core.StreamError:Error in path (parsing) -> '
                 'slant_range_to_first_pixel\n'
                 'stream read less than specified amount, expected 4, found 3',
 'truncated-68': 'EXC construct.core.StreamError:Error in path (parsing) -> '
                 'slant_range_to_mid_pixel\n'
                 'stream read less than specified amount, expected 4, found 0',
 'truncated-69': 'EXC construct.core.StreamError:Error in path (parsing) -> '
                 'slant_range_to_mid_pixel\n'
                 'stream read less than specified amount, expected 4, found 1',
 'truncated-71': 'EXC construct.core.StreamError:Error in path (parsing) -> '
                 'slant_range_to_mid_pixel\n'
                 'stream read less than specified amount, expected 4, found 3',
 'truncated-72': 'EXC construct.core.StreamError:Error in path (parsing) -> '
                 'slant_range_to_last_pixel\n'
                 'stream read less than specified amount, expected 4, found 0',
 'truncated-73': 'EXC construct.core.StreamError:Error in path (parsing) -> '
                 'slant_range_to_last_pixel\n'
                 'stream read less than specified amount, expected 4, found 1',
 'truncated-75': 'EXC construct.core.StreamError:Error in path (parsing) -> '
                 'slant_range_to_last_pixel\n'
                 'stream read less than specified amount, expected 4, found 3',
 'truncated-76': 'EXC construct.core.StreamError:Error in path (parsing) -> '
                 'doppler_centroid_value_at_first_pixel\n'
                 'stream read less than specified amount, expected 4, found 0',
 'truncated-77': 'EXC construct.core.StreamError:Error in path (parsing) -> '
                 'doppler_centroid_value_at_first_pixel\n'
                 'stream read less than specified amount, expected 4, found 1',
 'truncated-79': 'EXC construct.core.StreamError:Error in path (parsing) -> '
                 'doppler_centroid_value_at_first_pixel\n'
                 'stream read less than specified amount, expected 4, found 3',
 'truncated-80': 'EXC construct.core.StreamError:Error in path (parsing) -> '
                 'doppler_centroid_value_at_mid_pixel\n'
                 'stream read less than specified amount, expected 4, found 0',
 'truncated-81': 'EXC construct.core.StreamError:Error in path (parsing) -> '
                 'doppler_centroid_value_at_mid_pixel\n'
                 'stream read less than specified amount, expected 4, found 1',
 'truncated-83': 'EXC construct.core.StreamError:Error in path (parsing) -> '
                 'doppler_centroid_value_at_mid_pixel\n'
                 'stream read less than specified amount, expected 4, found 3',
 'truncated-84': 'EXC construct.core.StreamError:Error in path (parsing) -> '
                 'doppler_centroid_value_at_last_pixel\n'
                 'stream read less than specified amount, expected 4, found 0',
 'truncated-85': 'EXC construct.core.StreamError:Error in path (parsing) -> '
                 'doppler_centroid_value_at_last_pixel\n'
                 'stream read less than specified amount, expected 4, found 1',
 'truncated-87': 'EXC construct.core.StreamError:Error in path (parsing) -> '
                 'doppler_centroid_value_at_last_pixel\n'
                 'stream read less than specified amount, expected 4, found 3',
 'truncated-88': 'EXC construct.core.StreamError:Error in path (parsing) -> '
                 'azimuth_fm_rate_of_first_pixel\n'
                 'stream read less than specified amount, expected 4, found 0',
 'truncated-89': 'EXC construct.core.StreamError:Error in path (parsing) -> '
                 'azimuth_fm_rate_of_first_pixel\n'
                 'stream read less than specified amount, expected 4, found 1',
 'truncated-91': 'EXC construct.core.StreamError:Error in path (parsing) -> '
                 'azimuth_fm_rate_of_first_pixel\n'
                 'stream read less than specified amount, expected 4, found 3',
 'truncated-92': 'EXC construct.core.StreamError:Error in path (parsing) -> '
                 'azimuth_fm_rate_of_mid_pixel\n'
                 'stream read less than specified amount, expected 4, found 0',
 'truncated-93': 'EXC construct.core.StreamError:Error in path (parsing) -> '
                 'azimuth_fm_rate_of_mid_pixel\n'
                 'stream read less than specified amount, expected 4, found 1',
 'truncated-95': 'EXC construct.core.StreamError:Error in path (parsing) -> '
                 'azimuth_fm_rate_of_mid_pixel\n'
                 'stream read less than specified amount, expected 4, found 3',
 'truncated-96': 'EXC construct.core.StreamError:Error in path (parsing) -> '
                 'azimuth_fm_rate_of_last_pixel\n'
                 'stream read less than specified amount, expected 4, found 0',
 'truncated-97': 'EXC construct.core.StreamError:Error in path (parsing) -> '
                 'azimuth_fm_rate_of_last_pixel\n'
                 'stream read less than specified amount, expected 4, found 1',
 'truncated-99': 'EXC construct.core.StreamError:Error in path (parsing) -> '
                 'azimuth_fm_rate_of_last_pixel\n'
                 'stream read less than specified amount, expected 4, found 3',
 'truncated-100': 'EXC construct.core.StreamError:Error in path (parsing) -> look_angle_of_nadir\n'
                  'stream read less than specified amount, expected 4, found 0',
 'truncated-101': 'EXC construct.core.StreamError:Error in path (parsing) -> look_angle_of_nadir\n'
                  'stream read less than specified amount, expected 4, found 1',
 'truncated-103': 'EXC construct.core.StreamError:Error in path (parsing) -> look_angle_of_nadir\n'
                  'stream read less than specified amount, expected 4, found 3',
 'truncated-104': 'EXC construct.core.StreamError:Error in path (parsing) -> azimuth_squint_angle\n'
                  'stream read less than specified amount, expected 4, found 0',
 'truncated-105': 'EXC construct.core.StreamError:Error in path (parsing) -> azimuth_squint_angle\n'
                  'stream read less than specified amount, expected 4, found 1',
 'truncated-107': 'EXC construct.core.StreamError:Error in path (parsing) -> azimuth_squint_angle\n'
                  'stream read less than specified amount, expected 4, found 3',
 'truncated-108': 'EXC construct.core.StreamError:Error in path (parsing) -> blanks1\n'
                  'stream read less than specified amount, expected 20, found 0',
 'truncated-109': 'EXC construct.core.StreamError:Error in path (parsing) -> blanks1\n'
                  'stream read less than specified amount, expected 20, found 1',
 'truncated-127': 'EXC construct.core.StreamError:Error in path (parsing) -> blanks1\n'
                  'stream read less than specified amount, expected 20, found 19',
 'truncated-128': 'EXC construct.core.StreamError:Error in path (parsing) -> '
                  'geographic_reference_parameter_update_flag\n'
                  'stream read less than specified amount, expected 4, found 0',
 'truncated-129': 'EXC construct.core.StreamError:Error in path (parsing) -> '
                  'geographic_reference_parameter_update_flag\n'
                  'stream read less than specified amount, expected 4, found 1',
 'truncated-131': 'EXC construct.core.StreamError:Error in path (parsing) -> '
                  'geographic_reference_parameter_update_flag\n'
                  'stream read less than specified amount, expected 4, found 3',
 'truncated-132': 'EXC construct.core.StreamError:Error in path (parsing) -> '
                  'latitude_of_first_pixel\n'
                  'stream read less than specified amount, expected 4, found 0',
 'truncated-133': 'EXC construct.core.StreamError:Error in path (parsing) -> '
                  'latitude_of_first_pixel\n'
                  'stream read less than specified amount, expected 4, found 1',
 'truncated-135': 'EXC construct.core.StreamError:Error in path (parsing) -> '
                  'latitude_of_first_pixel\n'
                  'stream read less than specified amount, expected 4, found 3',
 'truncated-136': 'EXC construct.core.StreamError:Error in path (parsing) -> '
                  'latitude_of_center_pixel\n'
                  'stream read less than specified amount, expected 4, found 0',
 'truncated-137': 'EXC construct.core.StreamError:Error in path (parsing) -> '
                  'latitude_of_center_pixel\n'
                  'stream read less than specified amount, expected 4, found 1',
 'truncated-139': 'EXC construct.core.StreamError:Error in path (parsing) -> '
                  'latitude_of_center_pixel\n'
                  'stream read less than specified amount, expected 4, found 3',
 'truncated-140': 'EXC construct.core.StreamError:Error in path (parsing) -> '
                  'latitude_of_last_pixel\n'
                  'stream read less than specified amount, expected 4, found 0',
 'truncated-141': 'EXC construct.core.StreamError:Error in path (parsing) -> '
                  'latitude_of_last_pixel\n'
                  'stream read less than specified amount, expected 4, found 1',
 'truncated-143': 'EXC construct.core.StreamError:Error in path (parsing) -> '
                  'latitude_of_last_pixel\n'
                  'stream read less than specified amount, expected 4, found 3',
 'truncated-144': 'EXC construct.core.StreamError:Error in path (parsing) -> '
                  'longitude_of_first_pixel\n'
                  'stream read less than specified amount, expected 4, found 0',
 'truncated-145': 'EXC construct.core.StreamError:Error in path (parsing) -> '
                  'longitude_of_first_pixel\n'
                  'stream read less than specified amount, expected 4, found 1',
 'truncated-147': 'EXC construct.core.StreamError:Error in path (parsing) -> '
                  'longitude_of_first_pixel\n'
                  'stream read less than specified amount, expected 4, found 3',
 'truncated-148': 'EXC construct.core.StreamError:Error in path (parsing) -> '
                  'longitude_of_center_pixel\n'
                  'stream read less than specified amount, expected 4, found 0',
 'truncated-149': 'EXC construct.core.StreamError:Error in path (parsing) -> '
                  'longitude_of_center_pixel\n'
                  'stream read less than specified amount, expected 4, found 1',
 'truncated-151': 'EXC construct.core.StreamError:Error in path (parsing) -> '
                  'longitude_of_center_pixel\n'
                  'stream read less than specified amount, expected 4, found 3',
 'truncated-152': 'EXC construct.core.StreamError:Error in path (parsing) -> '
                  'longitude_of_last_pixel\n'
                  'stream read less than specified amount, expected 4, found 0',
 'truncated-153': 'EXC construct.core.StreamError:Error in path (parsing) -> '
                  'longitude_of_last_pixel\n'
                  'stream read less than specified amount, expected 4, found 1',
 'truncated-155': 'EXC construct.core.StreamError:Error in path (parsing) -> '
                  'longitude_of_last_pixel\n'
                  'stream read less than specified amount, expected 4, found 3',
 'truncated-156': 'EXC construct.core.StreamError:Error in path (parsing) -> '
                  'northing_of_first_pixel\n'
                  'stream read less than specified amount, expected 4, found 0',
 'truncated-157': 'EXC construct.core.StreamError:Error in path (parsing) -> '
                  'northing_of_first_pixel\n'
                  'stream read less than specified amount, expected 4, found 1',
 'truncated-159': 'EXC construct.core.StreamError:Error in path (parsing) -> '
                  'northing_of_first_pixel\n'
                  'stream read less than specified amount, expected 4, found 3',
 'truncated-160': 'EXC construct.core.StreamError:Error in path (parsing) -> blanks2\n'
                  'stream read less than specified amount, expected 4, found 0',
 'truncated-161': 'EXC construct.core.StreamError:Error in path (parsing) -> blanks2\n'
                  'stream read less than specified amount, expected 4, found 1',
 'truncated-163': 'EXC construct.core.StreamError:Error in path (parsing) -> blanks2\n'
                  'stream read less than specified amount, expected 4, found 3',
 'truncated-164': 'EXC construct.core.StreamError:Error in path (parsing) -> '
                  'northing_of_last_pixel\n'
                  'stream read less than specified amount, expected 4, found 0',
 'truncated-165': 'EXC construct.core.StreamError:Error in path (parsing) -> '
                  'northing_of_last_pixel\n'
                  'stream read less than specified amount, expected 4, found 1',
 'truncated-167': 'EXC construct.core.StreamError:Error in path (parsing) -> '
                  'northing_of_last_pixel\n'
                  'stream read less than specified amount, expected 4, found 3',
 'truncated-168': 'EXC construct.core.StreamError:Error in path (parsing) -> '
                  'easting_of_first_pixel\n'
                  'stream read less than specified amount, expected 4, found 0',
 'truncated-169': 'EXC construct.core.StreamError:Error in path (parsing) -> '
                  'easting_of_first_pixel\n'
                  'stream read less than specified amount, expected 4, found 1',
 'truncated-171': 'EXC construct.core.StreamError:Error in path (parsing) -> '
                  'easting_of_first_pixel\n'
                  'stream read less than specified amount, expected 4, found 3',
 'truncated-172': 'EXC construct.core.StreamError:Error in path (parsing) -> blanks3\n'
                  'stream read less than specified amount, expected 4, found 0',
 'truncated-173': 'EXC construct.core.StreamError:Error in path (parsing) -> blanks3\n'
                  'stream read less than specified amount, expected 4, found 1',
 'truncated-175': 'EXC construct.core.StreamError:Error in path (parsing) -> blanks3\n'
                  'stream read less than specified amount, expected 4, found 3',
 'truncated-176': 'EXC construct.core.StreamError:Error in path (parsing) -> '
                  'easting_of_last_pixel\n'
                  'stream read less than specified amount, expected 4, found 0',
 'truncated-177': 'EXC construct.core.StreamError:Error in path (parsing) -> '
                  'easting_of_last_pixel\n'
                  'stream read less than specified amount, expected 4, found 1',
 'truncated-179': 'EXC construct.core.StreamError:Error in path (parsing) -> '
                  'easting_of_last_pixel\n'
                  'stream read less than specified amount, expected 4, found 3',
 'truncated-180': 'EXC construct.core.StreamError:Error in path (parsing) -> line_heading\n'
                  'stream read less than specified amount, expected 4, found 0',
 'truncated-181': 'EXC construct.core.StreamError:Error in path (parsing) -> line_heading\n'
                  'stream read less than specified amount, expected 4, found 1',
 'truncated-183': 'EXC construct.core.StreamError:Error in path (parsing) -> line_heading\n'
                  'stream read less than specified amount, expected 4, found 3',
 'truncated-184': 'EXC construct.core.StreamError:Error in path (parsing) -> blanks4\n'
                  'stream read less than specified amount, expected 8, found 0',
 'truncated-185': 'EXC construct.core.StreamError:Error in path (parsing) -> blanks4\n'
                  'stream read less than specified amount, expected 8, found 1',
 'truncated-191': 'EXC construct.core.StreamError:Error in path (parsing) -> blanks4\n'
                  'stream read less than specified amount, expected 8, found 7'}


def main():
    actual = {name: run(func) for name, func in cases.items()}
    if "--record" in sys.argv:
        pprint.pprint(actual, width=100, sort_dicts=False)
        return 0

    assert list(actual) == list(EXPECTED), "case list differs from the recorded one"
    failures = [name for name in actual if actual[name] != EXPECTED[name]]
    for name in failures:
        print(f"MISMATCH {name}\n  expected: {EXPECTED[name]}\n  actual:   {actual[name]}")
    assert not failures, failures

    again = {name: run(func) for name, func in cases.items()}
    assert again == EXPECTED, [name for name in again if again[name] != EXPECTED[name]]

    n_errors = sum(1 for value in actual.values() if value.startswith("EXC"))
    print(f"ok: {len(actual)} cases ({n_errors} of them failures), twice")
    return 0


def test_equivalence():
    assert main() == 0


if __name__ == "__main__":
    sys.exit(main())
