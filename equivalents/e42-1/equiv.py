"""Equivalence check for refactoring 1: parse_data, normalize_chunksize and
determine_nearest_chunksize in ceos_alos2/array.py.

Run: PYTHONPATH=/tmp/wt6/e42 python _eq/1/equiv.py   (or with pytest)
The EXPECTED table was recorded from the unchanged code (git HEAD).
"""
import numpy as np

from ceos_alos2 import array


class Weird:
    """hashable, never equal to anything"""

    def __hash__(self):
        return 1

    def __eq__(self, other):
        return False

    def __repr__(self):
        return "Weird()"


def cases():
    out = []

    def add(name, func, *args, **kwargs):
        out.append((name, lambda: func(*args, **kwargs)))

    # parse_data
    c8 = np.array([1 + 2j, -3.5 + 0.25j, 0j, np.nan + 1j * np.inf], dtype=">c8").tobytes()
    u2 = np.array([0, 1, 255, 256, 65535], dtype=">u2").tobytes()
    add("pd-iu2", array.parse_data, u2, "IU2")
    add("pd-iu2-bytearray", array.parse_data, bytearray(u2), "IU2")
    add("pd-iu2-memoryview", array.parse_data, memoryview(u2), "IU2")
    add("pd-iu2-empty", array.parse_data, b"", "IU2")
    add("pd-iu2-odd", array.parse_data, b"\x00\x01\x02", "IU2")
    add("pd-c8", array.parse_data, c8, "C*8")
    add("pd-c8-empty", array.parse_data, b"", "C*8")
    add("pd-c8-short", array.parse_data, b"\x00" * 7, "C*8")
    add("pd-c8-kw", lambda: array.parse_data(content=c8[:8], type_code="C*8"))
    add("pd-unknown", array.parse_data, b"\x00", "F*8")
    add("pd-unknown-lower", array.parse_data, u2, "iu2")
    add("pd-none", array.parse_data, u2, None)
    add("pd-int", array.parse_data, u2, 2)
    add("pd-unhashable", array.parse_data, u2, ["IU2"])
    add("pd-weird", array.parse_data, u2, Weird())
    add("pd-content-str", array.parse_data, "abcd", "IU2")
    add("pd-content-none", array.parse_data, None, "C*8")
    add("pd-bad-content-unknown-code", array.parse_data, None, "zzz")

    # normalize_chunksize
    for chunksize in [None, -1, -1.0, 0, 1, 5, 9, 10, 11, 100, -2, 2.5, True, False,
                      np.int64(-1), np.int64(3), np.int64(30), float("nan"), float("inf"),
                      "auto", "5", [1], (None, -1)]:
        for dim_size in [10, 0, 1]:
            add(f"nc-{chunksize!r}-{dim_size}", array.normalize_chunksize, chunksize, dim_size)
    add("nc-dim-none", array.normalize_chunksize, 3, None)
    add("nc-none-none", array.normalize_chunksize, None, None)
    add("nc-dim-float", array.normalize_chunksize, 3, 2.5)
    add("nc-arr", array.normalize_chunksize, np.array([1, 20]), 10)
    add("nc-kw", lambda: array.normalize_chunksize(chunksize=4, dim_size=3))

    # determine_nearest_chunksize
    for sizes, ref in [
        ([5, 5, 5], 8),
        ([4, 9, 2], 2),
        ([7, 6, 8], 19),
        ([7, 6, 8], 0),
        ([7, 6, 8], 10**9),
        ([7, 6, 8], -5),
        ([1, 1, 1, 1], 2.5),  # tie
        ([10, 10], 15),  # tie -> first
        ([3], 100),
        ([], 4),
        ((2, 2, 2), 4),
        (np.array([40, 40, 40, 40]), 100 * 2**20),
        (np.array([39, 40, 40, 40]), 80),
        (np.array([], dtype=int), 80),
        (np.array([[1, 2], [3, 4]]), 5),
        (np.array([1.5, 2.5, 3.5]), 4),
        (np.array([2**62, 2**62], dtype="int64"), 5),
        (5, 3),
        ([1, 2, 3], None),
        ([1, 2, 3], "8"),
        (["a", "b"], 1),
        (None, 1),
        ([1, 2, 3], np.array([3, 3, 3])),
        ([1, 2, 3], np.array([1, 2])),
    ]:
        add(f"dn-{sizes!r}-{ref!r}", array.determine_nearest_chunksize, sizes, ref)
    add("dn-kw", lambda: array.determine_nearest_chunksize(sizes=[1, 2, 3], reference_size=3))

    return out


# recorded from the unchanged code
EXPECTED = {'pd-iu2': 'ndarray[>u2|(5,)|0000000100ff0100ffff]',
 'pd-iu2-bytearray': 'ndarray[>u2|(5,)|0000000100ff0100ffff]',
 'pd-iu2-memoryview': 'ndarray[>u2|(5,)|0000000100ff0100ffff]',
 'pd-iu2-empty': 'ndarray[>u2|(0,)|]',
 'pd-iu2-odd': 'raise builtins.ValueError: buffer size must be a multiple of element size',
 'pd-c8': 'ndarray[<c8|(4,)|0000803f00000040000060c00000803e00000000000000000000c07f0000807f]',
 'pd-c8-empty': 'ndarray[<c8|(0,)|]',
 'pd-c8-short': 'raise builtins.ValueError: buffer size must be a multiple of element size',
 'pd-c8-kw': 'ndarray[<c8|(1,)|0000803f00000040]',
 'pd-unknown': 'raise builtins.ValueError: unknown type code: F*8',
 'pd-unknown-lower': 'raise builtins.ValueError: unknown type code: iu2',
 'pd-none': 'raise builtins.ValueError: unknown type code: None',
 'pd-int': 'raise builtins.ValueError: unknown type code: 2',
 'pd-unhashable': "raise builtins.TypeError: unhashable type: 'list'",
 'pd-weird': 'raise builtins.ValueError: unknown type code: Weird()',
 'pd-content-str': "raise builtins.TypeError: a bytes-like object is required, not 'str'",
 'pd-content-none': "raise builtins.TypeError: a bytes-like object is required, not 'NoneType'",
 'pd-bad-content-unknown-code': 'raise builtins.ValueError: unknown type code: zzz',
 'nc-None-10': 'builtins.int:10',
 'nc-None-0': 'builtins.int:0',
 'nc-None-1': 'builtins.int:1',
 'nc--1-10': 'builtins.int:10',
 'nc--1-0': 'builtins.int:0',
 'nc--1-1': 'builtins.int:1',
 'nc--1.0-10': 'builtins.int:10',
 'nc--1.0-0': 'builtins.int:0',
 'nc--1.0-1': 'builtins.int:1',
 'nc-0-10': 'builtins.int:0',
 'nc-0-0': 'builtins.int:0',
 'nc-0-1': 'builtins.int:0',
 'nc-1-10': 'builtins.int:1',
 'nc-1-0': 'builtins.int:0',
 'nc-1-1': 'builtins.int:1',
 'nc-5-10': 'builtins.int:5',
 'nc-5-0': 'builtins.int:0',
 'nc-5-1': 'builtins.int:1',
 'nc-9-10': 'builtins.int:9',
 'nc-9-0': 'builtins.int:0',
 'nc-9-1': 'builtins.int:1',
 'nc-10-10': 'builtins.int:10',
 'nc-10-0': 'builtins.int:0',
 'nc-10-1': 'builtins.int:1',
 'nc-11-10': 'builtins.int:10',
 'nc-11-0': 'builtins.int:0',
 'nc-11-1': 'builtins.int:1',
 'nc-100-10': 'builtins.int:10',
 'nc-100-0': 'builtins.int:0',
 'nc-100-1': 'builtins.int:1',
 'nc--2-10': 'builtins.int:-2',
 'nc--2-0': 'builtins.int:-2',
 'nc--2-1': 'builtins.int:-2',
 'nc-2.5-10': 'builtins.float:2.5',
 'nc-2.5-0': 'builtins.int:0',
 'nc-2.5-1': 'builtins.int:1',
 'nc-True-10': 'builtins.bool:True',
 'nc-True-0': 'builtins.int:0',
 'nc-True-1': 'builtins.bool:True',
 'nc-False-10': 'builtins.bool:False',
 'nc-False-0': 'builtins.bool:False',
 'nc-False-1': 'builtins.bool:False',
 'nc-np.int64(-1)-10': 'builtins.int:10',
 'nc-np.int64(-1)-0': 'builtins.int:0',
 'nc-np.int64(-1)-1': 'builtins.int:1',
 'nc-np.int64(3)-10': 'numpy.int64(np.int64(3))',
 'nc-np.int64(3)-0': 'builtins.int:0',
 'nc-np.int64(3)-1': 'builtins.int:1',
 'nc-np.int64(30)-10': 'builtins.int:10',
 'nc-np.int64(30)-0': 'builtins.int:0',
 'nc-np.int64(30)-1': 'builtins.int:1',
 'nc-nan-10': 'builtins.float:nan',
 'nc-nan-0': 'builtins.float:nan',
 'nc-nan-1': 'builtins.float:nan',
 'nc-inf-10': 'builtins.int:10',
 'nc-inf-0': 'builtins.int:0',
 'nc-inf-1': 'builtins.int:1',
 "nc-'auto'-10": "raise builtins.TypeError: '>' not supported between instances of 'str' and 'int'",
 "nc-'auto'-0": "raise builtins.TypeError: '>' not supported between instances of 'str' and 'int'",
 "nc-'auto'-1": "raise builtins.TypeError: '>' not supported between instances of 'str' and 'int'",
 "nc-'5'-10": "raise builtins.TypeError: '>' not supported between instances of 'str' and 'int'",
 "nc-'5'-0": "raise builtins.TypeError: '>' not supported between instances of 'str' and 'int'",
 "nc-'5'-1": "raise builtins.TypeError: '>' not supported between instances of 'str' and 'int'",
 'nc-[1]-10': "raise builtins.TypeError: '>' not supported between instances of 'list' and 'int'",
 'nc-[1]-0': "raise builtins.TypeError: '>' not supported between instances of 'list' and 'int'",
 'nc-[1]-1': "raise builtins.TypeError: '>' not supported between instances of 'list' and 'int'",
 'nc-(None, -1)-10': "raise builtins.TypeError: '>' not supported between instances of 'tuple' and "
                     "'int'",
 'nc-(None, -1)-0': "raise builtins.TypeError: '>' not supported between instances of 'tuple' and "
                    "'int'",
 'nc-(None, -1)-1': "raise builtins.TypeError: '>' not supported between instances of 'tuple' and "
                    "'int'",
 'nc-dim-none': "raise builtins.TypeError: '>' not supported between instances of 'int' and "
                "'NoneType'",
 'nc-none-none': 'builtins.NoneType:None',
 'nc-dim-float': 'builtins.float:2.5',
 'nc-arr': 'raise builtins.ValueError: The truth value of an array with more than one element is '
           'ambiguous. Use a.any() or a.all()',
 'nc-kw': 'builtins.int:3',
 'dn-[5, 5, 5]-8': 'numpy.int64(np.int64(2))',
 'dn-[4, 9, 2]-2': 'numpy.int64(np.int64(1))',
 'dn-[7, 6, 8]-19': 'numpy.int64(np.int64(3))',
 'dn-[7, 6, 8]-0': 'numpy.int64(np.int64(1))',
 'dn-[7, 6, 8]-1000000000': 'numpy.int64(np.int64(3))',
 'dn-[7, 6, 8]--5': 'numpy.int64(np.int64(1))',
 'dn-[1, 1, 1, 1]-2.5': 'numpy.int64(np.int64(2))',
 'dn-[10, 10]-15': 'numpy.int64(np.int64(1))',
 'dn-[3]-100': 'numpy.int64(np.int64(1))',
 'dn-[]-4': 'raise builtins.ValueError: attempt to get argmin of an empty sequence',
 'dn-(2, 2, 2)-4': 'numpy.int64(np.int64(2))',
 'dn-array([40, 40, 40, 40])-104857600': 'numpy.int64(np.int64(4))',
 'dn-array([39, 40, 40, 40])-80': 'numpy.int64(np.int64(2))',
 'dn-array([], dtype=int64)-80': 'raise builtins.ValueError: attempt to get argmin of an empty '
                                 'sequence',
 'dn-array([[1, 2],\n       [3, 4]])-5': 'numpy.int64(np.int64(3))',
 'dn-array([1.5, 2.5, 3.5])-4': 'numpy.int64(np.int64(2))',
 'dn-array([4611686018427387904, 4611686018427387904])-5': 'numpy.int64(np.int64(1))',
 'dn-5-3': 'numpy.int64(np.int64(1))',
 'dn-[1, 2, 3]-None': "raise builtins.TypeError: unsupported operand type(s) for -: 'int' and "
                      "'NoneType'",
 "dn-[1, 2, 3]-'8'": "raise numpy._core._exceptions._UFuncNoLoopError: ufunc 'subtract' did not "
                     "contain a loop with signature matching types (dtype('int64'), dtype('<U1')) "
                     '-> None',
 "dn-['a', 'b']-1": 'raise builtins.TypeError: the resolved dtypes are not compatible with '
                    "add.accumulate. Resolved (dtype('<U1'), dtype('<U1'), dtype('<U2'))",
 'dn-None-1': "raise builtins.TypeError: unsupported operand type(s) for -: 'NoneType' and 'int'",
 'dn-[1, 2, 3]-array([3, 3, 3])': 'numpy.int64(np.int64(2))',
 'dn-[1, 2, 3]-array([1, 2])': 'raise builtins.ValueError: operands could not be broadcast '
                               'together with shapes (3,) (2,) ',
 'dn-kw': 'numpy.int64(np.int64(2))'}


# --------------------------------------------------------------------------
# harness: canonical description of results, comparison against EXPECTED
# --------------------------------------------------------------------------
import sys
import warnings


def describe(value):
    """canonical, type-aware text form of a result"""
    import numpy as _np

    if isinstance(value, BaseException):
        return f"raise {type(value).__module__}.{type(value).__qualname__}: {value}"
    if isinstance(value, _np.ndarray):
        if value.dtype == object:
            body = repr(value.tolist())
        else:
            body = value.tobytes().hex()
        return f"ndarray[{value.dtype.str}|{value.shape}|{body}]"
    if isinstance(value, _np.generic):
        return f"{type(value).__module__}.{type(value).__name__}({value!r})"
    if isinstance(value, dict):
        items = ", ".join(f"{describe(k)}: {describe(v)}" for k, v in value.items())
        return f"{type(value).__name__}{{{items}}}"
    if isinstance(value, (list, tuple)):
        items = ", ".join(describe(v) for v in value)
        return f"{type(value).__name__}({items})"
    return f"{type(value).__module__}.{type(value).__qualname__}:{value!r}"


def run_case(thunk):
    with warnings.catch_warnings():
        warnings.simplefilter("ignore")
        try:
            return describe(thunk())
        except Exception as e:  # noqa: BLE001
            return describe(e)


def collect():
    results = {}
    for name, thunk in cases():
        if name in results:
            raise RuntimeError(f"duplicate case name: {name}")
        results[name] = run_case(thunk)
    return results


def main(argv):
    results = collect()
    if "--record" in argv:
        import pprint

        pprint.pprint(results, width=100, sort_dicts=False)
        return 0

    failures = []
    for name, actual in results.items():
        expected = EXPECTED.get(name, "<missing>")
        if actual != expected:
            failures.append((name, expected, actual))
    missing = sorted(set(EXPECTED) - set(results))
    for name, expected, actual in failures:
        print(f"MISMATCH {name}\n  expected: {expected}\n  actual:   {actual}")
    for name in missing:
        print(f"NOT RUN {name}")
    n_raise = sum(1 for v in results.values() if v.startswith("raise "))
    print(f"{len(results)} cases ({n_raise} raising), {len(failures)} mismatches, {len(missing)} not run")
    return 1 if failures or missing else 0


def test_equivalence():
    assert main([]) == 0


if __name__ == "__main__":
    sys.exit(main(sys.argv[1:]))
