"""Equivalence check for refactoring 3 (ceos_alos2/sar_image/cli.py).

Run as:  PYTHONPATH=<worktree> python equiv.py            (asserts against recorded values)
         PYTHONPATH=<worktree> python equiv.py --record   (prints the observations as JSON)

A small but complete level 1.5 image file (file descriptor + processed data records) is
synthesised, the command line tool is run on it (in-process and once as a subprocess) and the
results / messages / exit codes / sequence of I/O requests are compared with the values
recorded with the unchanged code (HEAD 343c5cf).
"""

import contextlib
import hashlib
import io
import json
import os
import pathlib
import struct
import subprocess
import sys
import tempfile

os.environ["COLUMNS"] = "80"
os.environ.pop("LINES", None)

import fsspec  # noqa: E402

from ceos_alos2.sar_image import cli  # noqa: E402
from ceos_alos2.sar_image.file_descriptor import file_descriptor_record  # noqa: E402

here = pathlib.Path(__file__).resolve().parent
NAME = "IMG-HH-ALOS2225333100-180726-WWDR1.5RUD"
NAME2 = "IMG-HV-ALOS2225333100-180726-WWDR1.5RUD-F2"


# --- synthetic image files -------------------------------------------------------------------
def field_offsets(struct_, base=0, prefix=()):
    out = {}
    pos = base
    for sc in struct_.subcons:
        inner = getattr(sc, "subcon", sc)
        if hasattr(inner, "subcons"):
            out.update(field_offsets(inner, pos, prefix + (sc.name,)))
        out[prefix + (sc.name,)] = (pos, sc.sizeof())
        pos += sc.sizeof()
    return out


def make_header(n_records, record_length, n_lines, n_groups, type_code="IU2"):
    buf = bytearray(b" " * 720)
    buf[:12] = struct.pack(">IBBBBI", 1, 50, 192, 18, 18, 720)
    offsets = field_offsets(file_descriptor_record)

    def put(path, text):
        pos, size = offsets[path]
        buf[pos : pos + size] = str(text).rjust(size).encode("ascii")

    put(("number_of_sar_data_records",), n_records)
    put(("sar_data_record_length",), record_length)
    put(("sar_related_data_in_the_record", "number_of_lines_per_dataset"), n_lines)
    put(("sar_related_data_in_the_record", "number_of_data_groups_per_line"), n_groups)
    put(("sar_related_data_in_the_record", "interleaving_id"), "BSQ")
    put(("prefix_suffix_data_locators", "sar_data_format_type_code"), type_code)
    put(("prefix_suffix_data_locators", "maximum_data_range_of_pixel"), 65535)
    return bytes(buf)


def make_record(index, n_groups, prefix=192):
    length = prefix + 2 * n_groups
    buf = bytearray(length)
    buf[:12] = struct.pack(">IBBBBI", index + 2, 50, 11, 18, 20, length)
    ints = [index + 1, 1, 0, n_groups, 0, 1, 2020, 32, 1000 * index]
    buf[12 : 12 + 4 * len(ints)] = struct.pack(f">{len(ints)}I", *ints)
    buf[prefix:] = struct.pack(f">{n_groups}H", *[index * 100 + c for c in range(n_groups)])
    return bytes(buf)


def make_image(n_lines=5, n_groups=4):
    record_length = 192 + 2 * n_groups
    records = b"".join(make_record(i, n_groups) for i in range(n_lines))
    return make_header(n_lines, record_length, n_lines, n_groups) + records


# --- helpers -----------------------------------------------------------------------------------
def normalize(text, root):
    if text is None:
        return None
    return text.replace(root.as_uri(), "<URI>").replace(str(root), "<ROOT>")


def listing(root):
    return sorted(
        str(p.relative_to(root)) + ("/" if p.is_dir() else "") for p in root.rglob("*")
    )


def digest(text):
    return [len(text), hashlib.sha256(text.encode()).hexdigest()]


def run_create_cache(root, *args, **kwargs):
    try:
        result = cli.create_cache(*args, **kwargs)
    except BaseException as e:  # noqa: B902
        return ["raise", type(e).__name__, normalize(str(e), root), normalize(repr(e.args), root)]
    return ["return", repr(result)]


def run_main(root, argv):
    stdout, stderr = io.StringIO(), io.StringIO()
    old_argv = sys.argv
    sys.argv = ["ceos-alos2-create-cache"] + [str(a) for a in argv]
    try:
        with contextlib.redirect_stdout(stdout), contextlib.redirect_stderr(stderr):
            try:
                result = cli.main()
                status = ["return", repr(result)]
            except SystemExit as e:
                status = ["exit", repr(e.code)]
            except BaseException as e:  # noqa: B902
                status = ["raise", type(e).__name__, normalize(str(e), root)]
    finally:
        sys.argv = old_argv
    return [status, normalize(stdout.getvalue(), root), normalize(stderr.getvalue(), root)]


@contextlib.contextmanager
def traced_io(root, log):
    """log the file system requests made by the cli module (and below it)"""
    originals = {}

    def wrap_path_method(name):
        original = getattr(pathlib.Path, name)
        originals[name] = original

        def wrapper(self, *args, **kwargs):
            log.append([f"Path.{name}", normalize(str(self), root)])
            return original(self, *args, **kwargs)

        setattr(pathlib.Path, name, wrapper)

    for name in ("is_file", "is_dir", "write_text", "exists", "stat", "open", "mkdir"):
        wrap_path_method(name)

    original_get_mapper = fsspec.get_mapper
    original_open_image = cli.open_image
    original_encode = cli.caching.encode

    def get_mapper(*args, **kwargs):
        log.append(["fsspec.get_mapper", normalize(repr(args), root), normalize(repr(kwargs), root)])
        return original_get_mapper(*args, **kwargs)

    def open_image(mapper, *args, **kwargs):
        log.append(
            ["open_image", type(mapper).__name__, normalize(mapper.root, root), repr(args), repr(kwargs)]
        )
        return original_open_image(mapper, *args, **kwargs)

    def encode(obj):
        log.append(["caching.encode", type(obj).__name__, obj.path])
        return original_encode(obj)

    fsspec.get_mapper = get_mapper
    cli.open_image = open_image
    cli.caching.encode = encode
    try:
        yield
    finally:
        fsspec.get_mapper = original_get_mapper
        cli.open_image = original_open_image
        cli.caching.encode = original_encode
        for name, original in originals.items():
            setattr(pathlib.Path, name, original)


def fresh_tree(root):
    for p in sorted(root.rglob("*"), reverse=True):
        p.rmdir() if p.is_dir() else p.unlink()
    (root / "data").mkdir()
    (root / "cache").mkdir()
    (root / "data" / NAME).write_bytes(make_image(5, 4))
    (root / "data" / NAME2).write_bytes(make_image(7, 3))
    (root / "data" / "IMG-BAD-NAME").write_bytes(make_image(2, 2))
    (root / "data" / ("IMG-HV" + NAME[6:])).write_bytes(make_image(5, 4)[:1000])
    (root / "data" / ("IMG-VV" + NAME[6:])).write_bytes(b"")
    (root / "afile").write_text("not a directory")
    (root / "blocked" / (NAME + ".index")).mkdir(parents=True)


def observe_in(root):
    obs = {}
    image = root / "data" / NAME
    image2 = root / "data" / NAME2

    # --- create_cache ---
    cases = {
        "default-root": (image, None, 2),
        "default-root-rpc-large": (image, None, 4096),
        "default-root-rpc-1": (image2, None, 1),
        "default-root-rpc-3": (image2, None, 3),
        "explicit-root": (image, root / "cache", 2),
        "explicit-root-same-dir": (image, root / "data", 4),
        "rpc-none": (image, None, None),
        "rpc-zero": (image, None, 0),
        "missing-image": (root / "data" / "nothing", None, 2),
        "missing-image-and-root": (root / "data" / "nothing", root / "nowhere", 2),
        "image-is-dir": (root / "data", None, 2),
        "missing-root": (image, root / "nowhere", 2),
        "root-is-file": (image, root / "afile", 2),
        "target-is-dir": (image, root / "blocked", 2),
        "bad-name": (root / "data" / "IMG-BAD-NAME", None, 2),
        "truncated": (root / "data" / ("IMG-HV" + NAME[6:]), None, 2),
        "empty": (root / "data" / ("IMG-VV" + NAME[6:]), None, 2),
        "relative-image": (pathlib.Path("data") / NAME, None, 2),
        "str-image": (str(image), None, 2),
        "str-root": (image, str(root / "cache"), 2),
        "pure-path": (pathlib.PurePosixPath(str(image)), None, 2),
    }
    for name, (image_path, cache_root, rpc) in cases.items():
        fresh_tree(root)
        log = []
        with traced_io(root, log):
            result = run_create_cache(root, image_path, cache_root, records_per_chunk=rpc)
        new_files = {
            rel: digest(normalize((root / rel).read_text(), root))
            for rel in listing(root)
            if rel.endswith(".index") and (root / rel).is_file()
        }
        obs[f"create_cache/{name}"] = [result, listing(root), new_files, log]

    # positional records_per_chunk and keyword arguments
    fresh_tree(root)
    obs["create_cache/positional"] = [
        run_create_cache(root, image, root / "cache", 2),
        run_create_cache(root, image_path=image, cache_root=None, records_per_chunk=2),
        run_create_cache(root, image, None),
        listing(root),
    ]

    # the content of one cache file in full
    fresh_tree(root)
    cli.create_cache(image, None, records_per_chunk=2)
    obs["content"] = normalize((root / "data" / (NAME + ".index")).read_text(), root)

    # --- main ---
    argvs = {
        "defaults": [image],
        "rpc": ["--rpc", "2", image],
        "rpc-equals": ["--rpc=3", image2, root / "cache"],
        "rpc-bare": [image, "--rpc"],
        "rpc-after": [image, root / "cache", "--rpc", "1"],
        "rpc-invalid": ["--rpc", "two", image],
        "rpc-negative": ["--rpc", "-1", image],
        "rpc-zero": ["--rpc", "0", image],
        "no-args": [],
        "too-many": [image, root / "cache", root / "cache"],
        "unknown-option": ["--records", "2", image],
        "help": ["--help"],
        "help-short": ["-h"],
        "missing-image": [root / "data" / "nothing"],
        "missing-root": [image, root / "nowhere"],
        "root-is-file": ["--rpc", "2", image, root / "afile"],
        "image-is-dir": [root / "data"],
        "bad-name": [root / "data" / "IMG-BAD-NAME"],
        "empty-file": [root / "data" / ("IMG-VV" + NAME[6:])],
        "target-is-dir": [image, root / "blocked"],
    }
    for name, argv in argvs.items():
        fresh_tree(root)
        log = []
        with traced_io(root, log):
            result = run_main(root, argv)
        new_files = {
            rel: digest(normalize((root / rel).read_text(), root))
            for rel in listing(root)
            if rel.endswith(".index") and (root / rel).is_file()
        }
        obs[f"main/{name}"] = [result, new_files, log]

    # --- python -m ceos_alos2.sar_image ---
    fresh_tree(root)
    for name, argv in {"ok": ["--rpc", "2", str(image)], "fail": [str(root / "x")], "help": ["-h"]}.items():
        proc = subprocess.run(
            [sys.executable, "-m", "ceos_alos2.sar_image", *argv],
            capture_output=True,
            text=True,
            env=dict(os.environ),
            cwd=root,
        )
        obs[f"subprocess/{name}"] = [
            proc.returncode,
            normalize(proc.stdout, root),
            normalize(proc.stderr, root),
            [rel for rel in listing(root) if rel.endswith(".index")],
        ]

    obs["signature"] = [
        cli.create_cache.__name__,
        list(cli.create_cache.__code__.co_varnames[: cli.create_cache.__code__.co_argcount]),
        cli.main.__code__.co_argcount,
    ]
    return obs


def observe():
    cwd = os.getcwd()
    with tempfile.TemporaryDirectory(dir=here, prefix="tmp-equiv-") as d:
        root = pathlib.Path(d).resolve()
        os.chdir(root)
        try:
            return observe_in(root)
        finally:
            os.chdir(cwd)


EXPECTED_JSON = r"""
{
 "create_cache/default-root": [
  [
   "return",
   "None"
  ],
  [
   "afile",
   "blocked/",
   "blocked/IMG-HH-ALOS2225333100-180726-WWDR1.5RUD.index/",
   "cache/",
   "data/",
   "data/IMG-BAD-NAME",
   "data/IMG-HH-ALOS2225333100-180726-WWDR1.5RUD",
   "data/IMG-HH-ALOS2225333100-180726-WWDR1.5RUD.index",
   "data/IMG-HV-ALOS2225333100-180726-WWDR1.5RUD",
   "data/IMG-HV-ALOS2225333100-180726-WWDR1.5RUD-F2",
   "data/IMG-VV-ALOS2225333100-180726-WWDR1.5RUD"
  ],
  {
   "data/IMG-HH-ALOS2225333100-180726-WWDR1.5RUD.index": [
    6520,
    "e16211ff9753030dc663c7f2b542ee3c6decc4a250df9675cfe661f218ebdb6b"
   ]
  },
  [
   [
    "Path.is_file",
    "<ROOT>/data/IMG-HH-ALOS2225333100-180726-WWDR1.5RUD"
   ],
   [
    "Path.stat",
    "<ROOT>/data/IMG-HH-ALOS2225333100-180726-WWDR1.5RUD"
   ],
   [
    "fsspec.get_mapper",
    "('<URI>/data',)",
    "{}"
   ],
   [
    "open_image",
    "FSMap",
    "<ROOT>/data",
    "('IMG-HH-ALOS2225333100-180726-WWDR1.5RUD',)",
    "{'use_cache': False, 'create_cache': False, 'records_per_chunk': 2}"
   ],
   [
    "caching.encode",
    "Group",
    "HH"
   ],
   [
    "Path.write_text",
    "<ROOT>/data/IMG-HH-ALOS2225333100-180726-WWDR1.5RUD.index"
   ],
   [
    "Path.open",
    "<ROOT>/data/IMG-HH-ALOS2225333100-180726-WWDR1.5RUD.index"
   ]
  ]
 ],
 "create_cache/default-root-rpc-large": [
  [
   "return",
   "None"
  ],
  [
   "afile",
   "blocked/",
   "blocked/IMG-HH-ALOS2225333100-180726-WWDR1.5RUD.index/",
   "cache/",
   "data/",
   "data/IMG-BAD-NAME",
   "data/IMG-HH-ALOS2225333100-180726-WWDR1.5RUD",
   "data/IMG-HH-ALOS2225333100-180726-WWDR1.5RUD.index",
   "data/IMG-HV-ALOS2225333100-180726-WWDR1.5RUD",
   "data/IMG-HV-ALOS2225333100-180726-WWDR1.5RUD-F2",
   "data/IMG-VV-ALOS2225333100-180726-WWDR1.5RUD"
  ],
  {
   "data/IMG-HH-ALOS2225333100-180726-WWDR1.5RUD.index": [
    6520,
    "e16211ff9753030dc663c7f2b542ee3c6decc4a250df9675cfe661f218ebdb6b"
   ]
  },
  [
   [
    "Path.is_file",
    "<ROOT>/data/IMG-HH-ALOS2225333100-180726-WWDR1.5RUD"
   ],
   [
    "Path.stat",
    "<ROOT>/data/IMG-HH-ALOS2225333100-180726-WWDR1.5RUD"
   ],
   [
    "fsspec.get_mapper",
    "('<URI>/data',)",
    "{}"
   ],
   [
    "open_image",
    "FSMap",
    "<ROOT>/data",
    "('IMG-HH-ALOS2225333100-180726-WWDR1.5RUD',)",
    "{'use_cache': False, 'create_cache': False, 'records_per_chunk': 4096}"
   ],
   [
    "caching.encode",
    "Group",
    "HH"
   ],
   [
    "Path.write_text",
    "<ROOT>/data/IMG-HH-ALOS2225333100-180726-WWDR1.5RUD.index"
   ],
   [
    "Path.open",
    "<ROOT>/data/IMG-HH-ALOS2225333100-180726-WWDR1.5RUD.index"
   ]
  ]
 ],
 "create_cache/default-root-rpc-1": [
  [
   "return",
   "None"
  ],
  [
   "afile",
   "blocked/",
   "blocked/IMG-HH-ALOS2225333100-180726-WWDR1.5RUD.index/",
   "cache/",
   "data/",
   "data/IMG-BAD-NAME",
   "data/IMG-HH-ALOS2225333100-180726-WWDR1.5RUD",
   "data/IMG-HV-ALOS2225333100-180726-WWDR1.5RUD",
   "data/IMG-HV-ALOS2225333100-180726-WWDR1.5RUD-F2",
   "data/IMG-HV-ALOS2225333100-180726-WWDR1.5RUD-F2.index",
   "data/IMG-VV-ALOS2225333100-180726-WWDR1.5RUD"
  ],
  {
   "data/IMG-HV-ALOS2225333100-180726-WWDR1.5RUD-F2.index": [
    6835,
    "52a3c856b51ba6b6f25fd8ed736dd66400174ecbf25a7d93d04a3a92d6083b45"
   ]
  },
  [
   [
    "Path.is_file",
    "<ROOT>/data/IMG-HV-ALOS2225333100-180726-WWDR1.5RUD-F2"
   ],
   [
    "Path.stat",
    "<ROOT>/data/IMG-HV-ALOS2225333100-180726-WWDR1.5RUD-F2"
   ],
   [
    "fsspec.get_mapper",
    "('<URI>/data',)",
    "{}"
   ],
   [
    "open_image",
    "FSMap",
    "<ROOT>/data",
    "('IMG-HV-ALOS2225333100-180726-WWDR1.5RUD-F2',)",
    "{'use_cache': False, 'create_cache': False, 'records_per_chunk': 1}"
   ],
   [
    "caching.encode",
    "Group",
    "HV_scan2"
   ],
   [
    "Path.write_text",
    "<ROOT>/data/IMG-HV-ALOS2225333100-180726-WWDR1.5RUD-F2.index"
   ],
   [
    "Path.open",
    "<ROOT>/data/IMG-HV-ALOS2225333100-180726-WWDR1.5RUD-F2.index"
   ]
  ]
 ],
 "create_cache/default-root-rpc-3": [
  [
   "return",
   "None"
  ],
  [
   "afile",
   "blocked/",
   "blocked/IMG-HH-ALOS2225333100-180726-WWDR1.5RUD.index/",
   "cache/",
   "data/",
   "data/IMG-BAD-NAME",
   "data/IMG-HH-ALOS2225333100-180726-WWDR1.5RUD",
   "data/IMG-HV-ALOS2225333100-180726-WWDR1.5RUD",
   "data/IMG-HV-ALOS2225333100-180726-WWDR1.5RUD-F2",
   "data/IMG-HV-ALOS2225333100-180726-WWDR1.5RUD-F2.index",
   "data/IMG-VV-ALOS2225333100-180726-WWDR1.5RUD"
  ],
  {
   "data/IMG-HV-ALOS2225333100-180726-WWDR1.5RUD-F2.index": [
    6835,
    "52a3c856b51ba6b6f25fd8ed736dd66400174ecbf25a7d93d04a3a92d6083b45"
   ]
  },
  [
   [
    "Path.is_file",
    "<ROOT>/data/IMG-HV-ALOS2225333100-180726-WWDR1.5RUD-F2"
   ],
   [
    "Path.stat",
    "<ROOT>/data/IMG-HV-ALOS2225333100-180726-WWDR1.5RUD-F2"
   ],
   [
    "fsspec.get_mapper",
    "('<URI>/data',)",
    "{}"
   ],
   [
    "open_image",
    "FSMap",
    "<ROOT>/data",
    "('IMG-HV-ALOS2225333100-180726-WWDR1.5RUD-F2',)",
    "{'use_cache': False, 'create_cache': False, 'records_per_chunk': 3}"
   ],
   [
    "caching.encode",
    "Group",
    "HV_scan2"
   ],
   [
    "Path.write_text",
    "<ROOT>/data/IMG-HV-ALOS2225333100-180726-WWDR1.5RUD-F2.index"
   ],
   [
    "Path.open",
    "<ROOT>/data/IMG-HV-ALOS2225333100-180726-WWDR1.5RUD-F2.index"
   ]
  ]
 ],
 "create_cache/explicit-root": [
  [
   "return",
   "None"
  ],
  [
   "afile",
   "blocked/",
   "blocked/IMG-HH-ALOS2225333100-180726-WWDR1.5RUD.index/",
   "cache/",
   "cache/IMG-HH-ALOS2225333100-180726-WWDR1.5RUD.index",
   "data/",
   "data/IMG-BAD-NAME",
   "data/IMG-HH-ALOS2225333100-180726-WWDR1.5RUD",
   "data/IMG-HV-ALOS2225333100-180726-WWDR1.5RUD",
   "data/IMG-HV-ALOS2225333100-180726-WWDR1.5RUD-F2",
   "data/IMG-VV-ALOS2225333100-180726-WWDR1.5RUD"
  ],
  {
   "cache/IMG-HH-ALOS2225333100-180726-WWDR1.5RUD.index": [
    6520,
    "e16211ff9753030dc663c7f2b542ee3c6decc4a250df9675cfe661f218ebdb6b"
   ]
  },
  [
   [
    "Path.is_file",
    "<ROOT>/data/IMG-HH-ALOS2225333100-180726-WWDR1.5RUD"
   ],
   [
    "Path.stat",
    "<ROOT>/data/IMG-HH-ALOS2225333100-180726-WWDR1.5RUD"
   ],
   [
    "Path.is_dir",
    "<ROOT>/cache"
   ],
   [
    "Path.stat",
    "<ROOT>/cache"
   ],
   [
    "fsspec.get_mapper",
    "('<URI>/data',)",
    "{}"
   ],
   [
    "open_image",
    "FSMap",
    "<ROOT>/data",
    "('IMG-HH-ALOS2225333100-180726-WWDR1.5RUD',)",
    "{'use_cache': False, 'create_cache': False, 'records_per_chunk': 2}"
   ],
   [
    "caching.encode",
    "Group",
    "HH"
   ],
   [
    "Path.write_text",
    "<ROOT>/cache/IMG-HH-ALOS2225333100-180726-WWDR1.5RUD.index"
   ],
   [
    "Path.open",
    "<ROOT>/cache/IMG-HH-ALOS2225333100-180726-WWDR1.5RUD.index"
   ]
  ]
 ],
 "create_cache/explicit-root-same-dir": [
  [
   "return",
   "None"
  ],
  [
   "afile",
   "blocked/",
   "blocked/IMG-HH-ALOS2225333100-180726-WWDR1.5RUD.index/",
   "cache/",
   "data/",
   "data/IMG-BAD-NAME",
   "data/IMG-HH-ALOS2225333100-180726-WWDR1.5RUD",
   "data/IMG-HH-ALOS2225333100-180726-WWDR1.5RUD.index",
   "data/IMG-HV-ALOS2225333100-180726-WWDR1.5RUD",
   "data/IMG-HV-ALOS2225333100-180726-WWDR1.5RUD-F2",
   "data/IMG-VV-ALOS2225333100-180726-WWDR1.5RUD"
  ],
  {
   "data/IMG-HH-ALOS2225333100-180726-WWDR1.5RUD.index": [
    6520,
    "e16211ff9753030dc663c7f2b542ee3c6decc4a250df9675cfe661f218ebdb6b"
   ]
  },
  [
   [
    "Path.is_file",
    "<ROOT>/data/IMG-HH-ALOS2225333100-180726-WWDR1.5RUD"
   ],
   [
    "Path.stat",
    "<ROOT>/data/IMG-HH-ALOS2225333100-180726-WWDR1.5RUD"
   ],
   [
    "Path.is_dir",
    "<ROOT>/data"
   ],
   [
    "Path.stat",
    "<ROOT>/data"
   ],
   [
    "fsspec.get_mapper",
    "('<URI>/data',)",
    "{}"
   ],
   [
    "open_image",
    "FSMap",
    "<ROOT>/data",
    "('IMG-HH-ALOS2225333100-180726-WWDR1.5RUD',)",
    "{'use_cache': False, 'create_cache': False, 'records_per_chunk': 4}"
   ],
   [
    "caching.encode",
    "Group",
    "HH"
   ],
   [
    "Path.write_text",
    "<ROOT>/data/IMG-HH-ALOS2225333100-180726-WWDR1.5RUD.index"
   ],
   [
    "Path.open",
    "<ROOT>/data/IMG-HH-ALOS2225333100-180726-WWDR1.5RUD.index"
   ]
  ]
 ],
 "create_cache/rpc-none": [
  [
   "raise",
   "TypeError",
   "unsupported operand type(s) for /: 'int' and 'NoneType'",
   "(\"unsupported operand type(s) for /: 'int' and 'NoneType'\",)"
  ],
  [
   "afile",
   "blocked/",
   "blocked/IMG-HH-ALOS2225333100-180726-WWDR1.5RUD.index/",
   "cache/",
   "data/",
   "data/IMG-BAD-NAME",
   "data/IMG-HH-ALOS2225333100-180726-WWDR1.5RUD",
   "data/IMG-HV-ALOS2225333100-180726-WWDR1.5RUD",
   "data/IMG-HV-ALOS2225333100-180726-WWDR1.5RUD-F2",
   "data/IMG-VV-ALOS2225333100-180726-WWDR1.5RUD"
  ],
  {},
  [
   [
    "Path.is_file",
    "<ROOT>/data/IMG-HH-ALOS2225333100-180726-WWDR1.5RUD"
   ],
   [
    "Path.stat",
    "<ROOT>/data/IMG-HH-ALOS2225333100-180726-WWDR1.5RUD"
   ],
   [
    "fsspec.get_mapper",
    "('<URI>/data',)",
    "{}"
   ],
   [
    "open_image",
    "FSMap",
    "<ROOT>/data",
    "('IMG-HH-ALOS2225333100-180726-WWDR1.5RUD',)",
    "{'use_cache': False, 'create_cache': False, 'records_per_chunk': None}"
   ]
  ]
 ],
 "create_cache/rpc-zero": [
  [
   "raise",
   "ZeroDivisionError",
   "division by zero",
   "('division by zero',)"
  ],
  [
   "afile",
   "blocked/",
   "blocked/IMG-HH-ALOS2225333100-180726-WWDR1.5RUD.index/",
   "cache/",
   "data/",
   "data/IMG-BAD-NAME",
   "data/IMG-HH-ALOS2225333100-180726-WWDR1.5RUD",
   "data/IMG-HV-ALOS2225333100-180726-WWDR1.5RUD",
   "data/IMG-HV-ALOS2225333100-180726-WWDR1.5RUD-F2",
   "data/IMG-VV-ALOS2225333100-180726-WWDR1.5RUD"
  ],
  {},
  [
   [
    "Path.is_file",
    "<ROOT>/data/IMG-HH-ALOS2225333100-180726-WWDR1.5RUD"
   ],
   [
    "Path.stat",
    "<ROOT>/data/IMG-HH-ALOS2225333100-180726-WWDR1.5RUD"
   ],
   [
    "fsspec.get_mapper",
    "('<URI>/data',)",
    "{}"
   ],
   [
    "open_image",
    "FSMap",
    "<ROOT>/data",
    "('IMG-HH-ALOS2225333100-180726-WWDR1.5RUD',)",
    "{'use_cache': False, 'create_cache': False, 'records_per_chunk': 0}"
   ]
  ]
 ],
 "create_cache/missing-image": [
  [
   "raise",
   "FileNotFoundError",
   "Cannot find image file at given path: <ROOT>/data/nothing",
   "('Cannot find image file at given path: <ROOT>/data/nothing',)"
  ],
  [
   "afile",
   "blocked/",
   "blocked/IMG-HH-ALOS2225333100-180726-WWDR1.5RUD.index/",
   "cache/",
   "data/",
   "data/IMG-BAD-NAME",
   "data/IMG-HH-ALOS2225333100-180726-WWDR1.5RUD",
   "data/IMG-HV-ALOS2225333100-180726-WWDR1.5RUD",
   "data/IMG-HV-ALOS2225333100-180726-WWDR1.5RUD-F2",
   "data/IMG-VV-ALOS2225333100-180726-WWDR1.5RUD"
  ],
  {},
  [
   [
    "Path.is_file",
    "<ROOT>/data/nothing"
   ],
   [
    "Path.stat",
    "<ROOT>/data/nothing"
   ]
  ]
 ],
 "create_cache/missing-image-and-root": [
  [
   "raise",
   "FileNotFoundError",
   "Cannot find image file at given path: <ROOT>/data/nothing",
   "('Cannot find image file at given path: <ROOT>/data/nothing',)"
  ],
  [
   "afile",
   "blocked/",
   "blocked/IMG-HH-ALOS2225333100-180726-WWDR1.5RUD.index/",
   "cache/",
   "data/",
   "data/IMG-BAD-NAME",
   "data/IMG-HH-ALOS2225333100-180726-WWDR1.5RUD",
   "data/IMG-HV-ALOS2225333100-180726-WWDR1.5RUD",
   "data/IMG-HV-ALOS2225333100-180726-WWDR1.5RUD-F2",
   "data/IMG-VV-ALOS2225333100-180726-WWDR1.5RUD"
  ],
  {},
  [
   [
    "Path.is_file",
    "<ROOT>/data/nothing"
   ],
   [
    "Path.stat",
    "<ROOT>/data/nothing"
   ]
  ]
 ],
 "create_cache/image-is-dir": [
  [
   "raise",
   "FileNotFoundError",
   "Cannot find image file at given path: <ROOT>/data",
   "('Cannot find image file at given path: <ROOT>/data',)"
  ],
  [
   "afile",
   "blocked/",
   "blocked/IMG-HH-ALOS2225333100-180726-WWDR1.5RUD.index/",
   "cache/",
   "data/",
   "data/IMG-BAD-NAME",
   "data/IMG-HH-ALOS2225333100-180726-WWDR1.5RUD",
   "data/IMG-HV-ALOS2225333100-180726-WWDR1.5RUD",
   "data/IMG-HV-ALOS2225333100-180726-WWDR1.5RUD-F2",
   "data/IMG-VV-ALOS2225333100-180726-WWDR1.5RUD"
  ],
  {},
  [
   [
    "Path.is_file",
    "<ROOT>/data"
   ],
   [
    "Path.stat",
    "<ROOT>/data"
   ]
  ]
 ],
 "create_cache/missing-root": [
  [
   "raise",
   "OSError",
   "Cannot find the target cache root: <ROOT>/nowhere",
   "('Cannot find the target cache root: <ROOT>/nowhere',)"
  ],
  [
   "afile",
   "blocked/",
   "blocked/IMG-HH-ALOS2225333100-180726-WWDR1.5RUD.index/",
   "cache/",
   "data/",
   "data/IMG-BAD-NAME",
   "data/IMG-HH-ALOS2225333100-180726-WWDR1.5RUD",
   "data/IMG-HV-ALOS2225333100-180726-WWDR1.5RUD",
   "data/IMG-HV-ALOS2225333100-180726-WWDR1.5RUD-F2",
   "data/IMG-VV-ALOS2225333100-180726-WWDR1.5RUD"
  ],
  {},
  [
   [
    "Path.is_file",
    "<ROOT>/data/IMG-HH-ALOS2225333100-180726-WWDR1.5RUD"
   ],
   [
    "Path.stat",
    "<ROOT>/data/IMG-HH-ALOS2225333100-180726-WWDR1.5RUD"
   ],
   [
    "Path.is_dir",
    "<ROOT>/nowhere"
   ],
   [
    "Path.stat",
    "<ROOT>/nowhere"
   ]
  ]
 ],
 "create_cache/root-is-file": [
  [
   "raise",
   "OSError",
   "Cannot find the target cache root: <ROOT>/afile",
   "('Cannot find the target cache root: <ROOT>/afile',)"
  ],
  [
   "afile",
   "blocked/",
   "blocked/IMG-HH-ALOS2225333100-180726-WWDR1.5RUD.index/",
   "cache/",
   "data/",
   "data/IMG-BAD-NAME",
   "data/IMG-HH-ALOS2225333100-180726-WWDR1.5RUD",
   "data/IMG-HV-ALOS2225333100-180726-WWDR1.5RUD",
   "data/IMG-HV-ALOS2225333100-180726-WWDR1.5RUD-F2",
   "data/IMG-VV-ALOS2225333100-180726-WWDR1.5RUD"
  ],
  {},
  [
   [
    "Path.is_file",
    "<ROOT>/data/IMG-HH-ALOS2225333100-180726-WWDR1.5RUD"
   ],
   [
    "Path.stat",
    "<ROOT>/data/IMG-HH-ALOS2225333100-180726-WWDR1.5RUD"
   ],
   [
    "Path.is_dir",
    "<ROOT>/afile"
   ],
   [
    "Path.stat",
    "<ROOT>/afile"
   ]
  ]
 ],
 "create_cache/target-is-dir": [
  [
   "raise",
   "IsADirectoryError",
   "[Errno 21] Is a directory: '<ROOT>/blocked/IMG-HH-ALOS2225333100-180726-WWDR1.5RUD.index'",
   "(21, 'Is a directory')"
  ],
  [
   "afile",
   "blocked/",
   "blocked/IMG-HH-ALOS2225333100-180726-WWDR1.5RUD.index/",
   "cache/",
   "data/",
   "data/IMG-BAD-NAME",
   "data/IMG-HH-ALOS2225333100-180726-WWDR1.5RUD",
   "data/IMG-HV-ALOS2225333100-180726-WWDR1.5RUD",
   "data/IMG-HV-ALOS2225333100-180726-WWDR1.5RUD-F2",
   "data/IMG-VV-ALOS2225333100-180726-WWDR1.5RUD"
  ],
  {},
  [
   [
    "Path.is_file",
    "<ROOT>/data/IMG-HH-ALOS2225333100-180726-WWDR1.5RUD"
   ],
   [
    "Path.stat",
    "<ROOT>/data/IMG-HH-ALOS2225333100-180726-WWDR1.5RUD"
   ],
   [
    "Path.is_dir",
    "<ROOT>/blocked"
   ],
   [
    "Path.stat",
    "<ROOT>/blocked"
   ],
   [
    "fsspec.get_mapper",
    "('<URI>/data',)",
    "{}"
   ],
   [
    "open_image",
    "FSMap",
    "<ROOT>/data",
    "('IMG-HH-ALOS2225333100-180726-WWDR1.5RUD',)",
    "{'use_cache': False, 'create_cache': False, 'records_per_chunk': 2}"
   ],
   [
    "caching.encode",
    "Group",
    "HH"
   ],
   [
    "Path.write_text",
    "<ROOT>/blocked/IMG-HH-ALOS2225333100-180726-WWDR1.5RUD.index"
   ],
   [
    "Path.open",
    "<ROOT>/blocked/IMG-HH-ALOS2225333100-180726-WWDR1.5RUD.index"
   ]
  ]
 ],
 "create_cache/bad-name": [
  [
   "raise",
   "ValueError",
   "invalid file name: IMG-BAD-NAME",
   "('invalid file name: IMG-BAD-NAME',)"
  ],
  [
   "afile",
   "blocked/",
   "blocked/IMG-HH-ALOS2225333100-180726-WWDR1.5RUD.index/",
   "cache/",
   "data/",
   "data/IMG-BAD-NAME",
   "data/IMG-HH-ALOS2225333100-180726-WWDR1.5RUD",
   "data/IMG-HV-ALOS2225333100-180726-WWDR1.5RUD",
   "data/IMG-HV-ALOS2225333100-180726-WWDR1.5RUD-F2",
   "data/IMG-VV-ALOS2225333100-180726-WWDR1.5RUD"
  ],
  {},
  [
   [
    "Path.is_file",
    "<ROOT>/data/IMG-BAD-NAME"
   ],
   [
    "Path.stat",
    "<ROOT>/data/IMG-BAD-NAME"
   ],
   [
    "fsspec.get_mapper",
    "('<URI>/data',)",
    "{}"
   ],
   [
    "open_image",
    "FSMap",
    "<ROOT>/data",
    "('IMG-BAD-NAME',)",
    "{'use_cache': False, 'create_cache': False, 'records_per_chunk': 2}"
   ]
  ]
 ],
 "create_cache/truncated": [
  [
   "raise",
   "ValueError",
   "sizes mismatch: chunksize is 200 but got 280 bytes",
   "('sizes mismatch: chunksize is 200 but got 280 bytes',)"
  ],
  [
   "afile",
   "blocked/",
   "blocked/IMG-HH-ALOS2225333100-180726-WWDR1.5RUD.index/",
   "cache/",
   "data/",
   "data/IMG-BAD-NAME",
   "data/IMG-HH-ALOS2225333100-180726-WWDR1.5RUD",
   "data/IMG-HV-ALOS2225333100-180726-WWDR1.5RUD",
   "data/IMG-HV-ALOS2225333100-180726-WWDR1.5RUD-F2",
   "data/IMG-VV-ALOS2225333100-180726-WWDR1.5RUD"
  ],
  {},
  [
   [
    "Path.is_file",
    "<ROOT>/data/IMG-HV-ALOS2225333100-180726-WWDR1.5RUD"
   ],
   [
    "Path.stat",
    "<ROOT>/data/IMG-HV-ALOS2225333100-180726-WWDR1.5RUD"
   ],
   [
    "fsspec.get_mapper",
    "('<URI>/data',)",
    "{}"
   ],
   [
    "open_image",
    "FSMap",
    "<ROOT>/data",
    "('IMG-HV-ALOS2225333100-180726-WWDR1.5RUD',)",
    "{'use_cache': False, 'create_cache': False, 'records_per_chunk': 2}"
   ]
  ]
 ],
 "create_cache/empty": [
  [
   "raise",
   "StreamError",
   "Error in path (parsing) -> preamble -> record_sequence_number\nstream read less than specified amount, expected 4, found 0",
   "('Error in path (parsing) -> preamble -> record_sequence_number\\nstream read less than specified amount, expected 4, found 0',)"
  ],
  [
   "afile",
   "blocked/",
   "blocked/IMG-HH-ALOS2225333100-180726-WWDR1.5RUD.index/",
   "cache/",
   "data/",
   "data/IMG-BAD-NAME",
   "data/IMG-HH-ALOS2225333100-180726-WWDR1.5RUD",
   "data/IMG-HV-ALOS2225333100-180726-WWDR1.5RUD",
   "data/IMG-HV-ALOS2225333100-180726-WWDR1.5RUD-F2",
   "data/IMG-VV-ALOS2225333100-180726-WWDR1.5RUD"
  ],
  {},
  [
   [
    "Path.is_file",
    "<ROOT>/data/IMG-VV-ALOS2225333100-180726-WWDR1.5RUD"
   ],
   [
    "Path.stat",
    "<ROOT>/data/IMG-VV-ALOS2225333100-180726-WWDR1.5RUD"
   ],
   [
    "fsspec.get_mapper",
    "('<URI>/data',)",
    "{}"
   ],
   [
    "open_image",
    "FSMap",
    "<ROOT>/data",
    "('IMG-VV-ALOS2225333100-180726-WWDR1.5RUD',)",
    "{'use_cache': False, 'create_cache': False, 'records_per_chunk': 2}"
   ]
  ]
 ],
 "create_cache/relative-image": [
  [
   "raise",
   "ValueError",
   "relative path can't be expressed as a file URI",
   "(\"relative path can't be expressed as a file URI\",)"
  ],
  [
   "afile",
   "blocked/",
   "blocked/IMG-HH-ALOS2225333100-180726-WWDR1.5RUD.index/",
   "cache/",
   "data/",
   "data/IMG-BAD-NAME",
   "data/IMG-HH-ALOS2225333100-180726-WWDR1.5RUD",
   "data/IMG-HV-ALOS2225333100-180726-WWDR1.5RUD",
   "data/IMG-HV-ALOS2225333100-180726-WWDR1.5RUD-F2",
   "data/IMG-VV-ALOS2225333100-180726-WWDR1.5RUD"
  ],
  {},
  [
   [
    "Path.is_file",
    "data/IMG-HH-ALOS2225333100-180726-WWDR1.5RUD"
   ],
   [
    "Path.stat",
    "data/IMG-HH-ALOS2225333100-180726-WWDR1.5RUD"
   ]
  ]
 ],
 "create_cache/str-image": [
  [
   "raise",
   "AttributeError",
   "'str' object has no attribute 'is_file'",
   "(\"'str' object has no attribute 'is_file'\",)"
  ],
  [
   "afile",
   "blocked/",
   "blocked/IMG-HH-ALOS2225333100-180726-WWDR1.5RUD.index/",
   "cache/",
   "data/",
   "data/IMG-BAD-NAME",
   "data/IMG-HH-ALOS2225333100-180726-WWDR1.5RUD",
   "data/IMG-HV-ALOS2225333100-180726-WWDR1.5RUD",
   "data/IMG-HV-ALOS2225333100-180726-WWDR1.5RUD-F2",
   "data/IMG-VV-ALOS2225333100-180726-WWDR1.5RUD"
  ],
  {},
  []
 ],
 "create_cache/str-root": [
  [
   "raise",
   "AttributeError",
   "'str' object has no attribute 'is_dir'",
   "(\"'str' object has no attribute 'is_dir'\",)"
  ],
  [
   "afile",
   "blocked/",
   "blocked/IMG-HH-ALOS2225333100-180726-WWDR1.5RUD.index/",
   "cache/",
   "data/",
   "data/IMG-BAD-NAME",
   "data/IMG-HH-ALOS2225333100-180726-WWDR1.5RUD",
   "data/IMG-HV-ALOS2225333100-180726-WWDR1.5RUD",
   "data/IMG-HV-ALOS2225333100-180726-WWDR1.5RUD-F2",
   "data/IMG-VV-ALOS2225333100-180726-WWDR1.5RUD"
  ],
  {},
  [
   [
    "Path.is_file",
    "<ROOT>/data/IMG-HH-ALOS2225333100-180726-WWDR1.5RUD"
   ],
   [
    "Path.stat",
    "<ROOT>/data/IMG-HH-ALOS2225333100-180726-WWDR1.5RUD"
   ]
  ]
 ],
 "create_cache/pure-path": [
  [
   "raise",
   "AttributeError",
   "'PurePosixPath' object has no attribute 'is_file'",
   "(\"'PurePosixPath' object has no attribute 'is_file'\",)"
  ],
  [
   "afile",
   "blocked/",
   "blocked/IMG-HH-ALOS2225333100-180726-WWDR1.5RUD.index/",
   "cache/",
   "data/",
   "data/IMG-BAD-NAME",
   "data/IMG-HH-ALOS2225333100-180726-WWDR1.5RUD",
   "data/IMG-HV-ALOS2225333100-180726-WWDR1.5RUD",
   "data/IMG-HV-ALOS2225333100-180726-WWDR1.5RUD-F2",
   "data/IMG-VV-ALOS2225333100-180726-WWDR1.5RUD"
  ],
  {},
  []
 ],
 "create_cache/positional": [
  [
   "return",
   "None"
  ],
  [
   "return",
   "None"
  ],
  [
   "raise",
   "TypeError",
   "create_cache() missing 1 required positional argument: 'records_per_chunk'",
   "(\"create_cache() missing 1 required positional argument: 'records_per_chunk'\",)"
  ],
  [
   "afile",
   "blocked/",
   "blocked/IMG-HH-ALOS2225333100-180726-WWDR1.5RUD.index/",
   "cache/",
   "cache/IMG-HH-ALOS2225333100-180726-WWDR1.5RUD.index",
   "data/",
   "data/IMG-BAD-NAME",
   "data/IMG-HH-ALOS2225333100-180726-WWDR1.5RUD",
   "data/IMG-HH-ALOS2225333100-180726-WWDR1.5RUD.index",
   "data/IMG-HV-ALOS2225333100-180726-WWDR1.5RUD",
   "data/IMG-HV-ALOS2225333100-180726-WWDR1.5RUD-F2",
   "data/IMG-VV-ALOS2225333100-180726-WWDR1.5RUD"
  ]
 ],
 "content": "{\"__type__\": \"group\", \"url\": null, \"data\": {\"rows\": {\"__type__\": \"variable\", \"dims\": [\"rows\"], \"data\": {\"__type__\": \"array\", \"dtype\": \"int64\", \"data\": [1, 2, 3, 4, 5], \"encoding\": {}}, \"attrs\": {}}, \"sensor_acquisition_date\": {\"__type__\": \"variable\", \"dims\": [\"rows\"], \"data\": {\"__type__\": \"array\", \"dtype\": \"datetime64[ns]\", \"data\": [0, 1000000000, 2000000000, 3000000000, 4000000000], \"encoding\": {\"reference\": \"2020-02-01T00:00:00.000000000\", \"units\": \"ns\"}}, \"attrs\": {}}, \"prf\": {\"__type__\": \"variable\", \"dims\": [\"rows\"], \"data\": {\"__type__\": \"array\", \"dtype\": \"int64\", \"data\": [0, 0, 0, 0, 0], \"encoding\": {}}, \"attrs\": {\"units\": \"mHz\"}}, \"slant_range_to_first_pixel\": {\"__type__\": \"variable\", \"dims\": [\"rows\"], \"data\": {\"__type__\": \"array\", \"dtype\": \"int64\", \"data\": [0, 0, 0, 0, 0], \"encoding\": {}}, \"attrs\": {\"units\": \"m\"}}, \"slant_range_to_mid_pixel\": {\"__type__\": \"variable\", \"dims\": [\"rows\"], \"data\": {\"__type__\": \"array\", \"dtype\": \"int64\", \"data\": [0, 0, 0, 0, 0], \"encoding\": {}}, \"attrs\": {\"units\": \"m\"}}, \"slant_range_to_last_pixel\": {\"__type__\": \"variable\", \"dims\": [\"rows\"], \"data\": {\"__type__\": \"array\", \"dtype\": \"int64\", \"data\": [0, 0, 0, 0, 0], \"encoding\": {}}, \"attrs\": {\"units\": \"m\"}}, \"doppler_centroid_value_at_first_pixel\": {\"__type__\": \"variable\", \"dims\": [\"rows\"], \"data\": {\"__type__\": \"array\", \"dtype\": \"float64\", \"data\": [0.0, 0.0, 0.0, 0.0, 0.0], \"encoding\": {}}, \"attrs\": {\"units\": \"Hz\"}}, \"doppler_centroid_value_at_mid_pixel\": {\"__type__\": \"variable\", \"dims\": [\"rows\"], \"data\": {\"__type__\": \"array\", \"dtype\": \"float64\", \"data\": [0.0, 0.0, 0.0, 0.0, 0.0], \"encoding\": {}}, \"attrs\": {\"units\": \"Hz\"}}, \"doppler_centroid_value_at_last_pixel\": {\"__type__\": \"variable\", \"dims\": [\"rows\"], \"data\": {\"__type__\": \"array\", \"dtype\": \"float64\", \"data\": [0.0, 0.0, 0.0, 0.0, 0.0], \"encoding\": {}}, \"attrs\": {\"units\": \"Hz\"}}, \"azimuth_fm_rate_of_first_pixel\": {\"__type__\": \"variable\", \"dims\": [\"rows\"], \"data\": {\"__type__\": \"array\", \"dtype\": \"int64\", \"data\": [0, 0, 0, 0, 0], \"encoding\": {}}, \"attrs\": {\"units\": \"Hz/ms\"}}, \"azimuth_fm_rate_of_mid_pixel\": {\"__type__\": \"variable\", \"dims\": [\"rows\"], \"data\": {\"__type__\": \"array\", \"dtype\": \"int64\", \"data\": [0, 0, 0, 0, 0], \"encoding\": {}}, \"attrs\": {\"units\": \"Hz/ms\"}}, \"azimuth_fm_rate_of_last_pixel\": {\"__type__\": \"variable\", \"dims\": [\"rows\"], \"data\": {\"__type__\": \"array\", \"dtype\": \"int64\", \"data\": [0, 0, 0, 0, 0], \"encoding\": {}}, \"attrs\": {\"units\": \"Hz/ms\"}}, \"look_angle_of_nadir\": {\"__type__\": \"variable\", \"dims\": [\"rows\"], \"data\": {\"__type__\": \"array\", \"dtype\": \"float64\", \"data\": [0.0, 0.0, 0.0, 0.0, 0.0], \"encoding\": {}}, \"attrs\": {\"units\": \"deg\"}}, \"azimuth_squint_angle\": {\"__type__\": \"variable\", \"dims\": [\"rows\"], \"data\": {\"__type__\": \"array\", \"dtype\": \"float64\", \"data\": [0.0, 0.0, 0.0, 0.0, 0.0], \"encoding\": {}}, \"attrs\": {\"units\": \"deg\"}}, \"latitude_of_first_pixel\": {\"__type__\": \"variable\", \"dims\": [\"rows\"], \"data\": {\"__type__\": \"array\", \"dtype\": \"float64\", \"data\": [0.0, 0.0, 0.0, 0.0, 0.0], \"encoding\": {}}, \"attrs\": {\"units\": \"deg\"}}, \"latitude_of_center_pixel\": {\"__type__\": \"variable\", \"dims\": [\"rows\"], \"data\": {\"__type__\": \"array\", \"dtype\": \"float64\", \"data\": [0.0, 0.0, 0.0, 0.0, 0.0], \"encoding\": {}}, \"attrs\": {\"units\": \"deg\"}}, \"latitude_of_last_pixel\": {\"__type__\": \"variable\", \"dims\": [\"rows\"], \"data\": {\"__type__\": \"array\", \"dtype\": \"float64\", \"data\": [0.0, 0.0, 0.0, 0.0, 0.0], \"encoding\": {}}, \"attrs\": {\"units\": \"deg\"}}, \"longitude_of_first_pixel\": {\"__type__\": \"variable\", \"dims\": [\"rows\"], \"data\": {\"__type__\": \"array\", \"dtype\": \"float64\", \"data\": [0.0, 0.0, 0.0, 0.0, 0.0], \"encoding\": {}}, \"attrs\": {\"units\": \"deg\"}}, \"longitude_of_center_pixel\": {\"__type__\": \"variable\", \"dims\": [\"rows\"], \"data\": {\"__type__\": \"array\", \"dtype\": \"float64\", \"data\": [0.0, 0.0, 0.0, 0.0, 0.0], \"encoding\": {}}, \"attrs\": {\"units\": \"deg\"}}, \"longitude_of_last_pixel\": {\"__type__\": \"variable\", \"dims\": [\"rows\"], \"data\": {\"__type__\": \"array\", \"dtype\": \"float64\", \"data\": [0.0, 0.0, 0.0, 0.0, 0.0], \"encoding\": {}}, \"attrs\": {\"units\": \"deg\"}}, \"northing_of_first_pixel\": {\"__type__\": \"variable\", \"dims\": [\"rows\"], \"data\": {\"__type__\": \"array\", \"dtype\": \"int64\", \"data\": [0, 0, 0, 0, 0], \"encoding\": {}}, \"attrs\": {\"units\": \"m\"}}, \"northing_of_last_pixel\": {\"__type__\": \"variable\", \"dims\": [\"rows\"], \"data\": {\"__type__\": \"array\", \"dtype\": \"int64\", \"data\": [0, 0, 0, 0, 0], \"encoding\": {}}, \"attrs\": {\"units\": \"m\"}}, \"easting_of_first_pixel\": {\"__type__\": \"variable\", \"dims\": [\"rows\"], \"data\": {\"__type__\": \"array\", \"dtype\": \"int64\", \"data\": [0, 0, 0, 0, 0], \"encoding\": {}}, \"attrs\": {\"units\": \"m\"}}, \"easting_of_last_pixel\": {\"__type__\": \"variable\", \"dims\": [\"rows\"], \"data\": {\"__type__\": \"array\", \"dtype\": \"int64\", \"data\": [0, 0, 0, 0, 0], \"encoding\": {}}, \"attrs\": {\"units\": \"m\"}}, \"line_heading\": {\"__type__\": \"variable\", \"dims\": [\"rows\"], \"data\": {\"__type__\": \"array\", \"dtype\": \"float64\", \"data\": [0.0, 0.0, 0.0, 0.0, 0.0], \"encoding\": {}}, \"attrs\": {\"units\": \"deg\"}}, \"data\": {\"__type__\": \"variable\", \"dims\": [\"rows\", \"columns\"], \"data\": {\"__type__\": \"backend_array\", \"root\": \"<ROOT>/data\", \"url\": \"IMG-HH-ALOS2225333100-180726-WWDR1.5RUD\", \"shape\": {\"__type__\": \"tuple\", \"data\": [5, 4]}, \"dtype\": \"uint16\", \"byte_ranges\": [{\"__type__\": \"tuple\", \"data\": [912, 920]}, {\"__type__\": \"tuple\", \"data\": [1112, 1120]}, {\"__type__\": \"tuple\", \"data\": [1312, 1320]}, {\"__type__\": \"tuple\", \"data\": [1512, 1520]}, {\"__type__\": \"tuple\", \"data\": [1712, 1720]}], \"type_code\": \"IU2\"}, \"attrs\": {}}}, \"path\": \"HH\", \"attrs\": {\"sar_image_data_record_index\": 1, \"sensor_parameters_update_flag\": 1, \"sar_channel_id\": 0, \"sar_channel_code\": \"L\", \"transmitted_pulse_polarization\": \"horizontal\", \"received_pulse_polarization\": \"horizontal\", \"scan_id\": 0, \"geographic_reference_parameter_update_flag\": 0, \"interleaving_id\": \"BSQ\", \"valid_range\": [0, 65535], \"coordinates\": [\"rows\", \"sensor_acquisition_date\", \"prf\", \"slant_range_to_first_pixel\", \"slant_range_to_mid_pixel\", \"slant_range_to_last_pixel\", \"doppler_centroid_value_at_first_pixel\", \"doppler_centroid_value_at_mid_pixel\", \"doppler_centroid_value_at_last_pixel\", \"azimuth_fm_rate_of_first_pixel\", \"azimuth_fm_rate_of_mid_pixel\", \"azimuth_fm_rate_of_last_pixel\", \"look_angle_of_nadir\", \"azimuth_squint_angle\", \"latitude_of_first_pixel\", \"latitude_of_center_pixel\", \"latitude_of_last_pixel\", \"longitude_of_first_pixel\", \"longitude_of_center_pixel\", \"longitude_of_last_pixel\", \"northing_of_first_pixel\", \"northing_of_last_pixel\", \"easting_of_first_pixel\", \"easting_of_last_pixel\", \"line_heading\"]}}",
 "main/defaults": [
  [
   [
    "return",
    "None"
   ],
   "",
   ""
  ],
  {
   "data/IMG-HH-ALOS2225333100-180726-WWDR1.5RUD.index": [
    6520,
    "e16211ff9753030dc663c7f2b542ee3c6decc4a250df9675cfe661f218ebdb6b"
   ]
  },
  [
   [
    "Path.is_file",
    "<ROOT>/data/IMG-HH-ALOS2225333100-180726-WWDR1.5RUD"
   ],
   [
    "Path.stat",
    "<ROOT>/data/IMG-HH-ALOS2225333100-180726-WWDR1.5RUD"
   ],
   [
    "fsspec.get_mapper",
    "('<URI>/data',)",
    "{}"
   ],
   [
    "open_image",
    "FSMap",
    "<ROOT>/data",
    "('IMG-HH-ALOS2225333100-180726-WWDR1.5RUD',)",
    "{'use_cache': False, 'create_cache': False, 'records_per_chunk': 4096}"
   ],
   [
    "caching.encode",
    "Group",
    "HH"
   ],
   [
    "Path.write_text",
    "<ROOT>/data/IMG-HH-ALOS2225333100-180726-WWDR1.5RUD.index"
   ],
   [
    "Path.open",
    "<ROOT>/data/IMG-HH-ALOS2225333100-180726-WWDR1.5RUD.index"
   ]
  ]
 ],
 "main/rpc": [
  [
   [
    "return",
    "None"
   ],
   "",
   ""
  ],
  {
   "data/IMG-HH-ALOS2225333100-180726-WWDR1.5RUD.index": [
    6520,
    "e16211ff9753030dc663c7f2b542ee3c6decc4a250df9675cfe661f218ebdb6b"
   ]
  },
  [
   [
    "Path.is_file",
    "<ROOT>/data/IMG-HH-ALOS2225333100-180726-WWDR1.5RUD"
   ],
   [
    "Path.stat",
    "<ROOT>/data/IMG-HH-ALOS2225333100-180726-WWDR1.5RUD"
   ],
   [
    "fsspec.get_mapper",
    "('<URI>/data',)",
    "{}"
   ],
   [
    "open_image",
    "FSMap",
    "<ROOT>/data",
    "('IMG-HH-ALOS2225333100-180726-WWDR1.5RUD',)",
    "{'use_cache': False, 'create_cache': False, 'records_per_chunk': 2}"
   ],
   [
    "caching.encode",
    "Group",
    "HH"
   ],
   [
    "Path.write_text",
    "<ROOT>/data/IMG-HH-ALOS2225333100-180726-WWDR1.5RUD.index"
   ],
   [
    "Path.open",
    "<ROOT>/data/IMG-HH-ALOS2225333100-180726-WWDR1.5RUD.index"
   ]
  ]
 ],
 "main/rpc-equals": [
  [
   [
    "return",
    "None"
   ],
   "",
   ""
  ],
  {
   "cache/IMG-HV-ALOS2225333100-180726-WWDR1.5RUD-F2.index": [
    6835,
    "52a3c856b51ba6b6f25fd8ed736dd66400174ecbf25a7d93d04a3a92d6083b45"
   ]
  },
  [
   [
    "Path.is_file",
    "<ROOT>/data/IMG-HV-ALOS2225333100-180726-WWDR1.5RUD-F2"
   ],
   [
    "Path.stat",
    "<ROOT>/data/IMG-HV-ALOS2225333100-180726-WWDR1.5RUD-F2"
   ],
   [
    "Path.is_dir",
    "<ROOT>/cache"
   ],
   [
    "Path.stat",
    "<ROOT>/cache"
   ],
   [
    "fsspec.get_mapper",
    "('<URI>/data',)",
    "{}"
   ],
   [
    "open_image",
    "FSMap",
    "<ROOT>/data",
    "('IMG-HV-ALOS2225333100-180726-WWDR1.5RUD-F2',)",
    "{'use_cache': False, 'create_cache': False, 'records_per_chunk': 3}"
   ],
   [
    "caching.encode",
    "Group",
    "HV_scan2"
   ],
   [
    "Path.write_text",
    "<ROOT>/cache/IMG-HV-ALOS2225333100-180726-WWDR1.5RUD-F2.index"
   ],
   [
    "Path.open",
    "<ROOT>/cache/IMG-HV-ALOS2225333100-180726-WWDR1.5RUD-F2.index"
   ]
  ]
 ],
 "main/rpc-bare": [
  [
   [
    "raise",
    "TypeError",
    "unsupported operand type(s) for /: 'int' and 'NoneType'"
   ],
   "",
   ""
  ],
  {},
  [
   [
    "Path.is_file",
    "<ROOT>/data/IMG-HH-ALOS2225333100-180726-WWDR1.5RUD"
   ],
   [
    "Path.stat",
    "<ROOT>/data/IMG-HH-ALOS2225333100-180726-WWDR1.5RUD"
   ],
   [
    "fsspec.get_mapper",
    "('<URI>/data',)",
    "{}"
   ],
   [
    "open_image",
    "FSMap",
    "<ROOT>/data",
    "('IMG-HH-ALOS2225333100-180726-WWDR1.5RUD',)",
    "{'use_cache': False, 'create_cache': False, 'records_per_chunk': None}"
   ]
  ]
 ],
 "main/rpc-after": [
  [
   [
    "return",
    "None"
   ],
   "",
   ""
  ],
  {
   "cache/IMG-HH-ALOS2225333100-180726-WWDR1.5RUD.index": [
    6520,
    "e16211ff9753030dc663c7f2b542ee3c6decc4a250df9675cfe661f218ebdb6b"
   ]
  },
  [
   [
    "Path.is_file",
    "<ROOT>/data/IMG-HH-ALOS2225333100-180726-WWDR1.5RUD"
   ],
   [
    "Path.stat",
    "<ROOT>/data/IMG-HH-ALOS2225333100-180726-WWDR1.5RUD"
   ],
   [
    "Path.is_dir",
    "<ROOT>/cache"
   ],
   [
    "Path.stat",
    "<ROOT>/cache"
   ],
   [
    "fsspec.get_mapper",
    "('<URI>/data',)",
    "{}"
   ],
   [
    "open_image",
    "FSMap",
    "<ROOT>/data",
    "('IMG-HH-ALOS2225333100-180726-WWDR1.5RUD',)",
    "{'use_cache': False, 'create_cache': False, 'records_per_chunk': 1}"
   ],
   [
    "caching.encode",
    "Group",
    "HH"
   ],
   [
    "Path.write_text",
    "<ROOT>/cache/IMG-HH-ALOS2225333100-180726-WWDR1.5RUD.index"
   ],
   [
    "Path.open",
    "<ROOT>/cache/IMG-HH-ALOS2225333100-180726-WWDR1.5RUD.index"
   ]
  ]
 ],
 "main/rpc-invalid": [
  [
   [
    "exit",
    "2"
   ],
   "",
   "usage: ceos-alos2-create-cache [-h] [--rpc [RPC]] image_path [cache_root]\nceos-alos2-create-cache: error: argument --rpc: invalid int value: 'two'\n"
  ],
  {},
  []
 ],
 "main/rpc-negative": [
  [
   [
    "return",
    "None"
   ],
   "",
   ""
  ],
  {
   "data/IMG-HH-ALOS2225333100-180726-WWDR1.5RUD.index": [
    435,
    "06224102c7f8f17f5bec1ecf660e02d41fab75d0681c8f2e05067f836fcbe975"
   ]
  },
  [
   [
    "Path.is_file",
    "<ROOT>/data/IMG-HH-ALOS2225333100-180726-WWDR1.5RUD"
   ],
   [
    "Path.stat",
    "<ROOT>/data/IMG-HH-ALOS2225333100-180726-WWDR1.5RUD"
   ],
   [
    "fsspec.get_mapper",
    "('<URI>/data',)",
    "{}"
   ],
   [
    "open_image",
    "FSMap",
    "<ROOT>/data",
    "('IMG-HH-ALOS2225333100-180726-WWDR1.5RUD',)",
    "{'use_cache': False, 'create_cache': False, 'records_per_chunk': -1}"
   ],
   [
    "caching.encode",
    "Group",
    "HH"
   ],
   [
    "Path.write_text",
    "<ROOT>/data/IMG-HH-ALOS2225333100-180726-WWDR1.5RUD.index"
   ],
   [
    "Path.open",
    "<ROOT>/data/IMG-HH-ALOS2225333100-180726-WWDR1.5RUD.index"
   ]
  ]
 ],
 "main/rpc-zero": [
  [
   [
    "raise",
    "ZeroDivisionError",
    "division by zero"
   ],
   "",
   ""
  ],
  {},
  [
   [
    "Path.is_file",
    "<ROOT>/data/IMG-HH-ALOS2225333100-180726-WWDR1.5RUD"
   ],
   [
    "Path.stat",
    "<ROOT>/data/IMG-HH-ALOS2225333100-180726-WWDR1.5RUD"
   ],
   [
    "fsspec.get_mapper",
    "('<URI>/data',)",
    "{}"
   ],
   [
    "open_image",
    "FSMap",
    "<ROOT>/data",
    "('IMG-HH-ALOS2225333100-180726-WWDR1.5RUD',)",
    "{'use_cache': False, 'create_cache': False, 'records_per_chunk': 0}"
   ]
  ]
 ],
 "main/no-args": [
  [
   [
    "exit",
    "2"
   ],
   "",
   "usage: ceos-alos2-create-cache [-h] [--rpc [RPC]] image_path [cache_root]\nceos-alos2-create-cache: error: the following arguments are required: image_path\n"
  ],
  {},
  []
 ],
 "main/too-many": [
  [
   [
    "exit",
    "2"
   ],
   "",
   "usage: ceos-alos2-create-cache [-h] [--rpc [RPC]] image_path [cache_root]\nceos-alos2-create-cache: error: unrecognized arguments: <ROOT>/cache\n"
  ],
  {},
  []
 ],
 "main/unknown-option": [
  [
   [
    "exit",
    "2"
   ],
   "",
   "usage: ceos-alos2-create-cache [-h] [--rpc [RPC]] image_path [cache_root]\nceos-alos2-create-cache: error: unrecognized arguments: --records\n"
  ],
  {},
  []
 ],
 "main/help": [
  [
   [
    "exit",
    "0"
   ],
   "usage: ceos-alos2-create-cache [-h] [--rpc [RPC]] image_path [cache_root]\n\npositional arguments:\n  image_path   image path to create a cache file for\n  cache_root   Root path to the new cache file. By default, it is created in\n               the same directory as the image file.\n\noptions:\n  -h, --help   show this help message and exit\n  --rpc [RPC]  records-per-chunk size used to create the cache files\n",
   ""
  ],
  {},
  []
 ],
 "main/help-short": [
  [
   [
    "exit",
    "0"
   ],
   "usage: ceos-alos2-create-cache [-h] [--rpc [RPC]] image_path [cache_root]\n\npositional arguments:\n  image_path   image path to create a cache file for\n  cache_root   Root path to the new cache file. By default, it is created in\n               the same directory as the image file.\n\noptions:\n  -h, --help   show this help message and exit\n  --rpc [RPC]  records-per-chunk size used to create the cache files\n",
   ""
  ],
  {},
  []
 ],
 "main/missing-image": [
  [
   [
    "exit",
    "1"
   ],
   "",
   "Cannot find image file at given path: <ROOT>/data/nothing\n"
  ],
  {},
  [
   [
    "Path.is_file",
    "<ROOT>/data/nothing"
   ],
   [
    "Path.stat",
    "<ROOT>/data/nothing"
   ]
  ]
 ],
 "main/missing-root": [
  [
   [
    "exit",
    "1"
   ],
   "",
   "Cannot find the target cache root: <ROOT>/nowhere\n"
  ],
  {},
  [
   [
    "Path.is_file",
    "<ROOT>/data/IMG-HH-ALOS2225333100-180726-WWDR1.5RUD"
   ],
   [
    "Path.stat",
    "<ROOT>/data/IMG-HH-ALOS2225333100-180726-WWDR1.5RUD"
   ],
   [
    "Path.is_dir",
    "<ROOT>/nowhere"
   ],
   [
    "Path.stat",
    "<ROOT>/nowhere"
   ]
  ]
 ],
 "main/root-is-file": [
  [
   [
    "exit",
    "1"
   ],
   "",
   "Cannot find the target cache root: <ROOT>/afile\n"
  ],
  {},
  [
   [
    "Path.is_file",
    "<ROOT>/data/IMG-HH-ALOS2225333100-180726-WWDR1.5RUD"
   ],
   [
    "Path.stat",
    "<ROOT>/data/IMG-HH-ALOS2225333100-180726-WWDR1.5RUD"
   ],
   [
    "Path.is_dir",
    "<ROOT>/afile"
   ],
   [
    "Path.stat",
    "<ROOT>/afile"
   ]
  ]
 ],
 "main/image-is-dir": [
  [
   [
    "exit",
    "1"
   ],
   "",
   "Cannot find image file at given path: <ROOT>/data\n"
  ],
  {},
  [
   [
    "Path.is_file",
    "<ROOT>/data"
   ],
   [
    "Path.stat",
    "<ROOT>/data"
   ]
  ]
 ],
 "main/bad-name": [
  [
   [
    "raise",
    "ValueError",
    "invalid file name: IMG-BAD-NAME"
   ],
   "",
   ""
  ],
  {},
  [
   [
    "Path.is_file",
    "<ROOT>/data/IMG-BAD-NAME"
   ],
   [
    "Path.stat",
    "<ROOT>/data/IMG-BAD-NAME"
   ],
   [
    "fsspec.get_mapper",
    "('<URI>/data',)",
    "{}"
   ],
   [
    "open_image",
    "FSMap",
    "<ROOT>/data",
    "('IMG-BAD-NAME',)",
    "{'use_cache': False, 'create_cache': False, 'records_per_chunk': 4096}"
   ]
  ]
 ],
 "main/empty-file": [
  [
   [
    "raise",
    "StreamError",
    "Error in path (parsing) -> preamble -> record_sequence_number\nstream read less than specified amount, expected 4, found 0"
   ],
   "",
   ""
  ],
  {},
  [
   [
    "Path.is_file",
    "<ROOT>/data/IMG-VV-ALOS2225333100-180726-WWDR1.5RUD"
   ],
   [
    "Path.stat",
    "<ROOT>/data/IMG-VV-ALOS2225333100-180726-WWDR1.5RUD"
   ],
   [
    "fsspec.get_mapper",
    "('<URI>/data',)",
    "{}"
   ],
   [
    "open_image",
    "FSMap",
    "<ROOT>/data",
    "('IMG-VV-ALOS2225333100-180726-WWDR1.5RUD',)",
    "{'use_cache': False, 'create_cache': False, 'records_per_chunk': 4096}"
   ]
  ]
 ],
 "main/target-is-dir": [
  [
   [
    "exit",
    "1"
   ],
   "",
   "21\n"
  ],
  {},
  [
   [
    "Path.is_file",
    "<ROOT>/data/IMG-HH-ALOS2225333100-180726-WWDR1.5RUD"
   ],
   [
    "Path.stat",
    "<ROOT>/data/IMG-HH-ALOS2225333100-180726-WWDR1.5RUD"
   ],
   [
    "Path.is_dir",
    "<ROOT>/blocked"
   ],
   [
    "Path.stat",
    "<ROOT>/blocked"
   ],
   [
    "fsspec.get_mapper",
    "('<URI>/data',)",
    "{}"
   ],
   [
    "open_image",
    "FSMap",
    "<ROOT>/data",
    "('IMG-HH-ALOS2225333100-180726-WWDR1.5RUD',)",
    "{'use_cache': False, 'create_cache': False, 'records_per_chunk': 4096}"
   ],
   [
    "caching.encode",
    "Group",
    "HH"
   ],
   [
    "Path.write_text",
    "<ROOT>/blocked/IMG-HH-ALOS2225333100-180726-WWDR1.5RUD.index"
   ],
   [
    "Path.open",
    "<ROOT>/blocked/IMG-HH-ALOS2225333100-180726-WWDR1.5RUD.index"
   ]
  ]
 ],
 "subprocess/ok": [
  0,
  "",
  "",
  [
   "data/IMG-HH-ALOS2225333100-180726-WWDR1.5RUD.index"
  ]
 ],
 "subprocess/fail": [
  1,
  "",
  "Cannot find image file at given path: <ROOT>/x\n",
  [
   "data/IMG-HH-ALOS2225333100-180726-WWDR1.5RUD.index"
  ]
 ],
 "subprocess/help": [
  0,
  "usage: __main__.py [-h] [--rpc [RPC]] image_path [cache_root]\n\npositional arguments:\n  image_path   image path to create a cache file for\n  cache_root   Root path to the new cache file. By default, it is created in\n               the same directory as the image file.\n\noptions:\n  -h, --help   show this help message and exit\n  --rpc [RPC]  records-per-chunk size used to create the cache files\n",
  "",
  [
   "data/IMG-HH-ALOS2225333100-180726-WWDR1.5RUD.index"
  ]
 ],
 "signature": [
  "create_cache",
  [
   "image_path",
   "cache_root",
   "records_per_chunk"
  ],
  0
 ]
}
"""


def test_equivalent():
    expected = json.loads(EXPECTED_JSON)
    observed = json.loads(json.dumps(observe()))
    assert list(observed) == list(expected)
    for key in expected:
        assert observed[key] == expected[key], (key, expected[key], observed[key])


if __name__ == "__main__":
    if "--record" in sys.argv:
        print(json.dumps(observe(), indent=1))
    else:
        test_equivalent()
        print("refactoring 3: OK", cli.__file__)
