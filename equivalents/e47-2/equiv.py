"""Equivalence check for refactoring 2 (``decoders.decode_scene_id`` / ``decode_product_id``).

Run as ``python _eq/2/equiv.py`` (or through pytest).  The expected outcomes below were
recorded from the unchanged code (``python _eq/2/equiv.py --record`` prints them).
"""

import datetime  # noqa: F401
import itertools
import pprint
import sys

from ceos_alos2 import decoders

SCENE_IDS = [
    "ALOS2225333200-180726",
    "ALOS2000000000-000101",
    "ALOS2999999999-991231",
    "AB123000010001-690101",
    "ALOS2225333200-680101",
    "ALOS2225333200-200229",  # leap day
    "ALOS2225333200-190229",  # not a leap year
    "ALOS2225333200-180732",
    "ALOS2225333200-181301",
    "ALOS2225333200-180001",
    "ALOS2225333200-180100",
    "ALOS2225333200-000000",
    "ALOS2xxxxx3200-180726",
    "ALOS2225333200-a87433",
    "ALOS2225333200-987433",
    "alos2225333200-180726",
    "ALOS2225333200_180726",
    "ALOS2225333200-1807261",
    "ALOS2225333200-18072",
    " ALOS2225333200-180726",
    "ALOS2225333200-180726\n",
    "ALOS2225333200-180726-WWDR1.1__D",
    "",
    "WWDR1.1__D",
    None,
    b"ALOS2225333200-180726",
    3,
]

_modes = ["SBS", "UBS", "UBD", "HBS", "HBD", "HBQ", "FBS", "FBD", "FBQ", "WBS", "WBD", "WWS",
          "WWD", "VBS", "VBD"]
PRODUCT_IDS = (
    [f"{mode}R1.1__D" for mode in _modes]
    + [
        f"WWD{direction}{level}{option}{projection}{orbit}"
        for direction, level, option, projection, orbit in itertools.product(
            "LR", ["1.0", "1.5", "3.1"], "GR_", "UPML_", "AD"
        )
    ][::7]
    + [
        # regex matches, but the observation mode is not in the table -> chained error
        "AAAR1.1__D",
        "WWQR1.1__D",
        "SBDL1.5GUA",
        "ZZZL3.1RPA",
        # regex does not match
        "WWDX1.1__D",
        "WWDR2.1__D",
        "WWDR1.2__D",
        "WWDR11.__D",
        "WWDR1.1X_D",
        "WWDR1.1_XD",
        "WWDR1.1__X",
        "wwdr1.1__d",
        "WWDR1.1__D ",
        "WWDR1.1__DA",
        "WWDR1.1__",
        "WDR1.1__D",
        "",
        "ALOS2225333200-180726",
        None,
        b"WWDR1.1__D",
        1.1,
    ]
)


def describe_exception(e):
    if e is None:
        return None
    return (
        type(e).__name__,
        str(e),
        e.__suppress_context__,
        describe_exception(e.__cause__),
    )


def outcome(func, value):
    try:
        result = func(value)
    except Exception as e:  # noqa: BLE001
        return ("raised", describe_exception(e))
    return ("returned", type(result).__name__, repr(list(result.items())))


def compute():
    return {
        "scene_id": [outcome(decoders.decode_scene_id, v) for v in SCENE_IDS],
        "product_id": [outcome(decoders.decode_product_id, v) for v in PRODUCT_IDS],
    }


# BEGIN EXPECTED
EXPECTED = {'product_id': [('returned',
                 'dict',
                 "[('observation_mode', 'spotlight mode'), ('observation_direction', 'right "
                 "looking'), ('processing_level', 'level 1.1'), ('processing_option', 'not "
                 "specified'), ('map_projection', 'not specified'), ('orbit_direction', "
                 "'descending')]"),
                ('returned',
                 'dict',
                 "[('observation_mode', 'ultra-fine mode single polarization'), "
                 "('observation_direction', 'right looking'), ('processing_level', 'level 1.1'), "
                 "('processing_option', 'not specified'), ('map_projection', 'not specified'), "
                 "('orbit_direction', 'descending')]"),
                ('returned',
                 'dict',
                 "[('observation_mode', 'ultra-fine mode dual polarization'), "
                 "('observation_direction', 'right looking'), ('processing_level', 'level 1.1'), "
                 "('processing_option', 'not specified'), ('map_projection', 'not specified'), "
                 "('orbit_direction', 'descending')]"),
                ('returned',
                 'dict',
                 "[('observation_mode', 'high-sensitive mode single polarization'), "
                 "('observation_direction', 'right looking'), ('processing_level', 'level 1.1'), "
                 "('processing_option', 'not specified'), ('map_projection', 'not specified'), "
                 "('orbit_direction', 'descending')]"),
                ('returned',
                 'dict',
                 "[('observation_mode', 'high-sensitive mode dual polarization'), "
                 "('observation_direction', 'right looking'), ('processing_level', 'level 1.1'), "
                 "('processing_option', 'not specified'), ('map_projection', 'not specified'), "
                 "('orbit_direction', 'descending')]"),
                ('returned',
                 'dict',
                 "[('observation_mode', 'high-sensitive mode full (quad.) polarimetry'), "
                 "('observation_direction', 'right looking'), ('processing_level', 'level 1.1'), "
                 "('processing_option', 'not specified'), ('map_projection', 'not specified'), "
                 "('orbit_direction', 'descending')]"),
                ('returned',
                 'dict',
                 "[('observation_mode', 'fine mode single polarization'), "
                 "('observation_direction', 'right looking'), ('processing_level', 'level 1.1'), "
                 "('processing_option', 'not specified'), ('map_projection', 'not specified'), "
                 "('orbit_direction', 'descending')]"),
                ('returned',
                 'dict',
                 "[('observation_mode', 'fine mode dual polarization'), ('observation_direction', "
                 "'right looking'), ('processing_level', 'level 1.1'), ('processing_option', 'not "
                 "specified'), ('map_projection', 'not specified'), ('orbit_direction', "
                 "'descending')]"),
                ('returned',
                 'dict',
                 "[('observation_mode', 'fine mode full (quad.) polarimetry'), "
                 "('observation_direction', 'right looking'), ('processing_level', 'level 1.1'), "
                 "('processing_option', 'not specified'), ('map_projection', 'not specified'), "
                 "('orbit_direction', 'descending')]"),
                ('returned',
                 'dict',
                 "[('observation_mode', 'ScanSAR nominal 14MHz mode single polarization'), "
                 "('observation_direction', 'right looking'), ('processing_level', 'level 1.1'), "
                 "('processing_option', 'not specified'), ('map_projection', 'not specified'), "
                 "('orbit_direction', 'descending')]"),
                ('returned',
                 'dict',
                 "[('observation_mode', 'ScanSAR nominal 14MHz mode dual polarization'), "
                 "('observation_direction', 'right looking'), ('processing_level', 'level 1.1'), "
                 "('processing_option', 'not specified'), ('map_projection', 'not specified'), "
                 "('orbit_direction', 'descending')]"),
                ('returned',
                 'dict',
                 "[('observation_mode', 'ScanSAR nominal 28MHz mode single polarization'), "
                 "('observation_direction', 'right looking'), ('processing_level', 'level 1.1'), "
                 "('processing_option', 'not specified'), ('map_projection', 'not specified'), "
                 "('orbit_direction', 'descending')]"),
                ('returned',
                 'dict',
                 "[('observation_mode', 'ScanSAR nominal 28MHz mode dual polarization'), "
                 "('observation_direction', 'right looking'), ('processing_level', 'level 1.1'), "
                 "('processing_option', 'not specified'), ('map_projection', 'not specified'), "
                 "('orbit_direction', 'descending')]"),
                ('returned',
                 'dict',
                 "[('observation_mode', 'ScanSAR wide mode single polarization'), "
                 "('observation_direction', 'right looking'), ('processing_level', 'level 1.1'), "
                 "('processing_option', 'not specified'), ('map_projection', 'not specified'), "
                 "('orbit_direction', 'descending')]"),
                ('returned',
                 'dict',
                 "[('observation_mode', 'ScanSAR wide mode dual polarization'), "
                 "('observation_direction', 'right looking'), ('processing_level', 'level 1.1'), "
                 "('processing_option', 'not specified'), ('map_projection', 'not specified'), "
                 "('orbit_direction', 'descending')]"),
                ('returned',
                 'dict',
                 "[('observation_mode', 'ScanSAR nominal 28MHz mode dual polarization'), "
                 "('observation_direction', 'left looking'), ('processing_level', 'level 1.0'), "
                 "('processing_option', 'geo-code'), ('map_projection', 'UTM'), "
                 "('orbit_direction', 'ascending')]"),
                ('returned',
                 'dict',
                 "[('observation_mode', 'ScanSAR nominal 28MHz mode dual polarization'), "
                 "('observation_direction', 'left looking'), ('processing_level', 'level 1.0'), "
                 "('processing_option', 'geo-code'), ('map_projection', 'LCC'), "
                 "('orbit_direction', 'descending')]"),
                ('returned',
                 'dict',
                 "[('observation_mode', 'ScanSAR nominal 28MHz mode dual polarization'), "
                 "('observation_direction', 'left looking'), ('processing_level', 'level 1.0'), "
                 "('processing_option', 'geo-reference'), ('map_projection', 'MER'), "
                 "('orbit_direction', 'ascending')]"),
                ('returned',
                 'dict',
                 "[('observation_mode', 'ScanSAR nominal 28MHz mode dual polarization'), "
                 "('observation_direction', 'left looking'), ('processing_level', 'level 1.0'), "
                 "('processing_option', 'not specified'), ('map_projection', 'UTM'), "
                 "('orbit_direction', 'descending')]"),
                ('returned',
                 'dict',
                 "[('observation_mode', 'ScanSAR nominal 28MHz mode dual polarization'), "
                 "('observation_direction', 'left looking'), ('processing_level', 'level 1.0'), "
                 "('processing_option', 'not specified'), ('map_projection', 'not specified'), "
                 "('orbit_direction', 'ascending')]"),
                ('returned',
                 'dict',
                 "[('observation_mode', 'ScanSAR nominal 28MHz mode dual polarization'), "
                 "('observation_direction', 'left looking'), ('processing_level', 'level 1.5'), "
                 "('processing_option', 'geo-code'), ('map_projection', 'MER'), "
                 "('orbit_direction', 'descending')]"),
                ('returned',
                 'dict',
                 "[('observation_mode', 'ScanSAR nominal 28MHz mode dual polarization'), "
                 "('observation_direction', 'left looking'), ('processing_level', 'level 1.5'), "
                 "('processing_option', 'geo-reference'), ('map_projection', 'PS'), "
                 "('orbit_direction', 'ascending')]"),
                ('returned',
                 'dict',
                 "[('observation_mode', 'ScanSAR nominal 28MHz mode dual polarization'), "
                 "('observation_direction', 'left looking'), ('processing_level', 'level 1.5'), "
                 "('processing_option', 'geo-reference'), ('map_projection', 'not specified'), "
                 "('orbit_direction', 'descending')]"),
                ('returned',
                 'dict',
                 "[('observation_mode', 'ScanSAR nominal 28MHz mode dual polarization'), "
                 "('observation_direction', 'left looking'), ('processing_level', 'level 1.5'), "
                 "('processing_option', 'not specified'), ('map_projection', 'LCC'), "
                 "('orbit_direction', 'ascending')]"),
                ('returned',
                 'dict',
                 "[('observation_mode', 'ScanSAR nominal 28MHz mode dual polarization'), "
                 "('observation_direction', 'left looking'), ('processing_level', 'level 3.1'), "
                 "('processing_option', 'geo-code'), ('map_projection', 'PS'), ('orbit_direction', "
                 "'descending')]"),
                ('returned',
                 'dict',
                 "[('observation_mode', 'ScanSAR nominal 28MHz mode dual polarization'), "
                 "('observation_direction', 'left looking'), ('processing_level', 'level 3.1'), "
                 "('processing_option', 'geo-reference'), ('map_projection', 'UTM'), "
                 "('orbit_direction', 'ascending')]"),
                ('returned',
                 'dict',
                 "[('observation_mode', 'ScanSAR nominal 28MHz mode dual polarization'), "
                 "('observation_direction', 'left looking'), ('processing_level', 'level 3.1'), "
                 "('processing_option', 'geo-reference'), ('map_projection', 'LCC'), "
                 "('orbit_direction', 'descending')]"),
                ('returned',
                 'dict',
                 "[('observation_mode', 'ScanSAR nominal 28MHz mode dual polarization'), "
                 "('observation_direction', 'left looking'), ('processing_level', 'level 3.1'), "
                 "('processing_option', 'not specified'), ('map_projection', 'MER'), "
                 "('orbit_direction', 'ascending')]"),
                ('returned',
                 'dict',
                 "[('observation_mode', 'ScanSAR nominal 28MHz mode dual polarization'), "
                 "('observation_direction', 'right looking'), ('processing_level', 'level 1.0'), "
                 "('processing_option', 'geo-code'), ('map_projection', 'UTM'), "
                 "('orbit_direction', 'descending')]"),
                ('returned',
                 'dict',
                 "[('observation_mode', 'ScanSAR nominal 28MHz mode dual polarization'), "
                 "('observation_direction', 'right looking'), ('processing_level', 'level 1.0'), "
                 "('processing_option', 'geo-code'), ('map_projection', 'not specified'), "
                 "('orbit_direction', 'ascending')]"),
                ('returned',
                 'dict',
                 "[('observation_mode', 'ScanSAR nominal 28MHz mode dual polarization'), "
                 "('observation_direction', 'right looking'), ('processing_level', 'level 1.0'), "
                 "('processing_option', 'geo-reference'), ('map_projection', 'MER'), "
                 "('orbit_direction', 'descending')]"),
                ('returned',
                 'dict',
                 "[('observation_mode', 'ScanSAR nominal 28MHz mode dual polarization'), "
                 "('observation_direction', 'right looking'), ('processing_level', 'level 1.0'), "
                 "('processing_option', 'not specified'), ('map_projection', 'PS'), "
                 "('orbit_direction', 'ascending')]"),
                ('returned',
                 'dict',
                 "[('observation_mode', 'ScanSAR nominal 28MHz mode dual polarization'), "
                 "('observation_direction', 'right looking'), ('processing_level', 'level 1.0'), "
                 "('processing_option', 'not specified'), ('map_projection', 'not specified'), "
                 "('orbit_direction', 'descending')]"),
                ('returned',
                 'dict',
                 "[('observation_mode', 'ScanSAR nominal 28MHz mode dual polarization'), "
                 "('observation_direction', 'right looking'), ('processing_level', 'level 1.5'), "
                 "('processing_option', 'geo-code'), ('map_projection', 'LCC'), "
                 "('orbit_direction', 'ascending')]"),
                ('returned',
                 'dict',
                 "[('observation_mode', 'ScanSAR nominal 28MHz mode dual polarization'), "
                 "('observation_direction', 'right looking'), ('processing_level', 'level 1.5'), "
                 "('processing_option', 'geo-reference'), ('map_projection', 'PS'), "
                 "('orbit_direction', 'descending')]"),
                ('returned',
                 'dict',
                 "[('observation_mode', 'ScanSAR nominal 28MHz mode dual polarization'), "
                 "('observation_direction', 'right looking'), ('processing_level', 'level 1.5'), "
                 "('processing_option', 'not specified'), ('map_projection', 'UTM'), "
                 "('orbit_direction', 'ascending')]"),
                ('returned',
                 'dict',
                 "[('observation_mode', 'ScanSAR nominal 28MHz mode dual polarization'), "
                 "('observation_direction', 'right looking'), ('processing_level', 'level 1.5'), "
                 "('processing_option', 'not specified'), ('map_projection', 'LCC'), "
                 "('orbit_direction', 'descending')]"),
                ('returned',
                 'dict',
                 "[('observation_mode', 'ScanSAR nominal 28MHz mode dual polarization'), "
                 "('observation_direction', 'right looking'), ('processing_level', 'level 3.1'), "
                 "('processing_option', 'geo-code'), ('map_projection', 'MER'), "
                 "('orbit_direction', 'ascending')]"),
                ('returned',
                 'dict',
                 "[('observation_mode', 'ScanSAR nominal 28MHz mode dual polarization'), "
                 "('observation_direction', 'right looking'), ('processing_level', 'level 3.1'), "
                 "('processing_option', 'geo-reference'), ('map_projection', 'UTM'), "
                 "('orbit_direction', 'descending')]"),
                ('returned',
                 'dict',
                 "[('observation_mode', 'ScanSAR nominal 28MHz mode dual polarization'), "
                 "('observation_direction', 'right looking'), ('processing_level', 'level 3.1'), "
                 "('processing_option', 'geo-reference'), ('map_projection', 'not specified'), "
                 "('orbit_direction', 'ascending')]"),
                ('returned',
                 'dict',
                 "[('observation_mode', 'ScanSAR nominal 28MHz mode dual polarization'), "
                 "('observation_direction', 'right looking'), ('processing_level', 'level 3.1'), "
                 "('processing_option', 'not specified'), ('map_projection', 'MER'), "
                 "('orbit_direction', 'descending')]"),
                ('raised',
                 ('ValueError',
                  'invalid product id: AAAR1.1__D',
                  True,
                  ('ValueError', "invalid code 'AAA'", False, None))),
                ('raised',
                 ('ValueError',
                  'invalid product id: WWQR1.1__D',
                  True,
                  ('ValueError', "invalid code 'WWQ'", False, None))),
                ('raised',
                 ('ValueError',
                  'invalid product id: SBDL1.5GUA',
                  True,
                  ('ValueError', "invalid code 'SBD'", False, None))),
                ('raised',
                 ('ValueError',
                  'invalid product id: ZZZL3.1RPA',
                  True,
                  ('ValueError', "invalid code 'ZZZ'", False, None))),
                ('raised', ('ValueError', 'invalid product id: WWDX1.1__D', False, None)),
                ('raised', ('ValueError', 'invalid product id: WWDR2.1__D', False, None)),
                ('raised', ('ValueError', 'invalid product id: WWDR1.2__D', False, None)),
                ('raised', ('ValueError', 'invalid product id: WWDR11.__D', False, None)),
                ('raised', ('ValueError', 'invalid product id: WWDR1.1X_D', False, None)),
                ('raised', ('ValueError', 'invalid product id: WWDR1.1_XD', False, None)),
                ('raised', ('ValueError', 'invalid product id: WWDR1.1__X', False, None)),
                ('raised', ('ValueError', 'invalid product id: wwdr1.1__d', False, None)),
                ('raised', ('ValueError', 'invalid product id: WWDR1.1__D ', False, None)),
                ('raised', ('ValueError', 'invalid product id: WWDR1.1__DA', False, None)),
                ('raised', ('ValueError', 'invalid product id: WWDR1.1__', False, None)),
                ('raised', ('ValueError', 'invalid product id: WDR1.1__D', False, None)),
                ('raised', ('ValueError', 'invalid product id: ', False, None)),
                ('raised',
                 ('ValueError', 'invalid product id: ALOS2225333200-180726', False, None)),
                ('raised',
                 ('TypeError',
                  "expected string or bytes-like object, got 'NoneType'",
                  False,
                  None)),
                ('raised',
                 ('TypeError', 'cannot use a string pattern on a bytes-like object', False, None)),
                ('raised',
                 ('TypeError', "expected string or bytes-like object, got 'float'", False, None))],
 'scene_id': [('returned',
               'dict',
               "[('mission_name', 'ALOS2'), ('orbit_accumulation', '22533'), ('scene_frame', "
               "'3200'), ('date', datetime.datetime(2018, 7, 26, 0, 0))]"),
              ('returned',
               'dict',
               "[('mission_name', 'ALOS2'), ('orbit_accumulation', '00000'), ('scene_frame', "
               "'0000'), ('date', datetime.datetime(2000, 1, 1, 0, 0))]"),
              ('returned',
               'dict',
               "[('mission_name', 'ALOS2'), ('orbit_accumulation', '99999'), ('scene_frame', "
               "'9999'), ('date', datetime.datetime(1999, 12, 31, 0, 0))]"),
              ('returned',
               'dict',
               "[('mission_name', 'AB123'), ('orbit_accumulation', '00001'), ('scene_frame', "
               "'0001'), ('date', datetime.datetime(1969, 1, 1, 0, 0))]"),
              ('returned',
               'dict',
               "[('mission_name', 'ALOS2'), ('orbit_accumulation', '22533'), ('scene_frame', "
               "'3200'), ('date', datetime.datetime(2068, 1, 1, 0, 0))]"),
              ('returned',
               'dict',
               "[('mission_name', 'ALOS2'), ('orbit_accumulation', '22533'), ('scene_frame', "
               "'3200'), ('date', datetime.datetime(2020, 2, 29, 0, 0))]"),
              ('raised',
               ('ValueError',
                'invalid scene id: ALOS2225333200-190229',
                True,
                ('ValueError', 'day is out of range for month', False, None))),
              ('raised',
               ('ValueError',
                'invalid scene id: ALOS2225333200-180732',
                True,
                ('ValueError', 'unconverted data remains: 2', False, None))),
              ('raised',
               ('ValueError',
                'invalid scene id: ALOS2225333200-181301',
                True,
                ('ValueError', 'unconverted data remains: 1', False, None))),
              ('raised',
               ('ValueError',
                'invalid scene id: ALOS2225333200-180001',
                True,
                ('ValueError', "time data '180001' does not match format '%y%m%d'", False, None))),
              ('raised',
               ('ValueError',
                'invalid scene id: ALOS2225333200-180100',
                True,
                ('ValueError', "time data '180100' does not match format '%y%m%d'", False, None))),
              ('raised',
               ('ValueError',
                'invalid scene id: ALOS2225333200-000000',
                True,
                ('ValueError', "time data '000000' does not match format '%y%m%d'", False, None))),
              ('raised', ('ValueError', 'invalid scene id: ALOS2xxxxx3200-180726', False, None)),
              ('raised', ('ValueError', 'invalid scene id: ALOS2225333200-a87433', False, None)),
              ('raised',
               ('ValueError',
                'invalid scene id: ALOS2225333200-987433',
                True,
                ('ValueError', 'unconverted data remains: 33', False, None))),
              ('raised', ('ValueError', 'invalid scene id: alos2225333200-180726', False, None)),
              ('raised', ('ValueError', 'invalid scene id: ALOS2225333200_180726', False, None)),
              ('raised', ('ValueError', 'invalid scene id: ALOS2225333200-1807261', False, None)),
              ('raised', ('ValueError', 'invalid scene id: ALOS2225333200-18072', False, None)),
              ('raised', ('ValueError', 'invalid scene id:  ALOS2225333200-180726', False, None)),
              ('raised', ('ValueError', 'invalid scene id: ALOS2225333200-180726\n', False, None)),
              ('raised',
               ('ValueError', 'invalid scene id: ALOS2225333200-180726-WWDR1.1__D', False, None)),
              ('raised', ('ValueError', 'invalid scene id: ', False, None)),
              ('raised', ('ValueError', 'invalid scene id: WWDR1.1__D', False, None)),
              ('raised',
               ('TypeError', "expected string or bytes-like object, got 'NoneType'", False, None)),
              ('raised',
               ('TypeError', 'cannot use a string pattern on a bytes-like object', False, None)),
              ('raised',
               ('TypeError', "expected string or bytes-like object, got 'int'", False, None))]}
# END EXPECTED


def test_equivalence():
    actual = compute()
    assert actual.keys() == EXPECTED.keys()
    for (kind, values) in (("scene_id", SCENE_IDS), ("product_id", PRODUCT_IDS)):
        assert len(actual[kind]) == len(EXPECTED[kind]) == len(values)
        for value, a, e in zip(values, actual[kind], EXPECTED[kind]):
            assert a == e, (kind, value, a, e)


def test_translation_table_used_at_call_time():
    # both decoders go through the module-level ``translations`` table, looked up by group name
    # when called; only ValueError raised by a translator is wrapped
    original = decoders.translations
    calls = []

    def recording(name):
        def wrapper(value):
            calls.append((name, value))
            return original[name](value)

        return wrapper

    def failing(value):
        raise KeyError(value)

    try:
        decoders.translations = {name: recording(name) for name in original}
        decoders.decode_scene_id("ALOS2225333200-180726")
        decoders.decode_product_id("WWDR1.5GUA")
        # a failing translator stops the iteration: later groups are not translated
        try:
            decoders.decode_product_id("WWDX1.5GUA")
        except ValueError:
            pass
        try:
            decoders.decode_product_id("AAAR1.5GUA")
        except ValueError:
            pass

        decoders.translations = dict(original, scene_frame=failing)
        try:
            decoders.decode_scene_id("ALOS2225333200-180726")
        except KeyError as e:
            assert e.args == ("3200",) and e.__cause__ is None
        else:
            raise AssertionError("KeyError expected")
    finally:
        decoders.translations = original

    assert calls == [
        ("mission_name", "ALOS2"),
        ("orbit_accumulation", "22533"),
        ("scene_frame", "3200"),
        ("date", "180726"),
        ("observation_mode", "WWD"),
        ("observation_direction", "R"),
        ("processing_level", "1.5"),
        ("processing_option", "G"),
        ("map_projection", "U"),
        ("orbit_direction", "A"),
        ("observation_mode", "AAA"),
    ]


def test_fresh_dicts():
    a = decoders.decode_scene_id("ALOS2225333200-180726")
    b = decoders.decode_scene_id("ALOS2225333200-180726")
    assert type(a) is dict and a == b and a is not b


if __name__ == "__main__":
    if "--record" in sys.argv:
        pprint.pprint(compute(), width=100)
        sys.exit(0)

    test_equivalence()
    test_translation_table_used_at_call_time()
    test_fresh_dicts()
    print("ok:", len(SCENE_IDS), "scene ids,", len(PRODUCT_IDS), "product ids")
