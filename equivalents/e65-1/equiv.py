"""Equivalence check for refactoring 1: ``remove_spares`` and ``transform_nested``.

Run as a script (``python equiv.py``) or through pytest. The expectations at the
bottom were recorded from the unchanged code; the file passes with and without
``patch.diff`` applied.
"""

import copy
import sys

import numpy as np

from ceos_alos2.hierarchy import Group, Variable


def canon(obj):
    """Turn a result into nested lists of plain literals, keeping types and order."""
    if isinstance(obj, Group):
        return ["Group", obj.path, obj.url, canon(obj.attrs), canon(obj.data)]
    if isinstance(obj, Variable):
        return ["Variable", canon(obj.dims), canon(obj.data), canon(obj.attrs)]
    if isinstance(obj, np.ndarray):
        values = obj.astype("int64") if obj.dtype.kind in "mM" else obj
        return ["ndarray", str(obj.dtype), list(obj.shape), values.tolist()]
    if isinstance(obj, np.generic):
        value = obj.astype("int64") if obj.dtype.kind in "mM" else obj
        return ["npscalar", str(obj.dtype), value.item()]
    if isinstance(obj, dict):
        return [
            "mapping:" + type(obj).__name__,
            [[canon(key), canon(value)] for key, value in obj.items()],
        ]
    if isinstance(obj, (list, tuple)):
        return ["seq:" + type(obj).__name__, [canon(item) for item in obj]]
    if type(obj) is float and obj != obj:
        return ["float", "nan"]
    if obj is None or type(obj) in (bool, int, float, str, bytes):
        return [type(obj).__name__, obj]
    if type(obj) is complex:
        return ["complex", obj.real, obj.imag]
    return ["other", type(obj).__name__, repr(obj)]


def run(thunk):
    """Call ``thunk() -> (function, args)`` and describe what happened."""
    func, args = thunk()
    before = canon(copy.deepcopy(args))
    try:
        result = func(*args)
    except Exception as exc:  # noqa: BLE001 - the exception is part of the behaviour
        outcome = ["raises", type(exc).__name__, str(exc)]
    else:
        outcome = ["returns", canon(result)]
    outcome.append(["inputs_unchanged", canon(args) == before])
    return outcome


from collections import OrderedDict

from construct.lib.containers import ListContainer

from ceos_alos2 import transformers
from ceos_alos2.sar_leader import attitude, data_quality_summary, radiometric_data


class MyList(list):
    pass


class MyDict(dict):
    pass


def call(name, *args):
    # look the function up late, so that the patched module is exercised
    return lambda: (getattr(transformers, name), args)


def leaves_are_shared():
    marker = (1.0, {"units": "m"})
    inner = [marker]
    mapping = {"a": marker, "b": {"c": marker, "spare1": ""}, "d": (inner,)}
    result = transformers.remove_spares(mapping)
    return [
        result is not mapping,
        result["a"] is marker,
        result["b"] is not mapping["b"],
        result["b"]["c"] is marker,
        result["d"] is mapping["d"],
        result["d"][0] is inner,
    ]


def lists_are_rebuilt():
    inner = {"x": 1}
    outer = [inner, [inner], 3]
    result = transformers.remove_spares(outer)
    return [result is not outer, result[0] is not inner, result[1] is not outer[1], result == outer]


def merged_elements_are_shared():
    first = {"b": 1}
    second = {"b": 2}
    records = [{"a": first, "t": (1, {})}, {"a": second, "t": (2, {})}]
    result = transformers.transform_nested(records)
    untouched = [1, 2]
    passthrough = transformers.transform_nested({"k": untouched, "e": []})
    return [
        result["t"][0] is records[0]["t"],
        result["t"][1] is records[1]["t"],
        type(result["t"]).__name__,
        passthrough["k"] is untouched,
        type(passthrough).__name__,
    ]


spare_names = [
    "spare", "blanks", "spare1", "spare12", "blanks1", "blanks20", "blanks007", "spare_values",
    "blank_page", "blank", "blanksx", "spare1a", "spare 1", "spare-1", "spare_1", "spareblanks",
    "spareblanks3", "blanksspare", "blanksspare2", "sparespare", "sparespare1", "blanksblanks",
    "Spare1", "SPARE", " spare1", "spare١", "spare²", "spare½", "spare1.5",
    "spares", "blankss", "", "a", "xspare1", "system_reserve",
]

attitude_points = [
    {
        "time": {"day_of_year": 10 + i, "millisecond_of_day": 1000 * i},
        "attitude": {
            "pitch_error": i % 2, "roll_error": 0, "yaw_error": 1,
            "pitch": (0.5 * i, {"units": "deg"}),
            "roll": (1.5 * i, {"units": "deg"}),
            "yaw": (-2.5 * i, {"units": "deg"}),
        },
        "rates": {
            "pitch_error": 0, "roll_error": i % 2, "yaw_error": 0,
            "pitch": (0.25 * i, {"units": "deg/s"}),
            "roll": (0.75 * i, {"units": "deg/s"}),
            "yaw": (-0.5 * i, {"units": "deg/s"}),
        },
    }
    for i in range(3)
]

quality = {
    "preamble": {"record_length": 1620},
    "record_number": 1,
    "sar_channel_id": "",
    "number_of_channels": 2,
    "absolute_radiometric_data_quality": {
        "islr": (1.0, {"units": "dB"}),
        "nominal_absolute_radiometric_calibration_uncertainty": {
            "magnitude": (1.0, {"units": "dB"}), "phase": (2.0, {"units": "deg"}),
        },
    },
    "relative_radiometric_quality": {
        "nominal_relative_radiometric_calibration_uncertainty": [
            {"magnitude": (1.0, {"units": "dB"}), "phase": (2.0, {"units": "deg"})},
            {"magnitude": (3.0, {"units": "dB"}), "phase": (4.0, {"units": "deg"})},
        ],
        "blanks": "",
    },
    "relative_geometric_quality": {
        "relative_misregistration_error": [
            {"along_track": (1.0, {"units": "m"}), "across_track": (2.0, {"units": "m"})},
            {"along_track": (3.0, {"units": "m"}), "across_track": (4.0, {"units": "m"})},
        ],
        "blanks": "",
    },
}

radiometric = {
    "preamble": {},
    "radiometric_data_records_sequence_number": 1,
    "number_of_radiometric_fields": 1,
    "calibration_factor": (-83.0, {"formula": "abc"}),
    "distortion_matrix": (
        {
            "transmission": {"dt11": 1 + 0j, "dt12": 0j, "dt21": 0.5j, "dt22": 1 + 1j},
            "reception": {"dr11": 1 + 0j, "dr12": 0j, "dr21": 0.5j, "dr22": 1 - 1j},
        },
        {"formula": "Z"},
    ),
    "blanks": "",
}

CASES = [
    # remove_spares: which keys count as spares
    ("spares-empty", call("remove_spares", {})),
    ("spares-names", call("remove_spares", {name: i for i, name in enumerate(spare_names)})),
    ("spares-suite-spares", call("remove_spares", {"spare1": "", "spare2": ""})),
    ("spares-suite-blanks", call("remove_spares", {"blanks1": "", "blanks20": "", "blanks": ""})),
    ("spares-order", call("remove_spares", {"z": 1, "spare1": 2, "a": {"y": 1, "blanks": 2, "b": 3}, "m": 4})),
    # remove_spares: recursion
    ("spares-nested-dict", call("remove_spares", {"a": {"b": {"blanks": "", "c": {"spare9": 1, "d": 2}}}})),
    ("spares-nested-list", call("remove_spares", {"a": [{"b": {"blanks": ""}}, {"spare1": 1, "x": [{"spare": 1}]}]})),
    ("spares-top-level-list", call("remove_spares", [{"spare1": 1, "a": 2}, [{"blanks": 1}], 3, "spare1", None])),
    ("spares-empty-list", call("remove_spares", [])),
    ("spares-list-of-lists", call("remove_spares", [[[{"spare": 0, "k": [{"blanks2": 1}]}]], []])),
    ("spares-tuple-not-entered", call("remove_spares", {"a": ({"spare1": 1, "b": 2}, {"units": "m", "spare": 1})})),
    ("spares-tuple-top-level", call("remove_spares", ({"spare1": 1},))),
    ("spares-dict-under-spare-key", call("remove_spares", {"spare1": {"a": 1}, "b": {"spare1": {"a": 1}}})),
    ("spares-scalar-int", call("remove_spares", 1)),
    ("spares-scalar-none", call("remove_spares", None)),
    ("spares-scalar-str", call("remove_spares", "spare1")),
    ("spares-scalar-bytes", call("remove_spares", b"blanks")),
    # remove_spares: container types
    ("spares-ordered-dict", call("remove_spares", OrderedDict([("b", 1), ("spare1", 2), ("a", OrderedDict(x=1))]))),
    ("spares-dict-subclass", call("remove_spares", MyDict(a=MyDict(spare=1, b=2), blanks3=1))),
    ("spares-list-subclass", call("remove_spares", MyList([MyDict(spare=1, b=MyList([1]))]))),
    ("spares-list-container", call("remove_spares", {"a": ListContainer([{"spare": 1, "v": 2}, {"v": 3}])})),
    # remove_spares: failures
    ("spares-int-key", call("remove_spares", {1: "a"})),
    ("spares-int-key-after-str", call("remove_spares", {"a": {"x": 1}, 2: "b"})),
    ("spares-int-key-nested", call("remove_spares", {"a": {1: 2}, "b": 3})),
    ("spares-int-key-nested-and-top", call("remove_spares", {"a": {None: 2}, 2: 3})),
    ("spares-int-key-in-list", call("remove_spares", {"a": [{"b": 1}, {(1, 2): 1}]})),
    ("spares-bytes-key", call("remove_spares", {b"spare1": 1})),
    ("spares-leaves-shared", lambda: (leaves_are_shared, ())),
    ("spares-lists-rebuilt", lambda: (lists_are_rebuilt, ())),
    # transform_nested
    ("nested-suite-1", call("transform_nested", [{"a": {"b": 1, "c": 2}}, {"a": {"b": 2, "c": 3}}, {"a": {"b": 3, "c": 4}}])),
    ("nested-suite-2", call("transform_nested", [
        {"a": {"b": 1, "c": 2}, "d": {"e": 3}},
        {"a": {"b": 2, "c": 3}, "d": {"e": 4}},
        {"a": {"b": 3, "c": 4}, "d": {"e": 5}},
    ])),
    ("nested-suite-3", call("transform_nested", [{"a": 1}, {"a": 2}, {"a": 3}])),
    ("nested-single-record", call("transform_nested", [{"a": 1, "b": {"c": 2}}])),
    ("nested-empty-records", call("transform_nested", [{}, {}])),
    ("nested-one-empty-record", call("transform_nested", [{"a": 1}, {}, {"a": 3}])),
    ("nested-ragged-keys", call("transform_nested", [{"b": 1, "a": 2}, {"a": 3, "c": 4}, {"c": 5, "b": 6, "d": 7}])),
    ("nested-ragged-inner-keys", call("transform_nested", [{"a": {"x": 1}}, {"a": {"y": 2}}, {"a": {"y": 3, "x": 4}}])),
    ("nested-inner-lists", call("transform_nested", [{"a": [{"b": 1}]}, {"a": [{"b": 2}]}])),
    ("nested-mixed-inner", call("transform_nested", [{"a": {"b": 1}}, {"a": 2}])),
    ("nested-mixed-inner-scalar-first", call("transform_nested", [{"a": 2}, {"a": {"b": 1}}])),
    ("nested-tuples", call("transform_nested", [{"p": (1.0, {"units": "deg"})}, {"p": (2.0, {"units": "deg"})}])),
    ("nested-three-levels", call("transform_nested", [{"a": {"b": {"c": 1}}}, {"a": {"b": {"c": 2}}}])),
    ("nested-dict-input", call("transform_nested", {"a": [{"x": 1}, {"x": 2}], "b": 3, "c": [], "d": [1, 2], "e": [{"x": 1}, {"y": 2}], "f": {"g": [{"h": 1}]}})),
    ("nested-empty-dict", call("transform_nested", {})),
    ("nested-ordered-dict-input", call("transform_nested", OrderedDict([("b", [{"x": 1}]), ("a", 1)]))),
    ("nested-dict-subclass-records", call("transform_nested", [MyDict(a=MyDict(b=1)), MyDict(a=MyDict(b=2))])),
    ("nested-list-subclass", call("transform_nested", MyList([{"a": 1}, {"a": 2}]))),
    ("nested-list-container", call("transform_nested", ListContainer([{"a": ListContainer([{"b": 1}])}, {"a": ListContainer([{"b": 2}])}]))),
    ("nested-none-values", call("transform_nested", [{"a": None}, {"a": None}])),
    # transform_nested: failures
    ("nested-empty-list", call("transform_nested", [])),
    ("nested-list-of-ints", call("transform_nested", [1, 2])),
    ("nested-none", call("transform_nested", None)),
    ("nested-str", call("transform_nested", "abc")),
    ("nested-tuple-of-dicts", call("transform_nested", ({"a": 1}, {"a": 2}))),
    ("nested-int-after-dict", call("transform_nested", [{"a": 1}, 5])),
    ("nested-pairs-after-dict", call("transform_nested", [{"a": 1}, [("a", 2)]])),
    ("nested-inner-int-after-dict", call("transform_nested", {"k": [{"a": 1}, 5]})),
    ("nested-inner-none-after-dict", call("transform_nested", [{"k": {"a": 1}}, {"k": None}])),
    ("nested-elements-shared", lambda: (merged_elements_are_shared, ())),
    # callers in the area
    ("caller-attitude", lambda: (attitude.transform_attitude, ({"preamble": {}, "number_of_points": 3, "data_points": copy.deepcopy(attitude_points), "blanks": ""},))),
    ("caller-attitude-no-points", lambda: (attitude.transform_attitude, ({"data_points": []},))),
    ("caller-quality-relative", lambda: (data_quality_summary.transform_relative, (copy.deepcopy(quality["relative_geometric_quality"]), "relative_misregistration_error"))),
    ("caller-quality-relative-empty", lambda: (data_quality_summary.transform_relative, ({"k": []}, "k"))),
    ("caller-quality", lambda: (data_quality_summary.transform_data_quality_summary, (copy.deepcopy(quality),))),
    ("caller-radiometric", lambda: (radiometric_data.transform_radiometric_data, (copy.deepcopy(radiometric),))),
]

# recorded by running this file with --record on the unchanged code (HEAD)
EXPECTED = {'spares-empty': ['returns', ['mapping:dict', []], ['inputs_unchanged', True]],
 'spares-names': ['returns',
                  ['mapping:dict',
                   [[['str', 'spare_values'], ['int', 7]],
                    [['str', 'blank_page'], ['int', 8]],
                    [['str', 'blank'], ['int', 9]],
                    [['str', 'blanksx'], ['int', 10]],
                    [['str', 'spare1a'], ['int', 11]],
                    [['str', 'spare 1'], ['int', 12]],
                    [['str', 'spare-1'], ['int', 13]],
                    [['str', 'spare_1'], ['int', 14]],
                    [['str', 'blanksspare'], ['int', 17]],
                    [['str', 'blanksspare2'], ['int', 18]],
                    [['str', 'sparespare'], ['int', 19]],
                    [['str', 'sparespare1'], ['int', 20]],
                    [['str', 'blanksblanks'], ['int', 21]],
                    [['str', 'Spare1'], ['int', 22]],
                    [['str', 'SPARE'], ['int', 23]],
                    [['str', ' spare1'], ['int', 24]],
                    [['str', 'spare½'], ['int', 27]],
                    [['str', 'spare1.5'], ['int', 28]],
                    [['str', 'spares'], ['int', 29]],
                    [['str', 'blankss'], ['int', 30]],
                    [['str', ''], ['int', 31]],
                    [['str', 'a'], ['int', 32]],
                    [['str', 'xspare1'], ['int', 33]],
                    [['str', 'system_reserve'], ['int', 34]]]],
                  ['inputs_unchanged', True]],
 'spares-suite-spares': ['returns', ['mapping:dict', []], ['inputs_unchanged', True]],
 'spares-suite-blanks': ['returns', ['mapping:dict', []], ['inputs_unchanged', True]],
 'spares-order': ['returns',
                  ['mapping:dict',
                   [[['str', 'z'], ['int', 1]],
                    [['str', 'a'],
                     ['mapping:dict', [[['str', 'y'], ['int', 1]], [['str', 'b'], ['int', 3]]]]],
                    [['str', 'm'], ['int', 4]]]],
                  ['inputs_unchanged', True]],
 'spares-nested-dict': ['returns',
                        ['mapping:dict',
                         [[['str', 'a'],
                           ['mapping:dict',
                            [[['str', 'b'],
                              ['mapping:dict',
                               [[['str', 'c'],
                                 ['mapping:dict', [[['str', 'd'], ['int', 2]]]]]]]]]]]]],
                        ['inputs_unchanged', True]],
 'spares-nested-list': ['returns',
                        ['mapping:dict',
                         [[['str', 'a'],
                           ['seq:list',
                            [['mapping:dict', [[['str', 'b'], ['mapping:dict', []]]]],
                             ['mapping:dict',
                              [[['str', 'x'], ['seq:list', [['mapping:dict', []]]]]]]]]]]],
                        ['inputs_unchanged', True]],
 'spares-top-level-list': ['returns',
                           ['seq:list',
                            [['mapping:dict', [[['str', 'a'], ['int', 2]]]],
                             ['seq:list', [['mapping:dict', []]]],
                             ['int', 3],
                             ['str', 'spare1'],
                             ['NoneType', None]]],
                           ['inputs_unchanged', True]],
 'spares-empty-list': ['returns', ['seq:list', []], ['inputs_unchanged', True]],
 'spares-list-of-lists': ['returns',
                          ['seq:list',
                           [['seq:list',
                             [['seq:list',
                               [['mapping:dict',
                                 [[['str', 'k'], ['seq:list', [['mapping:dict', []]]]]]]]]]],
                            ['seq:list', []]]],
                          ['inputs_unchanged', True]],
 'spares-tuple-not-entered': ['returns',
                              ['mapping:dict',
                               [[['str', 'a'],
                                 ['seq:tuple',
                                  [['mapping:dict',
                                    [[['str', 'spare1'], ['int', 1]], [['str', 'b'], ['int', 2]]]],
                                   ['mapping:dict',
                                    [[['str', 'units'], ['str', 'm']],
                                     [['str', 'spare'], ['int', 1]]]]]]]]],
                              ['inputs_unchanged', True]],
 'spares-tuple-top-level': ['returns',
                            ['seq:tuple', [['mapping:dict', [[['str', 'spare1'], ['int', 1]]]]]],
                            ['inputs_unchanged', True]],
 'spares-dict-under-spare-key': ['returns',
                                 ['mapping:dict', [[['str', 'b'], ['mapping:dict', []]]]],
                                 ['inputs_unchanged', True]],
 'spares-scalar-int': ['returns', ['int', 1], ['inputs_unchanged', True]],
 'spares-scalar-none': ['returns', ['NoneType', None], ['inputs_unchanged', True]],
 'spares-scalar-str': ['returns', ['str', 'spare1'], ['inputs_unchanged', True]],
 'spares-scalar-bytes': ['returns', ['bytes', b'blanks'], ['inputs_unchanged', True]],
 'spares-ordered-dict': ['returns',
                         ['mapping:dict',
                          [[['str', 'b'], ['int', 1]],
                           [['str', 'a'], ['mapping:dict', [[['str', 'x'], ['int', 1]]]]]]],
                         ['inputs_unchanged', True]],
 'spares-dict-subclass': ['returns',
                          ['mapping:dict',
                           [[['str', 'a'], ['mapping:dict', [[['str', 'b'], ['int', 2]]]]]]],
                          ['inputs_unchanged', True]],
 'spares-list-subclass': ['returns',
                          ['seq:list',
                           [['mapping:dict', [[['str', 'b'], ['seq:list', [['int', 1]]]]]]]],
                          ['inputs_unchanged', True]],
 'spares-list-container': ['returns',
                           ['mapping:dict',
                            [[['str', 'a'],
                              ['seq:list',
                               [['mapping:dict', [[['str', 'v'], ['int', 2]]]],
                                ['mapping:dict', [[['str', 'v'], ['int', 3]]]]]]]]],
                           ['inputs_unchanged', True]],
 'spares-int-key': ['raises',
                    'AttributeError',
                    "'int' object has no attribute 'startswith'",
                    ['inputs_unchanged', True]],
 'spares-int-key-after-str': ['raises',
                              'AttributeError',
                              "'int' object has no attribute 'startswith'",
                              ['inputs_unchanged', True]],
 'spares-int-key-nested': ['raises',
                           'AttributeError',
                           "'int' object has no attribute 'startswith'",
                           ['inputs_unchanged', True]],
 'spares-int-key-nested-and-top': ['raises',
                                   'AttributeError',
                                   "'int' object has no attribute 'startswith'",
                                   ['inputs_unchanged', True]],
 'spares-int-key-in-list': ['raises',
                            'AttributeError',
                            "'tuple' object has no attribute 'startswith'",
                            ['inputs_unchanged', True]],
 'spares-bytes-key': ['raises',
                      'TypeError',
                      "a bytes-like object is required, not 'str'",
                      ['inputs_unchanged', True]],
 'spares-leaves-shared': ['returns',
                          ['seq:list',
                           [['bool', True],
                            ['bool', True],
                            ['bool', True],
                            ['bool', True],
                            ['bool', True],
                            ['bool', True]]],
                          ['inputs_unchanged', True]],
 'spares-lists-rebuilt': ['returns',
                          ['seq:list',
                           [['bool', True], ['bool', True], ['bool', True], ['bool', True]]],
                          ['inputs_unchanged', True]],
 'nested-suite-1': ['returns',
                    ['mapping:dict',
                     [[['str', 'a'],
                       ['mapping:dict',
                        [[['str', 'b'], ['seq:list', [['int', 1], ['int', 2], ['int', 3]]]],
                         [['str', 'c'], ['seq:list', [['int', 2], ['int', 3], ['int', 4]]]]]]]]],
                    ['inputs_unchanged', True]],
 'nested-suite-2': ['returns',
                    ['mapping:dict',
                     [[['str', 'a'],
                       ['mapping:dict',
                        [[['str', 'b'], ['seq:list', [['int', 1], ['int', 2], ['int', 3]]]],
                         [['str', 'c'], ['seq:list', [['int', 2], ['int', 3], ['int', 4]]]]]]],
                      [['str', 'd'],
                       ['mapping:dict',
                        [[['str', 'e'], ['seq:list', [['int', 3], ['int', 4], ['int', 5]]]]]]]]],
                    ['inputs_unchanged', True]],
 'nested-suite-3': ['returns',
                    ['mapping:dict',
                     [[['str', 'a'], ['seq:list', [['int', 1], ['int', 2], ['int', 3]]]]]],
                    ['inputs_unchanged', True]],
 'nested-single-record': ['returns',
                          ['mapping:dict',
                           [[['str', 'a'], ['seq:list', [['int', 1]]]],
                            [['str', 'b'],
                             ['mapping:dict', [[['str', 'c'], ['seq:list', [['int', 2]]]]]]]]],
                          ['inputs_unchanged', True]],
 'nested-empty-records': ['returns', ['mapping:dict', []], ['inputs_unchanged', True]],
 'nested-one-empty-record': ['returns',
                             ['mapping:dict',
                              [[['str', 'a'], ['seq:list', [['int', 1], ['int', 3]]]]]],
                             ['inputs_unchanged', True]],
 'nested-ragged-keys': ['returns',
                        ['mapping:dict',
                         [[['str', 'b'], ['seq:list', [['int', 1], ['int', 6]]]],
                          [['str', 'a'], ['seq:list', [['int', 2], ['int', 3]]]],
                          [['str', 'c'], ['seq:list', [['int', 4], ['int', 5]]]],
                          [['str', 'd'], ['seq:list', [['int', 7]]]]]],
                        ['inputs_unchanged', True]],
 'nested-ragged-inner-keys': ['returns',
                              ['mapping:dict',
                               [[['str', 'a'],
                                 ['mapping:dict',
                                  [[['str', 'x'], ['seq:list', [['int', 1], ['int', 4]]]],
                                   [['str', 'y'], ['seq:list', [['int', 2], ['int', 3]]]]]]]]],
                              ['inputs_unchanged', True]],
 'nested-inner-lists': ['returns',
                        ['mapping:dict',
                         [[['str', 'a'],
                           ['seq:list',
                            [['seq:list', [['mapping:dict', [[['str', 'b'], ['int', 1]]]]]],
                             ['seq:list', [['mapping:dict', [[['str', 'b'], ['int', 2]]]]]]]]]]],
                        ['inputs_unchanged', True]],
 'nested-mixed-inner': ['raises',
                        'AttributeError',
                        "'int' object has no attribute 'items'",
                        ['inputs_unchanged', True]],
 'nested-mixed-inner-scalar-first': ['returns',
                                     ['mapping:dict',
                                      [[['str', 'a'],
                                        ['seq:list',
                                         [['int', 2],
                                          ['mapping:dict', [[['str', 'b'], ['int', 1]]]]]]]]],
                                     ['inputs_unchanged', True]],
 'nested-tuples': ['returns',
                   ['mapping:dict',
                    [[['str', 'p'],
                      ['seq:list',
                       [['seq:tuple',
                         [['float', 1.0], ['mapping:dict', [[['str', 'units'], ['str', 'deg']]]]]],
                        ['seq:tuple',
                         [['float', 2.0],
                          ['mapping:dict', [[['str', 'units'], ['str', 'deg']]]]]]]]]]],
                   ['inputs_unchanged', True]],
 'nested-three-levels': ['returns',
                         ['mapping:dict',
                          [[['str', 'a'],
                            ['mapping:dict',
                             [[['str', 'b'],
                               ['seq:list',
                                [['mapping:dict', [[['str', 'c'], ['int', 1]]]],
                                 ['mapping:dict', [[['str', 'c'], ['int', 2]]]]]]]]]]]],
                         ['inputs_unchanged', True]],
 'nested-dict-input': ['returns',
                       ['mapping:dict',
                        [[['str', 'a'],
                          ['mapping:dict',
                           [[['str', 'x'], ['seq:list', [['int', 1], ['int', 2]]]]]]],
                         [['str', 'b'], ['int', 3]],
                         [['str', 'c'], ['seq:list', []]],
                         [['str', 'd'], ['seq:list', [['int', 1], ['int', 2]]]],
                         [['str', 'e'],
                          ['mapping:dict',
                           [[['str', 'x'], ['seq:list', [['int', 1]]]],
                            [['str', 'y'], ['seq:list', [['int', 2]]]]]]],
                         [['str', 'f'],
                          ['mapping:dict',
                           [[['str', 'g'],
                             ['seq:list', [['mapping:dict', [[['str', 'h'], ['int', 1]]]]]]]]]]]],
                       ['inputs_unchanged', True]],
 'nested-empty-dict': ['returns', ['mapping:dict', []], ['inputs_unchanged', True]],
 'nested-ordered-dict-input': ['returns',
                               ['mapping:dict',
                                [[['str', 'b'],
                                  ['mapping:dict', [[['str', 'x'], ['seq:list', [['int', 1]]]]]]],
                                 [['str', 'a'], ['int', 1]]]],
                               ['inputs_unchanged', True]],
 'nested-dict-subclass-records': ['returns',
                                  ['mapping:dict',
                                   [[['str', 'a'],
                                     ['mapping:dict',
                                      [[['str', 'b'], ['seq:list', [['int', 1], ['int', 2]]]]]]]]],
                                  ['inputs_unchanged', True]],
 'nested-list-subclass': ['returns',
                          ['mapping:dict',
                           [[['str', 'a'], ['seq:list', [['int', 1], ['int', 2]]]]]],
                          ['inputs_unchanged', True]],
 'nested-list-container': ['returns',
                           ['mapping:dict',
                            [[['str', 'a'],
                              ['seq:list',
                               [['seq:ListContainer',
                                 [['mapping:dict', [[['str', 'b'], ['int', 1]]]]]],
                                ['seq:ListContainer',
                                 [['mapping:dict', [[['str', 'b'], ['int', 2]]]]]]]]]]],
                           ['inputs_unchanged', True]],
 'nested-none-values': ['returns',
                        ['mapping:dict',
                         [[['str', 'a'], ['seq:list', [['NoneType', None], ['NoneType', None]]]]]],
                        ['inputs_unchanged', True]],
 'nested-empty-list': ['raises',
                       'AttributeError',
                       "'list' object has no attribute 'keys'",
                       ['inputs_unchanged', True]],
 'nested-list-of-ints': ['raises',
                         'AttributeError',
                         "'list' object has no attribute 'keys'",
                         ['inputs_unchanged', True]],
 'nested-none': ['raises',
                 'AttributeError',
                 "'NoneType' object has no attribute 'keys'",
                 ['inputs_unchanged', True]],
 'nested-str': ['raises',
                'AttributeError',
                "'str' object has no attribute 'keys'",
                ['inputs_unchanged', True]],
 'nested-tuple-of-dicts': ['raises',
                           'AttributeError',
                           "'tuple' object has no attribute 'keys'",
                           ['inputs_unchanged', True]],
 'nested-int-after-dict': ['raises',
                           'AttributeError',
                           "'int' object has no attribute 'items'",
                           ['inputs_unchanged', True]],
 'nested-pairs-after-dict': ['raises',
                             'AttributeError',
                             "'list' object has no attribute 'items'",
                             ['inputs_unchanged', True]],
 'nested-inner-int-after-dict': ['raises',
                                 'AttributeError',
                                 "'int' object has no attribute 'items'",
                                 ['inputs_unchanged', True]],
 'nested-inner-none-after-dict': ['raises',
                                  'AttributeError',
                                  "'NoneType' object has no attribute 'items'",
                                  ['inputs_unchanged', True]],
 'nested-elements-shared': ['returns',
                            ['seq:list',
                             [['bool', True],
                              ['bool', True],
                              ['str', 'list'],
                              ['bool', True],
                              ['str', 'dict']]],
                            ['inputs_unchanged', True]],
 'caller-attitude': ['returns',
                     ['Group',
                      '/',
                      None,
                      ['mapping:dict', []],
                      ['mapping:dict',
                       [[['str', 'attitude'],
                         ['Group',
                          '/attitude',
                          None,
                          ['mapping:dict',
                           [[['str', 'coordinates'], ['seq:list', [['str', 'time']]]]]],
                          ['mapping:dict',
                           [[['str', 'pitch_error'],
                             ['Variable',
                              ['seq:list', [['str', 'points']]],
                              ['seq:list', [['bool', False], ['bool', True], ['bool', False]]],
                              ['mapping:dict', []]]],
                            [['str', 'roll_error'],
                             ['Variable',
                              ['seq:list', [['str', 'points']]],
                              ['seq:list', [['bool', False], ['bool', False], ['bool', False]]],
                              ['mapping:dict', []]]],
                            [['str', 'yaw_error'],
                             ['Variable',
                              ['seq:list', [['str', 'points']]],
                              ['seq:list', [['bool', True], ['bool', True], ['bool', True]]],
                              ['mapping:dict', []]]],
                            [['str', 'pitch'],
                             ['Variable',
                              ['seq:list', [['str', 'points']]],
                              ['seq:list', [['float', 0.0], ['float', 0.5], ['float', 1.0]]],
                              ['mapping:dict', [[['str', 'units'], ['str', 'deg']]]]]],
                            [['str', 'roll'],
                             ['Variable',
                              ['seq:list', [['str', 'points']]],
                              ['seq:list', [['float', 0.0], ['float', 1.5], ['float', 3.0]]],
                              ['mapping:dict', [[['str', 'units'], ['str', 'deg']]]]]],
                            [['str', 'yaw'],
                             ['Variable',
                              ['seq:list', [['str', 'points']]],
                              ['seq:list', [['float', -0.0], ['float', -2.5], ['float', -5.0]]],
                              ['mapping:dict', [[['str', 'units'], ['str', 'deg']]]]]],
                            [['str', 'time'],
                             ['Variable',
                              ['seq:list', [['str', 'points']]],
                              ['ndarray',
                               'timedelta64[ns]',
                               [3],
                               [864000000000000, 950401000000000, 1036802000000000]],
                              ['mapping:dict', []]]]]]]],
                        [['str', 'rates'],
                         ['Group',
                          '/rates',
                          None,
                          ['mapping:dict',
                           [[['str', 'coordinates'], ['seq:list', [['str', 'time']]]]]],
                          ['mapping:dict',
                           [[['str', 'pitch_error'],
                             ['Variable',
                              ['seq:list', [['str', 'points']]],
                              ['seq:list', [['bool', False], ['bool', False], ['bool', False]]],
                              ['mapping:dict', []]]],
                            [['str', 'roll_error'],
                             ['Variable',
                              ['seq:list', [['str', 'points']]],
                              ['seq:list', [['bool', False], ['bool', True], ['bool', False]]],
                              ['mapping:dict', []]]],
                            [['str', 'yaw_error'],
                             ['Variable',
                              ['seq:list', [['str', 'points']]],
                              ['seq:list', [['bool', False], ['bool', False], ['bool', False]]],
                              ['mapping:dict', []]]],
                            [['str', 'pitch'],
                             ['Variable',
                              ['seq:list', [['str', 'points']]],
                              ['seq:list', [['float', 0.0], ['float', 0.25], ['float', 0.5]]],
                              ['mapping:dict', [[['str', 'units'], ['str', 'deg/s']]]]]],
                            [['str', 'roll'],
                             ['Variable',
                              ['seq:list', [['str', 'points']]],
                              ['seq:list', [['float', 0.0], ['float', 0.75], ['float', 1.5]]],
                              ['mapping:dict', [[['str', 'units'], ['str', 'deg/s']]]]]],
                            [['str', 'yaw'],
                             ['Variable',
                              ['seq:list', [['str', 'points']]],
                              ['seq:list', [['float', -0.0], ['float', -0.5], ['float', -1.0]]],
                              ['mapping:dict', [[['str', 'units'], ['str', 'deg/s']]]]]],
                            [['str', 'time'],
                             ['Variable',
                              ['seq:list', [['str', 'points']]],
                              ['ndarray',
                               'timedelta64[ns]',
                               [3],
                               [864000000000000, 950401000000000, 1036802000000000]],
                              ['mapping:dict', []]]]]]]]]]],
                     ['inputs_unchanged', True]],
 'caller-attitude-no-points': ['raises',
                               'AttributeError',
                               "'list' object has no attribute 'keys'",
                               ['inputs_unchanged', True]],
 'caller-quality-relative': ['returns',
                             ['mapping:dict',
                              [[['str', 'along_track'],
                                ['seq:tuple',
                                 [['str', 'channel'],
                                  ['seq:list', [['float', 1.0], ['float', 3.0]]],
                                  ['mapping:dict', [[['str', 'units'], ['str', 'm']]]]]]],
                               [['str', 'across_track'],
                                ['seq:tuple',
                                 [['str', 'channel'],
                                  ['seq:list', [['float', 2.0], ['float', 4.0]]],
                                  ['mapping:dict', [[['str', 'units'], ['str', 'm']]]]]]]]],
                             ['inputs_unchanged', True]],
 'caller-quality-relative-empty': ['raises',
                                   'AttributeError',
                                   "'list' object has no attribute 'keys'",
                                   ['inputs_unchanged', True]],
 'caller-quality': ['returns',
                    ['Group',
                     '/',
                     None,
                     ['mapping:dict',
                      [[['str', 'sar_channel_id'], ['str', '']],
                       [['str', 'number_of_channels'], ['int', 2]]]],
                     ['mapping:dict',
                      [[['str', 'absolute_radiometric_data_quality'],
                        ['Group',
                         '/absolute_radiometric_data_quality',
                         None,
                         ['mapping:dict', []],
                         ['mapping:dict',
                          [[['str', 'islr'],
                            ['Variable',
                             ['seq:tuple', []],
                             ['float', 1.0],
                             ['mapping:dict', [[['str', 'units'], ['str', 'dB']]]]]],
                           [['str', 'nominal_absolute_radiometric_calibration_uncertainty'],
                            ['Group',
                             '/absolute_radiometric_data_quality/nominal_absolute_radiometric_calibration_uncertainty',
                             None,
                             ['mapping:dict', []],
                             ['mapping:dict',
                              [[['str', 'magnitude'],
                                ['Variable',
                                 ['seq:tuple', []],
                                 ['float', 1.0],
                                 ['mapping:dict', [[['str', 'units'], ['str', 'dB']]]]]],
                               [['str', 'phase'],
                                ['Variable',
                                 ['seq:tuple', []],
                                 ['float', 2.0],
                                 ['mapping:dict', [[['str', 'units'], ['str', 'deg']]]]]]]]]]]]]],
                       [['str', 'relative_radiometric_quality'],
                        ['Group',
                         '/relative_radiometric_quality',
                         None,
                         ['mapping:dict', []],
                         ['mapping:dict',
                          [[['str', 'magnitude'],
                            ['Variable',
                             ['seq:list', [['str', 'channel']]],
                             ['seq:list', [['float', 1.0], ['float', 3.0]]],
                             ['mapping:dict', [[['str', 'units'], ['str', 'dB']]]]]],
                           [['str', 'phase'],
                            ['Variable',
                             ['seq:list', [['str', 'channel']]],
                             ['seq:list', [['float', 2.0], ['float', 4.0]]],
                             ['mapping:dict', [[['str', 'units'], ['str', 'deg']]]]]]]]]],
                       [['str', 'relative_geometric_quality'],
                        ['Group',
                         '/relative_geometric_quality',
                         None,
                         ['mapping:dict', []],
                         ['mapping:dict',
                          [[['str', 'along_track'],
                            ['Variable',
                             ['seq:list', [['str', 'channel']]],
                             ['seq:list', [['float', 1.0], ['float', 3.0]]],
                             ['mapping:dict', [[['str', 'units'], ['str', 'm']]]]]],
                           [['str', 'across_track'],
                            ['Variable',
                             ['seq:list', [['str', 'channel']]],
                             ['seq:list', [['float', 2.0], ['float', 4.0]]],
                             ['mapping:dict', [[['str', 'units'], ['str', 'm']]]]]]]]]]]]],
                    ['inputs_unchanged', True]],
 'caller-radiometric': ['returns',
                        ['Group',
                         '/',
                         None,
                         ['mapping:dict', []],
                         ['mapping:dict',
                          [[['str', 'calibration_factor'],
                            ['Variable',
                             ['seq:tuple', []],
                             ['float', -83.0],
                             ['mapping:dict', [[['str', 'formula'], ['str', 'abc']]]]]],
                           [['str', 'distortion_matrix'],
                            ['Group',
                             '/distortion_matrix',
                             None,
                             ['mapping:dict', [[['str', 'formula'], ['str', 'Z']]]],
                             ['mapping:dict',
                              [[['str', 'transmission'],
                                ['Variable',
                                 ['seq:list', [['str', 'i'], ['str', 'j']]],
                                 ['seq:list',
                                  [['seq:list', [['complex', 1.0, 0.0], ['complex', 0.0, 0.0]]],
                                   ['seq:list', [['complex', 0.0, 0.5], ['complex', 1.0, 1.0]]]]],
                                 ['mapping:dict', []]]],
                               [['str', 'reception'],
                                ['Variable',
                                 ['seq:list', [['str', 'i'], ['str', 'j']]],
                                 ['seq:list',
                                  [['seq:list', [['complex', 1.0, 0.0], ['complex', 0.0, 0.0]]],
                                   ['seq:list', [['complex', 0.0, 0.5], ['complex', 1.0, -1.0]]]]],
                                 ['mapping:dict', []]]],
                               [['str', 'i'],
                                ['Variable',
                                 ['seq:list', [['str', 'i']]],
                                 ['seq:list', [['str', 'horizontal'], ['str', 'vertical']]],
                                 ['mapping:dict',
                                  [[['str', 'long_name'], ['str', 'reception polarization']]]]]],
                               [['str', 'j'],
                                ['Variable',
                                 ['seq:list', [['str', 'j']]],
                                 ['seq:list', [['str', 'horizontal'], ['str', 'vertical']]],
                                 ['mapping:dict',
                                  [[['str', 'long_name'],
                                    ['str', 'transmission polarization']]]]]]]]]]]]],
                        ['inputs_unchanged', True]]}


def check_all():
    failures = []
    for name, thunk in CASES:
        actual = run(thunk)
        if name not in EXPECTED:
            failures.append((name, "no recorded expectation", actual))
        elif actual != EXPECTED[name]:
            failures.append((name, EXPECTED[name], actual))
    return failures


def test_all_cases_recorded():
    assert sorted(name for name, _ in CASES) == sorted(EXPECTED)
    assert len({name for name, _ in CASES}) == len(CASES)


def test_equivalence():
    failures = check_all()
    assert not failures, failures


if __name__ == "__main__":
    if "--record" in sys.argv:
        import pprint

        recorded = {name: run(thunk) for name, thunk in CASES}
        print("EXPECTED = " + pprint.pformat(recorded, width=100, sort_dicts=False))
        sys.exit(0)

    test_all_cases_recorded()
    failures = check_all()
    for name, expected, actual in failures:
        print(f"FAIL {name}\n  expected: {expected}\n  actual:   {actual}")
    print(f"{len(CASES) - len(failures)}/{len(CASES)} cases identical to the recorded behaviour")
    sys.exit(1 if failures else 0)
