"""equivalence check for refactoring 4: ceos_alos2/sar_image/metadata.py
(apply_overrides, deduplicate_attrs, transform_line_metadata)

run as

    cd /tmp/wt8/e61 && PYTHONPATH=/tmp/wt8/e61 /venv/bin/python _eq/4/equiv.py

The three functions are called directly (overrides / known names given as dicts,
lists, sets, strings ...; values that are not `(dims, data, attrs)` triples; empty
inputs) and through `transform_line_metadata` / `transform_metadata` on records
parsed from synthetic CEOS bytes (processed and signal data records) and on
hand-written records: ignored names, spares, variables with and without attrs,
deduplicated attrs, datetime overrides, the `rows` rename (with collisions),
records with differing keys, things that are not records at all. Every case
describes the outcome (the returned hierarchy with the types of all containers and
the order of the keys, or the type and message of the exception); the descriptions
are compared with the ones recorded from the unchanged code (`EXPECTED`, at the
bottom; long descriptions are stored as sha256).
"""
import datetime as _dt
import hashlib
import pprint
import sys
import types as _types

import numpy as np

from ceos_alos2.array import Array
from ceos_alos2.hierarchy import Group, Variable


# --------------------------------------------------------------------------
# harness: describe results (values *and* types) in a deterministic way, record
# them with `--record`, compare them with the recorded ones otherwise
# --------------------------------------------------------------------------
def describe(obj):
    """deterministic, type-aware description of a result"""
    if isinstance(obj, Group):
        return "Group(path={}, url={}, attrs={}, data={})".format(
            describe(obj.path), describe(obj.url), describe(obj.attrs), describe(obj.data)
        )
    if isinstance(obj, Variable):
        return "Variable(dims={}, data={}, attrs={})".format(
            describe(obj.dims), describe(obj.data), describe(obj.attrs)
        )
    if isinstance(obj, Array):
        return "Array({})".format(
            ", ".join(
                "{}={}".format(name, describe(getattr(obj, name)))
                for name in [
                    "url",
                    "byte_ranges",
                    "shape",
                    "dtype",
                    "type_code",
                    "records_per_chunk",
                    "chunk_offsets",
                ]
            )
        )
    if isinstance(obj, np.ndarray):
        return "ndarray(dtype={}, shape={}, data={})".format(
            obj.dtype, obj.shape, describe(obj.astype(str).tolist())
        )
    if isinstance(obj, dict):
        return "{}{{{}}}".format(
            type(obj).__name__,
            ", ".join("{}: {}".format(describe(k), describe(v)) for k, v in obj.items()),
        )
    if isinstance(obj, (list, tuple)):
        return "{}[{}]".format(type(obj).__name__, ", ".join(describe(v) for v in obj))
    if isinstance(obj, (set, frozenset)):
        return "{}[{}]".format(type(obj).__name__, ", ".join(sorted(describe(v) for v in obj)))
    if isinstance(obj, float) and obj != obj:
        return "float:nan"
    if isinstance(obj, (_dt.datetime, _dt.date)):
        return "{}:{}".format(type(obj).__name__, obj.isoformat())
    if obj is None or isinstance(obj, (bool, int, float, complex, str, bytes, np.generic)):
        return "{}:{!r}".format(type(obj).__name__, obj)
    if isinstance(obj, _types.GeneratorType) or type(obj).__name__.endswith("iterator"):
        # no addresses
        return "<{}>".format(type(obj).__name__)
    if hasattr(obj, "__dict__"):
        return "{}<{}>".format(type(obj).__name__, describe(vars(obj)))
    return "{}:{!r}".format(type(obj).__name__, obj)


def outcome(thunk):
    try:
        result = thunk()
    except Exception as e:  # noqa: BLE001
        return "raised {}: {}".format(type(e).__name__, e)
    return "returned " + describe(result)


def compact(text):
    if len(text) <= 200:
        return text
    return "sha256:{} (len {})".format(hashlib.sha256(text.encode()).hexdigest(), len(text))


CASES = {}


def case(name):
    def register(thunk):
        assert name not in CASES, name
        CASES[name] = thunk
        return thunk

    return register


def main(expected):
    import ceos_alos2

    print("using", ceos_alos2.__file__)
    if "--show" in sys.argv:
        # full descriptions of the cases whose names contain the given text
        pattern = sys.argv[sys.argv.index("--show") + 1]
        for name, thunk in CASES.items():
            if pattern in name:
                print("{}\n    {}".format(name, outcome(thunk)))
        return 0

    actual = {name: compact(outcome(thunk)) for name, thunk in CASES.items()}
    if "--record" in sys.argv:
        print("EXPECTED = \\")
        pprint.pprint(actual, width=100, sort_dicts=False)
        return 0

    failures = []
    for name, value in actual.items():
        if name not in expected:
            failures.append((name, "<not recorded>", value))
        elif expected[name] != value:
            failures.append((name, expected[name], value))
    for name in expected:
        if name not in actual:
            failures.append((name, expected[name], "<missing>"))

    for name, want, got in failures:
        print("MISMATCH {}\n   recorded: {}\n   actual:   {}".format(name, want, got))
    print("{} cases, {} mismatches".format(len(actual), len(failures)))
    return 1 if failures else 0

import struct


# --------------------------------------------------------------------------
# synthetic CEOS bytes
# --------------------------------------------------------------------------
def preamble(seq, record_type, length):
    return struct.pack(">IBBBBI", seq, 50, record_type, 18, 20, length)


def processed_record(seq, line, n_data_bytes, *, scan_id=0, doy=10, fill=None, length=None):
    """record type 11 (level 1.1 / 1.5): 192 bytes of prefix + pixel data"""
    length = 192 + n_data_bytes if length is None else length
    prefix = b"".join(
        [
            preamble(seq, 11, length),
            struct.pack(">6I", line, 1, 0, n_data_bytes // 2, 0, 1),
            struct.pack(">3I", 2020, doy, 45_462_451 + line),
            struct.pack(">4H", 2, 0, 0, 1),
            struct.pack(">2I", 2_100_000 + line, scan_id),
            struct.pack(">3I", 700_000, 720_000 + line, 740_000),
            struct.pack(">3I", 1000, 2000, 3000 + line),
            struct.pack(">3I", 11, 12, 13),
            struct.pack(">2I", 30_000_000, 1_000_000),
            b"\x00" * 20,
            struct.pack(">I", 1),
            struct.pack(">6I", 35_000_000, 35_100_000, 35_200_000 + line, 139_000_000, 1, 2),
            struct.pack(">I", 4_000_000),
            b"\x00" * 4,
            struct.pack(">2I", 4_100_000, 500_000),
            b"ab\x00\x00",
            struct.pack(">2I", 600_000, 190_000_000),
            b"\x00" * 8,
        ]
    )
    assert len(prefix) == 192, len(prefix)
    data = bytes((fill if fill is not None else (seq + i) % 251) for i in range(n_data_bytes))
    return prefix + data


def signal_record(seq, line, n_data_bytes, *, scan_id=3, channel_id=1, frame=710):
    """record type 10 (level 1.0 / 1.1 signal data): 544 bytes of prefix + data"""
    length = 544 + n_data_bytes
    prefix = b"".join(
        [
            preamble(seq, 10, length),
            struct.pack(">6I", line, 1, 2, n_data_bytes // 8, 3, 0),
            struct.pack(">3I", 2019, 283, 12_345_678 + line),
            struct.pack(">4H", channel_id, 0, 1, 0),
            struct.pack(">2I", 1_500_000, scan_id),
            struct.pack(">2H", 1, 0),
            struct.pack(">4I", 30_000, 0, 1, 2),
            struct.pack(">Q", 12_345_678_901 + line),
            struct.pack(">2I", 40, 0),
            struct.pack(">4I", 1, 2, 3, 4),
            struct.pack(">3I", 800_000, 5_000, 0),
            struct.pack(">5I", 1, 34_500_000, 135_250_000, 628_000, 700_000),
            struct.pack(">6I", 1, 2, 3, 4, 5, 6),
            struct.pack(">2I", 190_000_000, 191_000_000),
            struct.pack(">3I", 7, 8, 9),
            struct.pack(">6I", 10, 11, 12, 13, 14, 15 + line),
            struct.pack(">2I", 2, 17 + line),
            b"\x00" * 60,
            struct.pack(">I", frame),
            b"aux" + b"\x00" * 253,
        ]
    )
    assert len(prefix) == 544, len(prefix)
    return prefix + bytes((seq * 3 + i) % 256 for i in range(n_data_bytes))


def _fill(subcon, values, prefix=()):
    from construct import Renamed, Struct

    name = subcon.name
    inner = subcon.subcon if isinstance(subcon, Renamed) else subcon
    if name == "preamble":
        return preamble(1, 192, 720)
    if isinstance(inner, Struct):
        return b"".join(_fill(sub, values, prefix + (name,)) for sub in inner.subcons)
    width = inner.sizeof()
    value = values.get(".".join(prefix + (name,)), values.get(name, ""))
    text = str(value)
    assert len(text) <= width, (name, text, width)
    if isinstance(value, int):
        return text.rjust(width).encode("ascii")
    return text.ljust(width).encode("ascii")


def file_descriptor(n_records, record_length, n_lines=None, n_pixels=4, type_code="IU2", **extra):
    """720 bytes of file descriptor; `extra` overrides fields by name"""
    from ceos_alos2.sar_image.file_descriptor import file_descriptor_record

    values = {
        "ascii_ebcdic_flag": "A",
        "format_control_document_id": "CEOS-SAR",
        "file_number": 2,
        "file_id": "IMOP",
        "number_of_sar_data_records": n_records,
        "sar_data_record_length": record_length,
        "number_of_lines_per_dataset": n_records if n_lines is None else n_lines,
        "number_of_data_groups_per_line": n_pixels,
        "interleaving_id": "BSQ",
        "sar_data_format_type_code": type_code,
        "sar_data_format_type_indicator": "UNSIGNED INTEGER*2",
    }
    values.update(extra)
    content = b"".join(_fill(sub, values) for sub in file_descriptor_record.subcons)
    assert len(content) == 720, len(content)
    return content


def image_file(kind, n_records, n_data_bytes, **descriptor):
    make = {"processed": processed_record, "signal": signal_record}[kind]
    prefix = {"processed": 192, "signal": 544}[kind]
    records = [make(index + 1, index + 1, n_data_bytes) for index in range(n_records)]
    header = file_descriptor(n_records, prefix + n_data_bytes, **descriptor)
    return header + b"".join(records)


class LoggingFile:
    """file-like object that records the requests it receives"""

    def __init__(self, content, log=None, coerce=False):
        import io as _io

        self._f = _io.BytesIO(content)
        self.log = [] if log is None else log
        self.coerce = coerce

    def read(self, size=-1):
        self.log.append(("read", size, self._f.tell()))
        if self.coerce:
            # fsspec's buffered files accept anything `int` accepts
            size = -1 if size is None else int(size)
        return self._f.read(size)

    def seek(self, offset, whence=0):
        self.log.append(("seek", offset, whence))
        return self._f.seek(offset, whence)

    def tell(self):
        return self._f.tell()

    def close(self):
        self.log.append(("close",))

    def __enter__(self):
        return self

    def __exit__(self, *args):
        self.close()

import collections  # noqa: E402
import copy  # noqa: E402
import datetime as dt  # noqa: E402

from ceos_alos2.sar_image import io as sio  # noqa: E402
from ceos_alos2.sar_image import metadata as md  # noqa: E402


# --------------------------------------------------------------------------
# apply_overrides
# --------------------------------------------------------------------------
def overridden(overrides, mapping):
    result = md.apply_overrides(overrides, mapping)
    return {
        "type": type(result).__name__,
        "result": result,
        "fresh": result is not mapping,
        "untouched values are the same objects": [
            name for name in result if name in mapping and result[name] is mapping[name]
        ],
    }


_ab = {"a": ("x", [1, 2], {}), "b": ("y", [1.0, 2.1], {"units": "m"})}

for _name, _overrides in {
    "a-int8": {"a": "int8"},
    "b-float16": {"b": "float16"},
    "both": {"a": "float32", "b": "int64"},
    "none": {},
    "unknown-name": {"c": "int8"},
    "dtype-object": {"a": np.dtype("uint16")},
    "dtype-type": {"a": float},
    "dtype-None": {"a": None},
    "str-dtype": {"a": "U3"},
    "invalid-dtype": {"b": "not-a-dtype"},
    "second-invalid": {"a": "int8", "b": "not-a-dtype"},
    "overrides-as-list": ["a"],
    "overrides-as-str": "ab",
    "overrides-None": None,
    "ordered": collections.OrderedDict(b="int8"),
    "defaultdict": collections.defaultdict(lambda: "int8"),
}.items():

    @case(f"apply_overrides/{_name}")
    def _(overrides=_overrides):
        return overridden(overrides, copy.deepcopy(_ab))


@case("apply_overrides/datetimes")
def _():
    mapping = {
        "t": (
            "rows",
            [dt.datetime(2020, 10, 1, 12, 37, 42, 451000), dt.datetime(2020, 10, 2)],
            {"a": 1},
        ),
        "s": ("rows", ["2020-01-01", "2021-02-03T04:05:06.123456789"], {}),
        "u": ("rows", [1, 2], {}),
    }
    overrides = {"t": "datetime64[ns]", "s": "datetime64[ns]", "u": "datetime64[s]", "z": "int8"}
    return overridden(overrides, mapping)


@case("apply_overrides/values-of-other-shapes")
def _():
    candidates = {
        "two-tuple": ("x", [1]),
        "four-tuple": ("x", [1], {}, 4),
        "list": ["x", [1, 2], {"u": 1}],
        "scalar": 4,
        "None": None,
        "str-of-3": "abc",
        "generator": (v for v in ("x", [1, 2], {})),
        "nested-data": ("x", [[1, 2], [3, 4]], {}),
        "ragged-data": ("x", [[1, 2], [3]], {}),
        "empty-data": ("x", [], {}),
        "scalar-data": ("x", 5, {}),
        "dict-data": ("x", [{}], {}),
        "array-data": ("x", np.array([1.5, 2.5]), {}),
    }
    results = {}
    for name, value in candidates.items():
        results[name] = [
            outcome(lambda: md.apply_overrides({"k": "int8"}, {"k": value})),
            # no override: passed through
            outcome(lambda: md.apply_overrides({"j": "int8"}, {"k": 4 if name == "generator" else value})),
        ]
    return results


@case("apply_overrides/order-and-empty")
def _():
    mapping = {"z": ("x", [1], {}), "a": 1, "m": ("y", [2], {})}
    return [
        overridden({"m": "int8", "z": "int16"}, mapping),
        overridden({"a": "int8"}, {}),
        overridden({}, {}),
    ]


@case("apply_overrides/dims-and-attrs-are-the-same-objects")
def _():
    dims, attrs = ["x"], {"units": "m"}
    result = md.apply_overrides({"a": "int8"}, {"a": (dims, [1], attrs)})
    return [result["a"][0] is dims, result["a"][2] is attrs, type(result["a"]).__name__]


@case("apply_overrides/dtype-is-looked-up-before-unpacking")
def _():
    # both the lookup (list index) and the unpacking (2 values) fail
    return outcome(lambda: md.apply_overrides(["k"], {"k": ("x", [1])}))


@case("apply_overrides/not-a-mapping")
def _():
    return [outcome(lambda v=v: md.apply_overrides({"a": "i1"}, v)) for v in (None, [("a", 1)], 3)]


# --------------------------------------------------------------------------
# deduplicate_attrs
# --------------------------------------------------------------------------
_abc = {"a": 1, "b": ("x", [1, 1], {}), "c": ("y", [2, 2], {})}

for _name, _known in {
    "b": ["b"],
    "c": ["c"],
    "b-c": ["b", "c"],
    "c-b": ["c", "b"],
    "set": {"b", "c"},
    "tuple": ("c",),
    "frozenset": frozenset({"b"}),
    "dict": {"b": None},
    "str": "bc",
    "none-known": [],
    "unknown-name": ["d"],
    "generator": None,
}.items():

    @case(f"deduplicate_attrs/{_name}")
    def _(known=_known):
        if known is None:
            known = (name for name in ["c", "b"])
        mapping = copy.deepcopy(_abc)
        result = md.deduplicate_attrs(known, mapping)
        return {"type": type(result).__name__, "result": result, "fresh": result is not mapping}


@case("deduplicate_attrs/scalar-is-known")
def _():
    return md.deduplicate_attrs(["a"], dict(_abc))


@case("deduplicate_attrs/order")
def _():
    mapping = {
        "k1": ("rows", [1, 2], {}),
        "v1": ("rows", [3, 4], {}),
        "k2": ("rows", ["a", "b"], {"u": 1}),
        "v2": 5,
        "k3": ("rows", [[1], [2]], {}),
    }
    return [
        md.deduplicate_attrs(["k3", "k1", "k2"], mapping),
        md.deduplicate_attrs({"k2"}, mapping),
        md.deduplicate_attrs([], mapping),
        md.deduplicate_attrs(list(mapping), mapping),
        md.deduplicate_attrs(["k1"], {}),
    ]


@case("deduplicate_attrs/values-of-other-shapes")
def _():
    candidates = {
        "empty-data": ("rows", [], {}),
        "one-tuple": ("rows",),
        "empty-tuple": (),
        "two-tuple": ("rows", [7, 8]),
        "list": ["rows", [7, 8], {}],
        "str-data": ("rows", "xyz", {}),
        "scalar-data": ("rows", 5, {}),
        "None-data": ("rows", None, {}),
        "scalar": 5,
        "None": None,
        "str": "abc",
        "generator": (v for v in ("rows", iter([9, 8]), {})),
        "dict-data": ("rows", {"p": 1, "q": 2}, {}),
        "set-data": ("rows", {3}, {}),
        "array-data": ("rows", np.array([[1, 2], [3, 4]]), {}),
        "tuple-data": ("rows", ((1, {"u": 1}), (2, {"u": 1})), {}),
    }
    results = {}
    for name, value in candidates.items():
        results[name] = [
            outcome(lambda: md.deduplicate_attrs(["k"], {"k": value, "other": 1})),
            outcome(lambda: md.deduplicate_attrs(["other"], {"k": value, "other": ("rows", [1], {})})),
        ]
    return results


@case("deduplicate_attrs/first-failure-wins")
def _():
    mapping = {"k1": ("rows", [], {}), "v": 1, "k2": 5}
    return [
        outcome(lambda: md.deduplicate_attrs(["k1", "k2"], mapping)),
        outcome(lambda: md.deduplicate_attrs(["k2", "k1"], dict(reversed(list(mapping.items()))))),
    ]


@case("deduplicate_attrs/unusual-known")
def _():
    return [
        outcome(lambda v=v: md.deduplicate_attrs(v, dict(_abc))) for v in (None, 3, [["b"]], {("b",)})
    ] + [outcome(lambda: md.deduplicate_attrs(None, {}))]


@case("deduplicate_attrs/not-a-mapping")
def _():
    return [outcome(lambda v=v: md.deduplicate_attrs(["a"], v)) for v in (None, [("a", 1)], 3)]


# --------------------------------------------------------------------------
# transform_line_metadata
# --------------------------------------------------------------------------
def parsed_records(kind, n, rpc=1024, **kwargs):
    content = image_file(kind, n, 8 if kind == "processed" else 16, **kwargs)
    _, metadata = sio.read_metadata(LoggingFile(content), rpc)
    return metadata


for _kind in ("processed", "signal"):
    for _n in (1, 2, 3, 6):

        @case(f"transform_line_metadata/{_kind}/{_n}")
        def _(kind=_kind, n=_n):
            metadata = parsed_records(kind, n)
            snapshot = describe(metadata)
            result = md.transform_line_metadata(metadata)
            return [result, describe(metadata) == snapshot]


@case("transform_line_metadata/no-records")
def _():
    return [md.transform_line_metadata([]), md.transform_line_metadata(())]


@case("transform_line_metadata/iterables")
def _():
    records = [{"scan_id": 1, "p": (1, {"units": "m"})}, {"scan_id": 1, "p": (2, {"units": "m"})}]
    return [
        md.transform_line_metadata(tuple(records)),
        md.transform_line_metadata(iter(records)),
        md.transform_line_metadata(r for r in records),
        md.transform_line_metadata([records]),
        md.transform_line_metadata({0: records[0], 1: records[1]}.values()),
    ]


_line_metadata = {
    "ignored": [
        {
            "preamble": {},
            "record_start": 1,
            "actual_count_of_left_fill_pixels": 0,
            "actual_count_of_right_fill_pixels": 0,
            "actual_count_of_data_pixels": 0,
            "palsar_auxiliary_data": b"",
            "blanks2": "",
            "data": {},
        }
    ],
    "ignored-and-known": [{"alos2_frame_number": 3, "a": 1}, {"alos2_frame_number": 4, "a": 2}],
    "variables": [{"a": (1, {"units": "m"})}, {"a": (2, {"units": "m"})}],
    "variables/differing-attrs": [{"a": (1, {"units": "m"})}, {"a": (2, {"units": "km"})}],
    "variables/mixed": [{"a": (1, {"units": "m"})}, {"a": 2}],
    "variables/mixed-reversed": [{"a": 2}, {"a": (1, {"units": "m"})}],
    "variables/three-tuples": [{"a": (1, {}, 3)}, {"a": (2, {}, 4)}],
    "variables/one-tuples": [{"a": (1,)}, {"a": (2,)}],
    "variables/lists": [{"a": [1, 2]}, {"a": [3, 4]}],
    "variables/sections": [{"a": {"x": (1, {"u": "m"}), "y": 2}}, {"a": {"x": (3, {"u": "m"}), "y": 4}}],
    "variables/None": [{"a": None}, {"a": None}],
    "variables/bytes": [{"a": b"x"}, {"a": b""}],
    "deduplicated": [{"scan_id": 1}, {"scan_id": 1}],
    "deduplicated/differing": [{"scan_id": 1}, {"scan_id": 2}, {"scan_id": 3}],
    "deduplicated/with-attrs": [{"scan_id": (1, {"u": "m"})}, {"scan_id": (2, {"u": "m"})}],
    "deduplicated/all": [
        {
            "sar_image_data_record_index": 1,
            "sensor_parameters_update_flag": 0,
            "scan_id": 2,
            "sar_channel_code": "L",
            "sar_channel_id": "single_polarization",
            "onboard_range_compressed_flag": True,
            "chirp_type_designator": "linear_fm_chirp",
            "platform_position_parameters_update_flag": "update",
            "geographic_reference_parameter_update_flag": 1,
            "transmitted_pulse_polarization": "horizontal",
            "received_pulse_polarization": "vertical",
            "other": index,
        }
        for index in range(3)
    ],
    "dates": [
        {"sensor_acquisition_date": dt.datetime(2020, 10, 1, 12, 37, 42, 451000)},
        {"sensor_acquisition_date": dt.datetime(2020, 10, 2, 12, 37, 42, 451000)},
    ],
    "dates/microseconds": [
        {"sensor_acquisition_date_microseconds": dt.datetime(2020, 10, 1, 12, 37, 42, 451001)},
        {"sensor_acquisition_date_microseconds": dt.datetime(2020, 10, 1, 12, 37, 42, 451002)},
    ],
    "dates/strings": [{"sensor_acquisition_date": "2020-10-01"}, {"sensor_acquisition_date": "NaT"}],
    "dates/invalid-strings": [{"sensor_acquisition_date": "yesterday"}],
    "dates/dicts": [{"sensor_acquisition_date": {"year": 2020}}],
    "dates/None": [{"sensor_acquisition_date": None}],
    "dates/mixed": [{"sensor_acquisition_date": dt.datetime(2020, 1, 1)}, {"sensor_acquisition_date": 5}],
    "dates/with-attrs": [
        {"sensor_acquisition_date": (dt.datetime(2020, 10, 1), {"long_name": "t"})},
        {"sensor_acquisition_date": (dt.datetime(2020, 10, 2), {"long_name": "t"})},
    ],
    "renamed": [{"sar_image_data_line_number": 1}, {"sar_image_data_line_number": 2}],
    "renamed/collision": [
        {"rows": 10, "sar_image_data_line_number": 1},
        {"rows": 20, "sar_image_data_line_number": 2},
    ],
    "renamed/collision-reversed": [
        {"sar_image_data_line_number": 1, "rows": 10},
        {"sar_image_data_line_number": 2, "rows": 20},
    ],
    "spares": [
        {"spare1": 1, "blanks": "", "blanks12": b"", "spare_x": 3, "blanksy": 4, "spare": 5, "a": 1},
        {"spare1": 1, "blanks": "", "blanks12": b"", "spare_x": 4, "blanksy": 5, "spare": 5, "a": 2},
    ],
    "spares/nested": [{"a": {"spare1": 1, "b": {"blanks2": 2, "c": 3}}}, {"a": {"spare2": 1}}],
    "differing-keys": [{"a": 1, "b": 2}, {"b": 3, "c": 4}, {"c": 5, "a": 6}],
    "differing-keys/known": [{"a": 1}, {"scan_id": 3, "a": 2}],
    "key-order": [{"z": 1, "scan_id": 1, "a": 2}, {"a": 3, "z": 4, "scan_id": 5}],
    "single-record": [{"a": (1, {"units": "m"}), "scan_id": 4, "sar_image_data_line_number": 9}],
    "non-string-keys": [{1: 2}],
    # a TypeError from inside one of the steps
    "bytes-keys": [{b"a": 2}],
    "unorderable-known-values": [{"scan_id": {"a": 1}}, {"scan_id": {"a": 2}}],
}

for _name, _records in _line_metadata.items():

    @case(f"transform_line_metadata/{_name}")
    def _(records=_records):
        records = copy.deepcopy(records)
        snapshot = describe(records)
        result = outcome(lambda: md.transform_line_metadata(records))
        return [result, describe(records) == snapshot]


@case("transform_line_metadata/not-records")
def _():
    values = [
        None,
        5,
        "ab",
        [None],
        [3],
        [None, None],
        [{"a": 1}, None],
        [None, {"a": 1}],
        [[("a", 1)]],
        [[{"a": 1}, {"a": 2}]],
        [["ab", "cd"]],
        [iter([{"a": 1}])],
        {"a": 1},
        {"a": {"b": 1}},
        [collections.OrderedDict(a=1), collections.UserDict(a=2)],
        [collections.UserDict(a=2)],
    ]
    return [outcome(lambda v=v: md.transform_line_metadata(v)) for v in values]


@case("transform_line_metadata/collaborators-are-looked-up-at-call-time")
def _():
    calls = []
    names = ["remove_spares", "dissoc", "separate_attrs", "deduplicate_attrs", "apply_overrides"]
    names += ["rename", "as_group"]
    originals = {name: getattr(md, name) for name in names}

    def spy(name, function):
        def wrapper(*args, **kwargs):
            calls.append((name, len(args), sorted(kwargs)))
            return function(*args, **kwargs)

        return wrapper

    for name, function in originals.items():
        setattr(md, name, spy(name, function))
    try:
        result = md.transform_line_metadata([{"a": 1, "scan_id": 2}, {"a": 3, "scan_id": 2}])
    finally:
        for name, function in originals.items():
            setattr(md, name, function)
    return [calls, result]


# --------------------------------------------------------------------------
# transform_metadata
# --------------------------------------------------------------------------
for _kind, _code in (("processed", "IU2"), ("signal", "C*8"), ("processed", "F*4")):
    for _n in (1, 4):

        @case(f"transform_metadata/{_kind}/{_code}/{_n}")
        def _(kind=_kind, code=_code, n=_n):
            size = 8 if kind == "processed" else 16
            content = image_file(kind, n, size, type_code=code, maximum_data_range_of_pixel=99)
            header, metadata = sio.read_metadata(LoggingFile(content), 3)
            return md.transform_metadata(header, metadata)


@case("module/public-names")
def _():
    names = [
        "extract_format_type",
        "extract_shape",
        "extract_attrs",
        "apply_overrides",
        "deduplicate_attrs",
        "transform_line_metadata",
        "transform_metadata",
        "dtypes",
    ]
    return {name: hasattr(md, name) for name in names}


# --------------------------------------------------------------------------
# recorded from the unchanged code (git HEAD) with `python equiv.py --record`
# --------------------------------------------------------------------------
EXPECTED = \
{'apply_overrides/a-int8': 'sha256:3258ac0746e2756d057b964a434657e7069c1b743971f75e6093e68766534f76 '
                           '(len 317)',
 'apply_overrides/b-float16': 'sha256:6b840b70814893401e763a68b8779829c5bad5889c2afc36b7d3d28e65ec0308 '
                              '(len 316)',
 'apply_overrides/both': 'sha256:a3a33a985ab07d8ea64ddeb8645c7e1302c57d090699fc6b2d336ece7847cb14 '
                         '(len 352)',
 'apply_overrides/none': 'sha256:2d67bba3eb853e76b4305d478cdccc271d949de2335056d022d1a31cdb4bfb55 '
                         '(len 284)',
 'apply_overrides/unknown-name': 'sha256:2d67bba3eb853e76b4305d478cdccc271d949de2335056d022d1a31cdb4bfb55 '
                                 '(len 284)',
 'apply_overrides/dtype-object': 'sha256:84d999325cf7b622281e46c6f48347fcfdbb76a1e03374e7e3ea008871da3baf '
                                 '(len 319)',
 'apply_overrides/dtype-type': 'sha256:af40f35ec4c0b173c28bc04f0b30c6de60e6df027796c6c9ef66eb842340d70c '
                               '(len 324)',
 'apply_overrides/dtype-None': 'sha256:42255674a53f66c091c833cb74cb2a06ef5ae42a8cfc5e8a3cc162a97c1c611d '
                               '(len 318)',
 'apply_overrides/str-dtype': 'sha256:c044e874f24f00a431271a6bfba0eb0ccded422d6ed0b2361bd3e2721bf00616 '
                              '(len 316)',
 'apply_overrides/invalid-dtype': "raised TypeError: data type 'not-a-dtype' not understood",
 'apply_overrides/second-invalid': "raised TypeError: data type 'not-a-dtype' not understood",
 'apply_overrides/overrides-as-list': 'raised TypeError: list indices must be integers or slices, '
                                      'not str',
 'apply_overrides/overrides-as-str': "raised TypeError: string indices must be integers, not 'str'",
 'apply_overrides/overrides-None': "raised TypeError: argument of type 'NoneType' is not iterable",
 'apply_overrides/ordered': 'sha256:141ea8539a85996b4790e96096e66fcb8603f9daef24d0d75b60ebfaf1ee3c9f '
                            '(len 309)',
 'apply_overrides/defaultdict': 'sha256:2d67bba3eb853e76b4305d478cdccc271d949de2335056d022d1a31cdb4bfb55 '
                                '(len 284)',
 'apply_overrides/datetimes': 'sha256:5da2b043c4760246a411d21506bb3a99719b72964d4adab755e68292ba459316 '
                              '(len 619)',
 'apply_overrides/values-of-other-shapes': 'sha256:288cdb2b411e67c2ceeea16e52bc8a3af1b199c8ea6f8b7d0488b5cb453c535a '
                                           '(len 2535)',
 'apply_overrides/order-and-empty': 'sha256:09142dc9faf08221cf25a68e20d897236d35609e2e8e571fb69aed8ae6beec80 '
                                    '(len 594)',
 'apply_overrides/dims-and-attrs-are-the-same-objects': 'returned list[bool:True, bool:True, '
                                                        "str:'tuple']",
 'apply_overrides/dtype-is-looked-up-before-unpacking': "returned str:'raised TypeError: list "
                                                        'indices must be integers or slices, not '
                                                        "str'",
 'apply_overrides/not-a-mapping': 'sha256:5dafbb04756470d1a788d0c6f1811e57fe83fbebd7eb47e523266d4bc512dbe3 '
                                  '(len 223)',
 'deduplicate_attrs/b': "returned dict{str:'type': str:'dict', str:'result': dict{str:'a': int:1, "
                        "str:'c': tuple[str:'y', list[int:2, int:2], dict{}], str:'b': int:1}, "
                        "str:'fresh': bool:True}",
 'deduplicate_attrs/c': "returned dict{str:'type': str:'dict', str:'result': dict{str:'a': int:1, "
                        "str:'b': tuple[str:'x', list[int:1, int:1], dict{}], str:'c': int:2}, "
                        "str:'fresh': bool:True}",
 'deduplicate_attrs/b-c': "returned dict{str:'type': str:'dict', str:'result': dict{str:'a': "
                          "int:1, str:'b': int:1, str:'c': int:2}, str:'fresh': bool:True}",
 'deduplicate_attrs/c-b': "returned dict{str:'type': str:'dict', str:'result': dict{str:'a': "
                          "int:1, str:'b': int:1, str:'c': int:2}, str:'fresh': bool:True}",
 'deduplicate_attrs/set': "returned dict{str:'type': str:'dict', str:'result': dict{str:'a': "
                          "int:1, str:'b': int:1, str:'c': int:2}, str:'fresh': bool:True}",
 'deduplicate_attrs/tuple': "returned dict{str:'type': str:'dict', str:'result': dict{str:'a': "
                            "int:1, str:'b': tuple[str:'x', list[int:1, int:1], dict{}], str:'c': "
                            "int:2}, str:'fresh': bool:True}",
 'deduplicate_attrs/frozenset': "returned dict{str:'type': str:'dict', str:'result': dict{str:'a': "
                                "int:1, str:'c': tuple[str:'y', list[int:2, int:2], dict{}], "
                                "str:'b': int:1}, str:'fresh': bool:True}",
 'deduplicate_attrs/dict': "returned dict{str:'type': str:'dict', str:'result': dict{str:'a': "
                           "int:1, str:'c': tuple[str:'y', list[int:2, int:2], dict{}], str:'b': "
                           "int:1}, str:'fresh': bool:True}",
 'deduplicate_attrs/str': "returned dict{str:'type': str:'dict', str:'result': dict{str:'a': "
                          "int:1, str:'b': int:1, str:'c': int:2}, str:'fresh': bool:True}",
 'deduplicate_attrs/none-known': 'sha256:6ca6b0fa525ed1807bd8a68186ec5e77a15d847f34a38e424be0efcf1a9aa9ea '
                                 '(len 203)',
 'deduplicate_attrs/unknown-name': 'sha256:6ca6b0fa525ed1807bd8a68186ec5e77a15d847f34a38e424be0efcf1a9aa9ea '
                                   '(len 203)',
 'deduplicate_attrs/generator': 'sha256:6ca6b0fa525ed1807bd8a68186ec5e77a15d847f34a38e424be0efcf1a9aa9ea '
                                '(len 203)',
 'deduplicate_attrs/scalar-is-known': "raised TypeError: 'int' object is not iterable",
 'deduplicate_attrs/order': "raised TypeError: 'int' object is not iterable",
 'deduplicate_attrs/values-of-other-shapes': 'sha256:4b4fc71b6247f1f106bcbb0454781ad630d48f39daed3ed36deeb11fdb8ae7ff '
                                             '(len 2760)',
 'deduplicate_attrs/first-failure-wins': 'returned list[str:"returned dict{str:\'v\': int:1}", '
                                         'str:"raised TypeError: \'int\' object is not iterable"]',
 'deduplicate_attrs/unusual-known': 'sha256:ae7faaf47799952a3158e98f463561007262d1e87b62c9eed0c14024fb409672 '
                                    '(len 455)',
 'deduplicate_attrs/not-a-mapping': 'sha256:5dafbb04756470d1a788d0c6f1811e57fe83fbebd7eb47e523266d4bc512dbe3 '
                                    '(len 223)',
 'transform_line_metadata/processed/1': 'sha256:5db1ad9352c1f371f026cfd556bb1ea1eb03814bad91828955439198e0cd11e9 '
                                        '(len 3530)',
 'transform_line_metadata/processed/2': 'sha256:60841a35188b627db8811ba853dfb6656232c088b17f554318fd2fe8b8b73a9f '
                                        '(len 3861)',
 'transform_line_metadata/processed/3': 'sha256:a722d4605fc2400753cd39adea7deaa99ede1878dc3373e265309d16470b2d84 '
                                        '(len 4188)',
 'transform_line_metadata/processed/6': 'sha256:bfced44b71bd42785a2d61a4c9374edf5084237592b2c1349761878fe88141d6 '
                                        '(len 5155)',
 'transform_line_metadata/signal/1': 'sha256:183e203f8d0a32dcd8d162f00d5120b0a104bb1bb818a98a0fcd29ad336d15e2 '
                                     '(len 4932)',
 'transform_line_metadata/signal/2': 'sha256:25d6b06d8ab5952427227d53f329ea5f8c946a8ed85f3c449bbd16242f997fb9 '
                                     '(len 6085)',
 'transform_line_metadata/signal/3': 'sha256:07ee745d1c1dfc6570d25f2e17ec41bb17deb717c457ef58cf84af12eff41800 '
                                     '(len 7238)',
 'transform_line_metadata/signal/6': 'sha256:a1fc28fbb5b07f9cc1db6176e27d09663b7809aaa7122be58c95ff01590d4ffc '
                                     '(len 10727)',
 'transform_line_metadata/no-records': "returned list[Group(path=str:'/', url=NoneType:None, "
                                       "attrs=dict{}, data=dict{}), Group(path=str:'/', "
                                       'url=NoneType:None, attrs=dict{}, data=dict{})]',
 'transform_line_metadata/iterables': 'sha256:75b30b9a054e3f2bd01e3de3d30f76582b25d22489992f32944d1af9888146f6 '
                                      '(len 943)',
 'transform_line_metadata/ignored': 'returned list[str:"returned Group(path=str:\'/\', '
                                    'url=NoneType:None, attrs=dict{}, data=dict{})", bool:True]',
 'transform_line_metadata/ignored-and-known': 'returned list[str:"returned Group(path=str:\'/\', '
                                              "url=NoneType:None, attrs=dict{}, data=dict{str:'a': "
                                              "Variable(dims=list[str:'rows'], data=list[int:1, "
                                              'int:2], attrs=dict{})})", bool:True]',
 'transform_line_metadata/variables': 'sha256:60e5367584070831b9bce09ef9421f94c0ddb430eae6cde219e01ec2e53d2688 '
                                      '(len 205)',
 'transform_line_metadata/variables/differing-attrs': 'sha256:60e5367584070831b9bce09ef9421f94c0ddb430eae6cde219e01ec2e53d2688 '
                                                      '(len 205)',
 'transform_line_metadata/variables/mixed': 'returned list[str:"raised TypeError: \'int\' object '
                                            'is not iterable", bool:True]',
 'transform_line_metadata/variables/mixed-reversed': 'sha256:bc01619a39c4af8d9a5450cf0214bfc55bbc5d5684d9bac3bda64bdba46518ff '
                                                     '(len 220)',
 'transform_line_metadata/variables/three-tuples': "returned list[str:'raised ValueError: too many "
                                                   "values to unpack (expected 2)', bool:True]",
 'transform_line_metadata/variables/one-tuples': "returned list[str:'raised ValueError: not enough "
                                                 "values to unpack (expected 2, got 1)', "
                                                 'bool:True]',
 'transform_line_metadata/variables/lists': 'sha256:5cf9d181f13704f710c0619aff6bfd3e1c4fcf7802b344687643d86361b3103d '
                                            '(len 211)',
 'transform_line_metadata/variables/sections': 'sha256:d335e3029af11fc19e8ed9638b5191a36a3a27ff3b82825fcdf070f064ebf13b '
                                               '(len 309)',
 'transform_line_metadata/variables/None': 'sha256:fa3468270d234b4384532f15230d0994cfbeb8210448f736c1984f75007cfa73 '
                                           '(len 201)',
 'transform_line_metadata/variables/bytes': 'returned list[str:"returned Group(path=str:\'/\', '
                                            "url=NoneType:None, attrs=dict{}, data=dict{str:'a': "
                                            "Variable(dims=list[str:'rows'], data=list[bytes:b'x', "
                                            'bytes:b\'\'], attrs=dict{})})", bool:True]',
 'transform_line_metadata/deduplicated': 'returned list[str:"returned Group(path=str:\'/\', '
                                         "url=NoneType:None, attrs=dict{str:'scan_id': int:1}, "
                                         'data=dict{})", bool:True]',
 'transform_line_metadata/deduplicated/differing': 'returned list[str:"returned '
                                                   "Group(path=str:'/', url=NoneType:None, "
                                                   "attrs=dict{str:'scan_id': int:1}, "
                                                   'data=dict{})", bool:True]',
 'transform_line_metadata/deduplicated/with-attrs': 'returned list[str:"returned '
                                                    "Group(path=str:'/', url=NoneType:None, "
                                                    "attrs=dict{str:'scan_id': int:1}, "
                                                    'data=dict{})", bool:True]',
 'transform_line_metadata/deduplicated/all': 'sha256:07d0fd1a5235b52de5665db83cce572d789873049f8089fdcf4460574263840d '
                                             '(len 710)',
 'transform_line_metadata/dates': 'sha256:7a5538b37ff4d51cd0e4eeea11907138d7e29a2c4d6d3a7dba8d14f431336195 '
                                  '(len 315)',
 'transform_line_metadata/dates/microseconds': 'sha256:463c4459e1f173bd1fc4de06aa06ee4c2ec97f6d6c5a2216e78ced8d16fd50d9 '
                                               '(len 328)',
 'transform_line_metadata/dates/strings': 'sha256:638d57940de0e0c4342acad1753ff2b09f735a8e75049a86c8121d4cc454cfa8 '
                                          '(len 289)',
 'transform_line_metadata/dates/invalid-strings': "returned list[str:'raised ValueError: Error "
                                                  'parsing datetime string "yesterday" at position '
                                                  "0', bool:True]",
 'transform_line_metadata/dates/dicts': "returned list[str:'raised ValueError: Could not convert "
                                        "object to NumPy datetime', bool:True]",
 'transform_line_metadata/dates/None': 'sha256:0aadfcb8a6842800943e9bf8a6e48d85c1fb6faba8176068edfbd6d2336d05ad '
                                       '(len 252)',
 'transform_line_metadata/dates/mixed': 'sha256:bd7cd3f2e2f8159e6e2715a8b88b11cee94e190dfea074183cda78205e7f7aed '
                                        '(len 315)',
 'transform_line_metadata/dates/with-attrs': 'sha256:a7fd53454cdd2ed03118ce31552a38b63d42b2df9ee58c7ec4c6b58455d3a45d '
                                             '(len 339)',
 'transform_line_metadata/renamed': 'returned list[str:"returned Group(path=str:\'/\', '
                                    "url=NoneType:None, attrs=dict{}, data=dict{str:'rows': "
                                    "Variable(dims=list[str:'rows'], data=list[int:1, int:2], "
                                    'attrs=dict{})})", bool:True]',
 'transform_line_metadata/renamed/collision': 'returned list[str:"returned Group(path=str:\'/\', '
                                              'url=NoneType:None, attrs=dict{}, '
                                              "data=dict{str:'rows': "
                                              "Variable(dims=list[str:'rows'], data=list[int:1, "
                                              'int:2], attrs=dict{})})", bool:True]',
 'transform_line_metadata/renamed/collision-reversed': 'returned list[str:"returned '
                                                       "Group(path=str:'/', url=NoneType:None, "
                                                       "attrs=dict{}, data=dict{str:'rows': "
                                                       "Variable(dims=list[str:'rows'], "
                                                       'data=list[int:10, int:20], '
                                                       'attrs=dict{})})", bool:True]',
 'transform_line_metadata/spares': 'sha256:41025dd646dbeeba57e982d43e36c5182d34be432d86ee247d972168800cb515 '
                                   '(len 359)',
 'transform_line_metadata/spares/nested': 'sha256:71a12b96813327be7ae32b15a41455b30e4bbfcc93eb2266d4c1b56d142aa4b1 '
                                          '(len 216)',
 'transform_line_metadata/differing-keys': 'sha256:8b727040595f5c9b2480436954cd317a8d06041f6bacc24098709c7bead7b25f '
                                           '(len 347)',
 'transform_line_metadata/differing-keys/known': 'sha256:59cf347d75897930cbfaf4cd0911dffb34510158f6238a45d98a23f3b19ff98e '
                                                 '(len 205)',
 'transform_line_metadata/key-order': 'sha256:a532acafe933099c50504d86e87d8f49a3e9b254f1cb9a0813a2ba427d1d4553 '
                                      '(len 286)',
 'transform_line_metadata/single-record': 'sha256:b9b6fe14b89fca5d2043da07ac8b0fc39b08efbfeb02a9fef3600975a45684c6 '
                                          '(len 295)',
 'transform_line_metadata/non-string-keys': 'returned list[str:"raised AttributeError: \'int\' '
                                            'object has no attribute \'startswith\'", bool:True]',
 'transform_line_metadata/bytes-keys': 'returned list[str:"raised TypeError: a bytes-like object '
                                       'is required, not \'str\'", bool:True]',
 'transform_line_metadata/unorderable-known-values': 'sha256:8881d4504c3cf9800126d7742ace73b3b28a1aad634e16216eaba2c700bd48c4 '
                                                     '(len 207)',
 'transform_line_metadata/not-records': 'sha256:7eacf672ee703fe2615fdff9156ea0251e45efbb26b1789e7636a6ec1f1200e4 '
                                        '(len 1549)',
 'transform_line_metadata/collaborators-are-looked-up-at-call-time': 'sha256:d92d141441d89d2f9124c9777586916bde19500fba7948840ad51757ba4dcab2 '
                                                                     '(len 536)',
 'transform_metadata/processed/IU2/1': 'sha256:dbe4ff6ac9003d2c9f0e0934dd9f288a323a0343ca269ee101344cee4281740f '
                                       '(len 4544)',
 'transform_metadata/processed/IU2/4': 'sha256:6915e9ad1a5eb53c4892e87d01709cf174043e46534deac254dd1851fb813775 '
                                       '(len 5601)',
 'transform_metadata/signal/C*8/1': 'sha256:0ebc7aede59edc6220e63bb3db80e23e27c5394d54415a5c7a62551755667db6 '
                                    '(len 6069)',
 'transform_metadata/signal/C*8/4': 'sha256:1df79fbb978f9bd00201556562004ac78ed33120834d6ef3f5187afc541454cd '
                                    '(len 9624)',
 'transform_metadata/processed/F*4/1': 'raised ValueError: unknown type code: F*4',
 'transform_metadata/processed/F*4/4': 'raised ValueError: unknown type code: F*4',
 'module/public-names': 'sha256:503587b4a3d1ccac4f112d3ae43f7f666ceebb77b4db6cafb1d4f3e9c10a0a21 '
                        '(len 289)'}

if __name__ == "__main__":
    sys.exit(main(EXPECTED))
