"""Equivalence check for refactoring 2 (date adapters in ceos_alos2/datatypes.py).

Run as ``python equiv.py`` or through pytest.  The expected values were recorded
from the unchanged code (HEAD) and must be reproduced with and without the patch.
"""

import datetime
import struct

import construct
from construct import Container, Int32sb, Int32ub, Int64sb, Int64ub, Struct, this

from ceos_alos2 import datatypes


def outcome(func, *args, **kwargs):
    try:
        value = func(*args, **kwargs)
    except Exception as e:  # noqa: BLE001
        return f"raised {type(e).__module__}.{type(e).__qualname__}: {e}"
    return f"{type(value).__name__} {value!r}"


ydms_base = Struct("year" / Int32ub, "day_of_year" / Int32ub, "milliseconds" / Int32ub)
ydms_signed = Struct("year" / Int32sb, "day_of_year" / Int32sb, "milliseconds" / Int32sb)

YDMS_VALUES = [
    (1990, 270, 52032102),
    (2059, 1, 0),
    (2014, 365, 86399999),
    (2016, 366, 0),
    (2015, 366, 0),
    (2015, 0, 0),
    (2015, 1, 86400000),
    (2015, 1, 4294967295),
    (1, 1, 0),
    (1, 0, 0),
    (9999, 365, 86399999),
    (9999, 366, 0),
    (0, 1, 0),
    (10000, 1, 0),
    (2015, 4294967295, 0),
    (2015, 999999999, 0),
    (0, 4294967295, 0),
    (4294967295, 4294967295, 4294967295),
    (2015, 1000000, 5),
]

YDMS_SIGNED = [
    (2015, -1, 0),
    (2015, 1, -1),
    (-1, 1, 0),
    (-1, -2147483648, 0),
    (2015, -2147483648, -2147483648),
]

YDMS_OBJECTS = [
    {"year": 2020, "day_of_year": 60, "milliseconds": 1},
    {"year": 2020, "day_of_year": 60.5, "milliseconds": 1.25},
    {"year": 2020.0, "day_of_year": 60, "milliseconds": 1},
    {"year": None, "day_of_year": 60, "milliseconds": 1},
    {"year": "2020", "day_of_year": 60, "milliseconds": 1},
    {"year": 2020, "day_of_year": None, "milliseconds": 1},
    {"year": 2020, "day_of_year": "60", "milliseconds": 1},
    {"year": 2020, "day_of_year": 60, "milliseconds": None},
    {"year": 2020, "day_of_year": 60, "milliseconds": "1"},
    {"year": 0, "day_of_year": None, "milliseconds": None},
    {"year": 0, "day_of_year": 10**12},
    {"year": 2020, "day_of_year": None},
    {"year": 2020, "day_of_year": 10**12, "milliseconds": None},
    {"day_of_year": 60, "milliseconds": 1},
    {"year": 2020, "milliseconds": 1},
    {"year": 2020, "day_of_year": 60},
    {"year": 0},
    {},
    {"year": True, "day_of_year": True, "milliseconds": True},
]

REFERENCES = [
    datetime.datetime(2019, 1, 1, 21, 37, 52, 107000),
    datetime.datetime(2019, 1, 1),
    datetime.datetime(2016, 2, 29, 23, 59, 59, 999999),
    datetime.datetime(1, 1, 1, 12),
    datetime.datetime(9999, 12, 31, 12),
    datetime.datetime(2019, 6, 1, 12, tzinfo=datetime.timezone.utc),
    datetime.datetime(2019, 6, 1, 1, tzinfo=datetime.timezone(datetime.timedelta(hours=5))),
]

MICROSECONDS = [0, 1, 40669000000, 86399999999, 86400000000, 2**40, 2**63 - 1, 2**64 - 1]
SIGNED_MICROSECONDS = [-1, -86400000000, -(2**63)]


class Recorder:
    """callable reference date which records how it is called"""

    def __init__(self, result):
        self.result = result
        self.calls = []

    def __call__(self, *args, **kwargs):
        self.calls.append((len(args), sorted(kwargs), [k for k in args[0] if k != "_io"]))
        if isinstance(self.result, Exception):
            raise self.result
        return self.result


class CallableDatetime(datetime.datetime):
    """a datetime which is also callable: the callable branch has to win"""

    def __call__(self, context):
        return datetime.datetime(1999, 12, 31, 7)


def observe():
    observed = []

    ydms = datatypes.DatetimeYdms(ydms_base)
    for values in YDMS_VALUES:
        data = struct.pack(">III", *values)
        observed.append(("ydms", values, outcome(ydms.parse, data)))
    signed = datatypes.DatetimeYdms(ydms_signed)
    for values in YDMS_SIGNED:
        data = struct.pack(">iii", *values)
        observed.append(("ydms-signed", values, outcome(signed.parse, data)))
    for obj in YDMS_OBJECTS:
        observed.append(("ydms._decode dict", repr(obj), outcome(ydms._decode, obj, {}, "(p)")))
        observed.append(
            ("ydms._decode container", repr(obj), outcome(ydms._decode, Container(obj), {}, "(p)"))
        )
    observed.append(("ydms._decode", "tuple", outcome(ydms._decode, (2020, 60, 1), {}, "(p)")))
    observed.append(("ydms._decode", "None", outcome(ydms._decode, None, {}, "(p)")))
    for data in [b"", b"\x00\x00\x07\xc6", b"\x00\x00\x07\xc6\x00\x00\x01\x0e\x03\x19\xf2"]:
        observed.append(("ydms truncated", data, outcome(ydms.parse, data)))
    observed.append(("ydms build", outcome(ydms.build, datetime.datetime(2020, 1, 1))))
    observed.append(("ydms _encode", outcome(ydms._encode, datetime.datetime(2020, 1, 1), {}, "")))
    observed.append(("ydms sizeof", outcome(ydms.sizeof)))
    observed.append(("ydms init", outcome(datatypes.DatetimeYdms, "not a construct")))

    # DatetimeYdus with constant reference dates
    for reference in REFERENCES:
        ydus = datatypes.DatetimeYdus(Int64ub, reference)
        for value in MICROSECONDS:
            data = struct.pack(">Q", value)
            observed.append(("ydus", repr(reference), value, outcome(ydus.parse, data)))
        ydus = datatypes.DatetimeYdus(Int64sb, reference)
        for value in SIGNED_MICROSECONDS:
            data = struct.pack(">q", value)
            observed.append(("ydus-signed", repr(reference), value, outcome(ydus.parse, data)))

    # odd constant references
    for reference in [
        datetime.date(2019, 1, 1),
        None,
        "2019-01-01",
        0,
        datetime.time(1),
    ]:
        ydus = datatypes.DatetimeYdus(Int64ub, reference)
        observed.append(("ydus odd", repr(reference), outcome(ydus.parse, struct.pack(">Q", 5))))

    # odd decoded values
    ydus = datatypes.DatetimeYdus(Int64ub, datetime.datetime(2019, 1, 1, 5))
    for obj in [1.5, None, "1", True, 10**30]:
        observed.append(("ydus._decode", repr(obj), outcome(ydus._decode, obj, {}, "(p)")))
    ydus = datatypes.DatetimeYdus(Int64ub, None)
    for obj in [1.5, None, "1"]:
        observed.append(("ydus._decode none-ref", repr(obj), outcome(ydus._decode, obj, {}, "(p)")))

    # callable references
    for result in [
        datetime.datetime(2021, 3, 4, 5, 6, 7, 8),
        datetime.date(2021, 3, 4),
        None,
        ValueError("boom"),
        KeyError("missing"),
    ]:
        recorder = Recorder(result)
        record = Struct("a" / Int32ub, "t" / datatypes.DatetimeYdus(Int64ub, recorder))
        data = struct.pack(">IQ", 7, 1000001)
        observed.append(
            (
                "ydus callable",
                repr(result),
                outcome(lambda: {k: v for k, v in record.parse(data).items() if k != "_io"}),
                repr(recorder.calls),
            )
        )
        # truncated: the reference must not be asked for
        recorder = Recorder(result)
        record = Struct("a" / Int32ub, "t" / datatypes.DatetimeYdus(Int64ub, recorder))
        observed.append(
            ("ydus callable truncated", outcome(record.parse, data[:8]), repr(recorder.calls))
        )
        # decoded value invalid: the reference is still asked for, first
        recorder = Recorder(result)
        adapter = datatypes.DatetimeYdus(Int64ub, recorder)
        observed.append(
            (
                "ydus callable bad obj",
                repr(result),
                outcome(adapter._decode, "x", Container(a=1), "(p)"),
                repr(recorder.calls),
            )
        )

    # path expressions, as used by the signal data record
    record = Struct(
        "date" / datatypes.DatetimeYdms(ydms_base),
        "precise" / datatypes.DatetimeYdus(Int64ub, this.date),
        "nested" / Struct("precise" / datatypes.DatetimeYdus(Int64ub, this._.date)),
    )
    for ydms_values, us1, us2 in [
        ((2019, 32, 3600000), 3600000123, 0),
        ((2019, 365, 86399999), 86399999999, 86400000000),
        ((2019, 1, 90000000), 5, 6),
        ((9999, 365, 0), 86400000000, 0),
        ((0, 1, 0), 5, 6),
    ]:
        data = struct.pack(">IIIQQ", *ydms_values, us1, us2)

        def parse(data=data):
            result = record.parse(data)
            return (result.date, result.precise, result.nested.precise)

        observed.append(("ydus path", ydms_values, us1, us2, outcome(parse)))
    broken = Struct("precise" / datatypes.DatetimeYdus(Int64ub, this.date))
    observed.append(("ydus path missing", outcome(broken.parse, struct.pack(">Q", 1))))
    broken = Struct("date" / Int32ub, "precise" / datatypes.DatetimeYdus(Int64ub, this.date))
    observed.append(("ydus path not a date", outcome(broken.parse, struct.pack(">IQ", 1, 1))))

    # a reference which is both a datetime and callable
    reference = CallableDatetime(2019, 1, 1, 21)
    ydus = datatypes.DatetimeYdus(Int64ub, reference)
    observed.append(("ydus callable datetime", outcome(ydus.parse, struct.pack(">Q", 5))))

    # construction
    reference = datetime.datetime(2019, 1, 1, 21)
    ydus = datatypes.DatetimeYdus(Int64ub, reference)
    observed.append(("ydus attrs", ydus.reference_date is reference, ydus.subcon is Int64ub))
    observed.append(("ydus attrs", sorted(vars(ydus))))
    observed.append(("ydus sizeof", outcome(ydus.sizeof)))
    observed.append(("ydus build", outcome(ydus.build, reference)))
    observed.append(("ydus _encode", outcome(ydus._encode, reference, {}, "")))
    observed.append(("ydus init", outcome(datatypes.DatetimeYdus, "not a construct", reference)))
    observed.append(("ydus init", outcome(datatypes.DatetimeYdus, Int64ub)))
    observed.append(
        ("ydus init kw", outcome(datatypes.DatetimeYdus, base=Int64ub, reference_date=reference))
    )
    observed.append(("ydus truncated", outcome(ydus.parse, b"\x00\x00")))
    observed.append(("construct", construct.__version__))

    return observed


EXPECTED = [('ydms', (1990, 270, 52032102), 'datetime datetime.datetime(1990, 9, 27, 14, 27, 12, 102000)'),
 ('ydms', (2059, 1, 0), 'datetime datetime.datetime(2059, 1, 1, 0, 0)'),
 ('ydms', (2014, 365, 86399999), 'datetime datetime.datetime(2014, 12, 31, 23, 59, 59, 999000)'),
 ('ydms', (2016, 366, 0), 'datetime datetime.datetime(2016, 12, 31, 0, 0)'),
 ('ydms', (2015, 366, 0), 'datetime datetime.datetime(2016, 1, 1, 0, 0)'),
 ('ydms', (2015, 0, 0), 'datetime datetime.datetime(2014, 12, 31, 0, 0)'),
 ('ydms', (2015, 1, 86400000), 'datetime datetime.datetime(2015, 1, 2, 0, 0)'),
 ('ydms', (2015, 1, 4294967295), 'datetime datetime.datetime(2015, 2, 19, 17, 2, 47, 295000)'),
 ('ydms', (1, 1, 0), 'datetime datetime.datetime(1, 1, 1, 0, 0)'),
 ('ydms', (1, 0, 0), 'raised builtins.OverflowError: date value out of range'),
 ('ydms', (9999, 365, 86399999), 'datetime datetime.datetime(9999, 12, 31, 23, 59, 59, 999000)'),
 ('ydms', (9999, 366, 0), 'raised builtins.OverflowError: date value out of range'),
 ('ydms', (0, 1, 0), 'raised builtins.ValueError: year 0 is out of range'),
 ('ydms', (10000, 1, 0), 'raised builtins.ValueError: year 10000 is out of range'),
 ('ydms',
  (2015, 4294967295, 0),
  'raised builtins.OverflowError: Python int too large to convert to C int'),
 ('ydms', (2015, 999999999, 0), 'raised builtins.OverflowError: date value out of range'),
 ('ydms', (0, 4294967295, 0), 'raised builtins.ValueError: year 0 is out of range'),
 ('ydms',
  (4294967295, 4294967295, 4294967295),
  'raised builtins.OverflowError: signed integer is greater than maximum'),
 ('ydms', (2015, 1000000, 5), 'datetime datetime.datetime(4752, 11, 27, 0, 0, 0, 5000)'),
 ('ydms-signed', (2015, -1, 0), 'datetime datetime.datetime(2014, 12, 30, 0, 0)'),
 ('ydms-signed', (2015, 1, -1), 'datetime datetime.datetime(2014, 12, 31, 23, 59, 59, 999000)'),
 ('ydms-signed', (-1, 1, 0), 'raised builtins.ValueError: year -1 is out of range'),
 ('ydms-signed', (-1, -2147483648, 0), 'raised builtins.ValueError: year -1 is out of range'),
 ('ydms-signed',
  (2015, -2147483648, -2147483648),
  'raised builtins.OverflowError: Python int too large to convert to C int'),
 ('ydms._decode dict',
  "{'year': 2020, 'day_of_year': 60, 'milliseconds': 1}",
  'datetime datetime.datetime(2020, 2, 29, 0, 0, 0, 1000)'),
 ('ydms._decode container',
  "{'year': 2020, 'day_of_year': 60, 'milliseconds': 1}",
  'datetime datetime.datetime(2020, 2, 29, 0, 0, 0, 1000)'),
 ('ydms._decode dict',
  "{'year': 2020, 'day_of_year': 60.5, 'milliseconds': 1.25}",
  'datetime datetime.datetime(2020, 2, 29, 12, 0, 0, 1250)'),
 ('ydms._decode container',
  "{'year': 2020, 'day_of_year': 60.5, 'milliseconds': 1.25}",
  'datetime datetime.datetime(2020, 2, 29, 12, 0, 0, 1250)'),
 ('ydms._decode dict',
  "{'year': 2020.0, 'day_of_year': 60, 'milliseconds': 1}",
  "raised builtins.TypeError: 'float' object cannot be interpreted as an integer"),
 ('ydms._decode container',
  "{'year': 2020.0, 'day_of_year': 60, 'milliseconds': 1}",
  "raised builtins.TypeError: 'float' object cannot be interpreted as an integer"),
 ('ydms._decode dict',
  "{'year': None, 'day_of_year': 60, 'milliseconds': 1}",
  "raised builtins.TypeError: 'NoneType' object cannot be interpreted as an integer"),
 ('ydms._decode container',
  "{'year': None, 'day_of_year': 60, 'milliseconds': 1}",
  "raised builtins.TypeError: 'NoneType' object cannot be interpreted as an integer"),
 ('ydms._decode dict',
  "{'year': '2020', 'day_of_year': 60, 'milliseconds': 1}",
  "raised builtins.TypeError: 'str' object cannot be interpreted as an integer"),
 ('ydms._decode container',
  "{'year': '2020', 'day_of_year': 60, 'milliseconds': 1}",
  "raised builtins.TypeError: 'str' object cannot be interpreted as an integer"),
 ('ydms._decode dict',
  "{'year': 2020, 'day_of_year': None, 'milliseconds': 1}",
  "raised builtins.TypeError: unsupported operand type(s) for -: 'NoneType' and 'int'"),
 ('ydms._decode container',
  "{'year': 2020, 'day_of_year': None, 'milliseconds': 1}",
  "raised builtins.TypeError: unsupported operand type(s) for -: 'NoneType' and 'int'"),
 ('ydms._decode dict',
  "{'year': 2020, 'day_of_year': '60', 'milliseconds': 1}",
  "raised builtins.TypeError: unsupported operand type(s) for -: 'str' and 'int'"),
 ('ydms._decode container',
  "{'year': 2020, 'day_of_year': '60', 'milliseconds': 1}",
  "raised builtins.TypeError: unsupported operand type(s) for -: 'str' and 'int'"),
 ('ydms._decode dict',
  "{'year': 2020, 'day_of_year': 60, 'milliseconds': None}",
  'raised builtins.TypeError: unsupported type for timedelta milliseconds component: NoneType'),
 ('ydms._decode container',
  "{'year': 2020, 'day_of_year': 60, 'milliseconds': None}",
  'raised builtins.TypeError: unsupported type for timedelta milliseconds component: NoneType'),
 ('ydms._decode dict',
  "{'year': 2020, 'day_of_year': 60, 'milliseconds': '1'}",
  'raised builtins.TypeError: unsupported type for timedelta milliseconds component: str'),
 ('ydms._decode container',
  "{'year': 2020, 'day_of_year': 60, 'milliseconds': '1'}",
  'raised builtins.TypeError: unsupported type for timedelta milliseconds component: str'),
 ('ydms._decode dict',
  "{'year': 0, 'day_of_year': None, 'milliseconds': None}",
  'raised builtins.ValueError: year 0 is out of range'),
 ('ydms._decode container',
  "{'year': 0, 'day_of_year': None, 'milliseconds': None}",
  'raised builtins.ValueError: year 0 is out of range'),
 ('ydms._decode dict',
  "{'year': 0, 'day_of_year': 1000000000000}",
  'raised builtins.ValueError: year 0 is out of range'),
 ('ydms._decode container',
  "{'year': 0, 'day_of_year': 1000000000000}",
  'raised builtins.ValueError: year 0 is out of range'),
 ('ydms._decode dict',
  "{'year': 2020, 'day_of_year': None}",
  "raised builtins.TypeError: unsupported operand type(s) for -: 'NoneType' and 'int'"),
 ('ydms._decode container',
  "{'year': 2020, 'day_of_year': None}",
  "raised builtins.TypeError: unsupported operand type(s) for -: 'NoneType' and 'int'"),
 ('ydms._decode dict',
  "{'year': 2020, 'day_of_year': 1000000000000, 'milliseconds': None}",
  'raised builtins.TypeError: unsupported type for timedelta milliseconds component: NoneType'),
 ('ydms._decode container',
  "{'year': 2020, 'day_of_year': 1000000000000, 'milliseconds': None}",
  'raised builtins.TypeError: unsupported type for timedelta milliseconds component: NoneType'),
 ('ydms._decode dict',
  "{'day_of_year': 60, 'milliseconds': 1}",
  "raised builtins.KeyError: 'year'"),
 ('ydms._decode container',
  "{'day_of_year': 60, 'milliseconds': 1}",
  "raised builtins.KeyError: 'year'"),
 ('ydms._decode dict',
  "{'year': 2020, 'milliseconds': 1}",
  "raised builtins.KeyError: 'day_of_year'"),
 ('ydms._decode container',
  "{'year': 2020, 'milliseconds': 1}",
  "raised builtins.KeyError: 'day_of_year'"),
 ('ydms._decode dict',
  "{'year': 2020, 'day_of_year': 60}",
  "raised builtins.KeyError: 'milliseconds'"),
 ('ydms._decode container',
  "{'year': 2020, 'day_of_year': 60}",
  "raised builtins.KeyError: 'milliseconds'"),
 ('ydms._decode dict', "{'year': 0}", 'raised builtins.ValueError: year 0 is out of range'),
 ('ydms._decode container', "{'year': 0}", 'raised builtins.ValueError: year 0 is out of range'),
 ('ydms._decode dict', '{}', "raised builtins.KeyError: 'year'"),
 ('ydms._decode container', '{}', "raised builtins.KeyError: 'year'"),
 ('ydms._decode dict',
  "{'year': True, 'day_of_year': True, 'milliseconds': True}",
  'datetime datetime.datetime(1, 1, 1, 0, 0, 0, 1000)'),
 ('ydms._decode container',
  "{'year': True, 'day_of_year': True, 'milliseconds': True}",
  'datetime datetime.datetime(1, 1, 1, 0, 0, 0, 1000)'),
 ('ydms._decode',
  'tuple',
  'raised builtins.TypeError: tuple indices must be integers or slices, not str'),
 ('ydms._decode', 'None', "raised builtins.TypeError: 'NoneType' object is not subscriptable"),
 ('ydms truncated',
  b'',
  'raised construct.core.StreamError: Error in path (parsing) -> year\n'
  'stream read less than specified amount, expected 4, found 0'),
 ('ydms truncated',
  b'\x00\x00\x07\xc6',
  'raised construct.core.StreamError: Error in path (parsing) -> day_of_year\n'
  'stream read less than specified amount, expected 4, found 0'),
 ('ydms truncated',
  b'\x00\x00\x07\xc6\x00\x00\x01\x0e\x03\x19\xf2',
  'raised construct.core.StreamError: Error in path (parsing) -> milliseconds\n'
  'stream read less than specified amount, expected 4, found 3'),
 ('ydms build', 'raised builtins.NotImplementedError: '),
 ('ydms _encode', 'raised builtins.NotImplementedError: '),
 ('ydms sizeof', 'int 12'),
 ('ydms init', 'raised builtins.TypeError: subcon should be a Construct field'),
 ('ydus',
  'datetime.datetime(2019, 1, 1, 21, 37, 52, 107000)',
  0,
  'datetime datetime.datetime(2019, 1, 1, 0, 0)'),
 ('ydus',
  'datetime.datetime(2019, 1, 1, 21, 37, 52, 107000)',
  1,
  'datetime datetime.datetime(2019, 1, 1, 0, 0, 0, 1)'),
 ('ydus',
  'datetime.datetime(2019, 1, 1, 21, 37, 52, 107000)',
  40669000000,
  'datetime datetime.datetime(2019, 1, 1, 11, 17, 49)'),
 ('ydus',
  'datetime.datetime(2019, 1, 1, 21, 37, 52, 107000)',
  86399999999,
  'datetime datetime.datetime(2019, 1, 1, 23, 59, 59, 999999)'),
 ('ydus',
  'datetime.datetime(2019, 1, 1, 21, 37, 52, 107000)',
  86400000000,
  'datetime datetime.datetime(2019, 1, 2, 0, 0)'),
 ('ydus',
  'datetime.datetime(2019, 1, 1, 21, 37, 52, 107000)',
  1099511627776,
  'datetime datetime.datetime(2019, 1, 13, 17, 25, 11, 627776)'),
 ('ydus',
  'datetime.datetime(2019, 1, 1, 21, 37, 52, 107000)',
  9223372036854775807,
  'raised builtins.OverflowError: date value out of range'),
 ('ydus',
  'datetime.datetime(2019, 1, 1, 21, 37, 52, 107000)',
  18446744073709551615,
  'raised builtins.OverflowError: date value out of range'),
 ('ydus-signed',
  'datetime.datetime(2019, 1, 1, 21, 37, 52, 107000)',
  -1,
  'datetime datetime.datetime(2018, 12, 31, 23, 59, 59, 999999)'),
 ('ydus-signed',
  'datetime.datetime(2019, 1, 1, 21, 37, 52, 107000)',
  -86400000000,
  'datetime datetime.datetime(2018, 12, 31, 0, 0)'),
 ('ydus-signed',
  'datetime.datetime(2019, 1, 1, 21, 37, 52, 107000)',
  -9223372036854775808,
  'raised builtins.OverflowError: date value out of range'),
 ('ydus', 'datetime.datetime(2019, 1, 1, 0, 0)', 0, 'datetime datetime.datetime(2019, 1, 1, 0, 0)'),
 ('ydus',
  'datetime.datetime(2019, 1, 1, 0, 0)',
  1,
  'datetime datetime.datetime(2019, 1, 1, 0, 0, 0, 1)'),
 ('ydus',
  'datetime.datetime(2019, 1, 1, 0, 0)',
  40669000000,
  'datetime datetime.datetime(2019, 1, 1, 11, 17, 49)'),
 ('ydus',
  'datetime.datetime(2019, 1, 1, 0, 0)',
  86399999999,
  'datetime datetime.datetime(2019, 1, 1, 23, 59, 59, 999999)'),
 ('ydus',
  'datetime.datetime(2019, 1, 1, 0, 0)',
  86400000000,
  'datetime datetime.datetime(2019, 1, 2, 0, 0)'),
 ('ydus',
  'datetime.datetime(2019, 1, 1, 0, 0)',
  1099511627776,
  'datetime datetime.datetime(2019, 1, 13, 17, 25, 11, 627776)'),
 ('ydus',
  'datetime.datetime(2019, 1, 1, 0, 0)',
  9223372036854775807,
  'raised builtins.OverflowError: date value out of range'),
 ('ydus',
  'datetime.datetime(2019, 1, 1, 0, 0)',
  18446744073709551615,
  'raised builtins.OverflowError: date value out of range'),
 ('ydus-signed',
  'datetime.datetime(2019, 1, 1, 0, 0)',
  -1,
  'datetime datetime.datetime(2018, 12, 31, 23, 59, 59, 999999)'),
 ('ydus-signed',
  'datetime.datetime(2019, 1, 1, 0, 0)',
  -86400000000,
  'datetime datetime.datetime(2018, 12, 31, 0, 0)'),
 ('ydus-signed',
  'datetime.datetime(2019, 1, 1, 0, 0)',
  -9223372036854775808,
  'raised builtins.OverflowError: date value out of range'),
 ('ydus',
  'datetime.datetime(2016, 2, 29, 23, 59, 59, 999999)',
  0,
  'datetime datetime.datetime(2016, 2, 29, 0, 0)'),
 ('ydus',
  'datetime.datetime(2016, 2, 29, 23, 59, 59, 999999)',
  1,
  'datetime datetime.datetime(2016, 2, 29, 0, 0, 0, 1)'),
 ('ydus',
  'datetime.datetime(2016, 2, 29, 23, 59, 59, 999999)',
  40669000000,
  'datetime datetime.datetime(2016, 2, 29, 11, 17, 49)'),
 ('ydus',
  'datetime.datetime(2016, 2, 29, 23, 59, 59, 999999)',
  86399999999,
  'datetime datetime.datetime(2016, 2, 29, 23, 59, 59, 999999)'),
 ('ydus',
  'datetime.datetime(2016, 2, 29, 23, 59, 59, 999999)',
  86400000000,
  'datetime datetime.datetime(2016, 3, 1, 0, 0)'),
 ('ydus',
  'datetime.datetime(2016, 2, 29, 23, 59, 59, 999999)',
  1099511627776,
  'datetime datetime.datetime(2016, 3, 12, 17, 25, 11, 627776)'),
 ('ydus',
  'datetime.datetime(2016, 2, 29, 23, 59, 59, 999999)',
  9223372036854775807,
  'raised builtins.OverflowError: date value out of range'),
 ('ydus',
  'datetime.datetime(2016, 2, 29, 23, 59, 59, 999999)',
  18446744073709551615,
  'raised builtins.OverflowError: date value out of range'),
 ('ydus-signed',
  'datetime.datetime(2016, 2, 29, 23, 59, 59, 999999)',
  -1,
  'datetime datetime.datetime(2016, 2, 28, 23, 59, 59, 999999)'),
 ('ydus-signed',
  'datetime.datetime(2016, 2, 29, 23, 59, 59, 999999)',
  -86400000000,
  'datetime datetime.datetime(2016, 2, 28, 0, 0)'),
 ('ydus-signed',
  'datetime.datetime(2016, 2, 29, 23, 59, 59, 999999)',
  -9223372036854775808,
  'raised builtins.OverflowError: date value out of range'),
 ('ydus', 'datetime.datetime(1, 1, 1, 12, 0)', 0, 'datetime datetime.datetime(1, 1, 1, 0, 0)'),
 ('ydus',
  'datetime.datetime(1, 1, 1, 12, 0)',
  1,
  'datetime datetime.datetime(1, 1, 1, 0, 0, 0, 1)'),
 ('ydus',
  'datetime.datetime(1, 1, 1, 12, 0)',
  40669000000,
  'datetime datetime.datetime(1, 1, 1, 11, 17, 49)'),
 ('ydus',
  'datetime.datetime(1, 1, 1, 12, 0)',
  86399999999,
  'datetime datetime.datetime(1, 1, 1, 23, 59, 59, 999999)'),
 ('ydus',
  'datetime.datetime(1, 1, 1, 12, 0)',
  86400000000,
  'datetime datetime.datetime(1, 1, 2, 0, 0)'),
 ('ydus',
  'datetime.datetime(1, 1, 1, 12, 0)',
  1099511627776,
  'datetime datetime.datetime(1, 1, 13, 17, 25, 11, 627776)'),
 ('ydus',
  'datetime.datetime(1, 1, 1, 12, 0)',
  9223372036854775807,
  'raised builtins.OverflowError: date value out of range'),
 ('ydus',
  'datetime.datetime(1, 1, 1, 12, 0)',
  18446744073709551615,
  'raised builtins.OverflowError: date value out of range'),
 ('ydus-signed',
  'datetime.datetime(1, 1, 1, 12, 0)',
  -1,
  'raised builtins.OverflowError: date value out of range'),
 ('ydus-signed',
  'datetime.datetime(1, 1, 1, 12, 0)',
  -86400000000,
  'raised builtins.OverflowError: date value out of range'),
 ('ydus-signed',
  'datetime.datetime(1, 1, 1, 12, 0)',
  -9223372036854775808,
  'raised builtins.OverflowError: date value out of range'),
 ('ydus',
  'datetime.datetime(9999, 12, 31, 12, 0)',
  0,
  'datetime datetime.datetime(9999, 12, 31, 0, 0)'),
 ('ydus',
  'datetime.datetime(9999, 12, 31, 12, 0)',
  1,
  'datetime datetime.datetime(9999, 12, 31, 0, 0, 0, 1)'),
 ('ydus',
  'datetime.datetime(9999, 12, 31, 12, 0)',
  40669000000,
  'datetime datetime.datetime(9999, 12, 31, 11, 17, 49)'),
 ('ydus',
  'datetime.datetime(9999, 12, 31, 12, 0)',
  86399999999,
  'datetime datetime.datetime(9999, 12, 31, 23, 59, 59, 999999)'),
 ('ydus',
  'datetime.datetime(9999, 12, 31, 12, 0)',
  86400000000,
  'raised builtins.OverflowError: date value out of range'),
 ('ydus',
  'datetime.datetime(9999, 12, 31, 12, 0)',
  1099511627776,
  'raised builtins.OverflowError: date value out of range'),
 ('ydus',
  'datetime.datetime(9999, 12, 31, 12, 0)',
  9223372036854775807,
  'raised builtins.OverflowError: date value out of range'),
 ('ydus',
  'datetime.datetime(9999, 12, 31, 12, 0)',
  18446744073709551615,
  'raised builtins.OverflowError: date value out of range'),
 ('ydus-signed',
  'datetime.datetime(9999, 12, 31, 12, 0)',
  -1,
  'datetime datetime.datetime(9999, 12, 30, 23, 59, 59, 999999)'),
 ('ydus-signed',
  'datetime.datetime(9999, 12, 31, 12, 0)',
  -86400000000,
  'datetime datetime.datetime(9999, 12, 30, 0, 0)'),
 ('ydus-signed',
  'datetime.datetime(9999, 12, 31, 12, 0)',
  -9223372036854775808,
  'raised builtins.OverflowError: date value out of range'),
 ('ydus',
  'datetime.datetime(2019, 6, 1, 12, 0, tzinfo=datetime.timezone.utc)',
  0,
  'datetime datetime.datetime(2019, 6, 1, 0, 0)'),
 ('ydus',
  'datetime.datetime(2019, 6, 1, 12, 0, tzinfo=datetime.timezone.utc)',
  1,
  'datetime datetime.datetime(2019, 6, 1, 0, 0, 0, 1)'),
 ('ydus',
  'datetime.datetime(2019, 6, 1, 12, 0, tzinfo=datetime.timezone.utc)',
  40669000000,
  'datetime datetime.datetime(2019, 6, 1, 11, 17, 49)'),
 ('ydus',
  'datetime.datetime(2019, 6, 1, 12, 0, tzinfo=datetime.timezone.utc)',
  86399999999,
  'datetime datetime.datetime(2019, 6, 1, 23, 59, 59, 999999)'),
 ('ydus',
  'datetime.datetime(2019, 6, 1, 12, 0, tzinfo=datetime.timezone.utc)',
  86400000000,
  'datetime datetime.datetime(2019, 6, 2, 0, 0)'),
 ('ydus',
  'datetime.datetime(2019, 6, 1, 12, 0, tzinfo=datetime.timezone.utc)',
  1099511627776,
  'datetime datetime.datetime(2019, 6, 13, 17, 25, 11, 627776)'),
 ('ydus',
  'datetime.datetime(2019, 6, 1, 12, 0, tzinfo=datetime.timezone.utc)',
  9223372036854775807,
  'raised builtins.OverflowError: date value out of range'),
 ('ydus',
  'datetime.datetime(2019, 6, 1, 12, 0, tzinfo=datetime.timezone.utc)',
  18446744073709551615,
  'raised builtins.OverflowError: date value out of range'),
 ('ydus-signed',
  'datetime.datetime(2019, 6, 1, 12, 0, tzinfo=datetime.timezone.utc)',
  -1,
  'datetime datetime.datetime(2019, 5, 31, 23, 59, 59, 999999)'),
 ('ydus-signed',
  'datetime.datetime(2019, 6, 1, 12, 0, tzinfo=datetime.timezone.utc)',
  -86400000000,
  'datetime datetime.datetime(2019, 5, 31, 0, 0)'),
 ('ydus-signed',
  'datetime.datetime(2019, 6, 1, 12, 0, tzinfo=datetime.timezone.utc)',
  -9223372036854775808,
  'raised builtins.OverflowError: date value out of range'),
 ('ydus',
  'datetime.datetime(2019, 6, 1, 1, 0, '
  'tzinfo=datetime.timezone(datetime.timedelta(seconds=18000)))',
  0,
  'datetime datetime.datetime(2019, 6, 1, 0, 0)'),
 ('ydus',
  'datetime.datetime(2019, 6, 1, 1, 0, '
  'tzinfo=datetime.timezone(datetime.timedelta(seconds=18000)))',
  1,
  'datetime datetime.datetime(2019, 6, 1, 0, 0, 0, 1)'),
 ('ydus',
  'datetime.datetime(2019, 6, 1, 1, 0, '
  'tzinfo=datetime.timezone(datetime.timedelta(seconds=18000)))',
  40669000000,
  'datetime datetime.datetime(2019, 6, 1, 11, 17, 49)'),
 ('ydus',
  'datetime.datetime(2019, 6, 1, 1, 0, '
  'tzinfo=datetime.timezone(datetime.timedelta(seconds=18000)))',
  86399999999,
  'datetime datetime.datetime(2019, 6, 1, 23, 59, 59, 999999)'),
 ('ydus',
  'datetime.datetime(2019, 6, 1, 1, 0, '
  'tzinfo=datetime.timezone(datetime.timedelta(seconds=18000)))',
  86400000000,
  'datetime datetime.datetime(2019, 6, 2, 0, 0)'),
 ('ydus',
  'datetime.datetime(2019, 6, 1, 1, 0, '
  'tzinfo=datetime.timezone(datetime.timedelta(seconds=18000)))',
  1099511627776,
  'datetime datetime.datetime(2019, 6, 13, 17, 25, 11, 627776)'),
 ('ydus',
  'datetime.datetime(2019, 6, 1, 1, 0, '
  'tzinfo=datetime.timezone(datetime.timedelta(seconds=18000)))',
  9223372036854775807,
  'raised builtins.OverflowError: date value out of range'),
 ('ydus',
  'datetime.datetime(2019, 6, 1, 1, 0, '
  'tzinfo=datetime.timezone(datetime.timedelta(seconds=18000)))',
  18446744073709551615,
  'raised builtins.OverflowError: date value out of range'),
 ('ydus-signed',
  'datetime.datetime(2019, 6, 1, 1, 0, '
  'tzinfo=datetime.timezone(datetime.timedelta(seconds=18000)))',
  -1,
  'datetime datetime.datetime(2019, 5, 31, 23, 59, 59, 999999)'),
 ('ydus-signed',
  'datetime.datetime(2019, 6, 1, 1, 0, '
  'tzinfo=datetime.timezone(datetime.timedelta(seconds=18000)))',
  -86400000000,
  'datetime datetime.datetime(2019, 5, 31, 0, 0)'),
 ('ydus-signed',
  'datetime.datetime(2019, 6, 1, 1, 0, '
  'tzinfo=datetime.timezone(datetime.timedelta(seconds=18000)))',
  -9223372036854775808,
  'raised builtins.OverflowError: date value out of range'),
 ('ydus odd',
  'datetime.date(2019, 1, 1)',
  "raised builtins.AttributeError: 'datetime.date' object has no attribute 'date'"),
 ('ydus odd', 'None', "raised builtins.AttributeError: 'NoneType' object has no attribute 'date'"),
 ('ydus odd',
  "'2019-01-01'",
  "raised builtins.AttributeError: 'str' object has no attribute 'date'"),
 ('ydus odd', '0', "raised builtins.AttributeError: 'int' object has no attribute 'date'"),
 ('ydus odd',
  'datetime.time(1, 0)',
  "raised builtins.AttributeError: 'datetime.time' object has no attribute 'date'"),
 ('ydus._decode', '1.5', 'datetime datetime.datetime(2019, 1, 1, 0, 0, 0, 2)'),
 ('ydus._decode',
  'None',
  'raised builtins.TypeError: unsupported type for timedelta microseconds component: NoneType'),
 ('ydus._decode',
  "'1'",
  'raised builtins.TypeError: unsupported type for timedelta microseconds component: str'),
 ('ydus._decode', 'True', 'datetime datetime.datetime(2019, 1, 1, 0, 0, 0, 1)'),
 ('ydus._decode',
  '1000000000000000000000000000000',
  'raised builtins.OverflowError: Python int too large to convert to C int'),
 ('ydus._decode none-ref',
  '1.5',
  "raised builtins.AttributeError: 'NoneType' object has no attribute 'date'"),
 ('ydus._decode none-ref',
  'None',
  "raised builtins.AttributeError: 'NoneType' object has no attribute 'date'"),
 ('ydus._decode none-ref',
  "'1'",
  "raised builtins.AttributeError: 'NoneType' object has no attribute 'date'"),
 ('ydus callable',
  'datetime.datetime(2021, 3, 4, 5, 6, 7, 8)',
  "dict {'a': 7, 't': datetime.datetime(2021, 3, 4, 0, 0, 1, 1)}",
  "[(1, [], ['_', '_params', '_root', '_parsing', '_building', '_sizing', '_subcons', '_index', "
  "'a'])]"),
 ('ydus callable truncated',
  'raised construct.core.StreamError: Error in path (parsing) -> t\n'
  'stream read less than specified amount, expected 8, found 4',
  '[]'),
 ('ydus callable bad obj',
  'datetime.datetime(2021, 3, 4, 5, 6, 7, 8)',
  'raised builtins.TypeError: unsupported type for timedelta microseconds component: str',
  "[(1, [], ['a'])]"),
 ('ydus callable',
  'datetime.date(2021, 3, 4)',
  "raised builtins.AttributeError: 'datetime.date' object has no attribute 'date'",
  "[(1, [], ['_', '_params', '_root', '_parsing', '_building', '_sizing', '_subcons', '_index', "
  "'a'])]"),
 ('ydus callable truncated',
  'raised construct.core.StreamError: Error in path (parsing) -> t\n'
  'stream read less than specified amount, expected 8, found 4',
  '[]'),
 ('ydus callable bad obj',
  'datetime.date(2021, 3, 4)',
  "raised builtins.AttributeError: 'datetime.date' object has no attribute 'date'",
  "[(1, [], ['a'])]"),
 ('ydus callable',
  'None',
  "raised builtins.AttributeError: 'NoneType' object has no attribute 'date'",
  "[(1, [], ['_', '_params', '_root', '_parsing', '_building', '_sizing', '_subcons', '_index', "
  "'a'])]"),
 ('ydus callable truncated',
  'raised construct.core.StreamError: Error in path (parsing) -> t\n'
  'stream read less than specified amount, expected 8, found 4',
  '[]'),
 ('ydus callable bad obj',
  'None',
  "raised builtins.AttributeError: 'NoneType' object has no attribute 'date'",
  "[(1, [], ['a'])]"),
 ('ydus callable',
  "ValueError('boom')",
  'raised builtins.ValueError: boom',
  "[(1, [], ['_', '_params', '_root', '_parsing', '_building', '_sizing', '_subcons', '_index', "
  "'a'])]"),
 ('ydus callable truncated',
  'raised construct.core.StreamError: Error in path (parsing) -> t\n'
  'stream read less than specified amount, expected 8, found 4',
  '[]'),
 ('ydus callable bad obj',
  "ValueError('boom')",
  'raised builtins.ValueError: boom',
  "[(1, [], ['a'])]"),
 ('ydus callable',
  "KeyError('missing')",
  "raised builtins.KeyError: 'missing'",
  "[(1, [], ['_', '_params', '_root', '_parsing', '_building', '_sizing', '_subcons', '_index', "
  "'a'])]"),
 ('ydus callable truncated',
  'raised construct.core.StreamError: Error in path (parsing) -> t\n'
  'stream read less than specified amount, expected 8, found 4',
  '[]'),
 ('ydus callable bad obj',
  "KeyError('missing')",
  "raised builtins.KeyError: 'missing'",
  "[(1, [], ['a'])]"),
 ('ydus path',
  (2019, 32, 3600000),
  3600000123,
  0,
  'tuple (datetime.datetime(2019, 2, 1, 1, 0), datetime.datetime(2019, 2, 1, 1, 0, 0, 123), '
  'datetime.datetime(2019, 2, 1, 0, 0))'),
 ('ydus path',
  (2019, 365, 86399999),
  86399999999,
  86400000000,
  'tuple (datetime.datetime(2019, 12, 31, 23, 59, 59, 999000), datetime.datetime(2019, 12, 31, 23, '
  '59, 59, 999999), datetime.datetime(2020, 1, 1, 0, 0))'),
 ('ydus path',
  (2019, 1, 90000000),
  5,
  6,
  'tuple (datetime.datetime(2019, 1, 2, 1, 0), datetime.datetime(2019, 1, 2, 0, 0, 0, 5), '
  'datetime.datetime(2019, 1, 2, 0, 0, 0, 6))'),
 ('ydus path',
  (9999, 365, 0),
  86400000000,
  0,
  'raised builtins.OverflowError: date value out of range'),
 ('ydus path', (0, 1, 0), 5, 6, 'raised builtins.ValueError: year 0 is out of range'),
 ('ydus path missing', "raised builtins.KeyError: 'date'"),
 ('ydus path not a date', "raised builtins.AttributeError: 'int' object has no attribute 'date'"),
 ('ydus callable datetime', 'datetime datetime.datetime(1999, 12, 31, 0, 0, 0, 5)'),
 ('ydus attrs', True, True),
 ('ydus attrs', ['docs', 'flagbuildnone', 'name', 'parsed', 'reference_date', 'subcon']),
 ('ydus sizeof', 'int 8'),
 ('ydus build', 'raised builtins.NotImplementedError: '),
 ('ydus _encode', 'raised builtins.NotImplementedError: '),
 ('ydus init', 'raised builtins.TypeError: subcon should be a Construct field'),
 ('ydus init',
  'raised builtins.TypeError: DatetimeYdus.__init__() missing 1 required positional argument: '
  "'reference_date'"),
 ('ydus init kw', 'DatetimeYdus <DatetimeYdus <FormatField>>'),
 ('ydus truncated',
  'raised construct.core.StreamError: Error in path (parsing)\n'
  'stream read less than specified amount, expected 8, found 2'),
 ('construct', '2.10.70')]


def test_equivalence():
    observed = observe()
    assert len(observed) == len(EXPECTED)
    for actual, expected in zip(observed, EXPECTED):
        assert actual == expected
    assert observed == EXPECTED


if __name__ == "__main__":
    test_equivalence()
    print(f"ok: {len(EXPECTED)} observations identical")
