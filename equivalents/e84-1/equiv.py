"""equivalence check for refactoring 1: `ceos_alos2.summary.parse_summary`

Runs `parse_summary` (directly and through `open_summary`) on a spread of inputs and
compares a canonical description of the result (values, key order, types, exception types,
messages, chaining, exception group members) with the description recorded from the
UNCHANGED code (commit 343c5cf).

run as a script (`python equiv.py`) or with pytest (`pytest equiv.py`).
"""

import sys

# --- shared description helpers (copied verbatim into every equiv.py) ---
import datetime


def describe_exc(e, depth=0):
    if e is None:
        return None
    if depth > 4:
        return ("exc", type(e).__name__, "...")
    out = {
        "type": type(e).__module__ + "." + type(e).__qualname__,
        "args": describe(e.args),
        "str": str(e),
        "cause": describe_exc(e.__cause__, depth + 1),
        "context": describe_exc(e.__context__, depth + 1),
        "suppress_context": e.__suppress_context__,
    }
    if hasattr(e, "exceptions"):
        out["exceptions"] = [describe_exc(sub, depth + 1) for sub in e.exceptions]
        out["message"] = e.message
    return out


def describe(obj):
    """canonical, order- and type-preserving description of a result"""
    from ceos_alos2.hierarchy import Group, Variable

    if isinstance(obj, Group):
        return {
            "Group": {
                "path": describe(obj.path),
                "url": describe(obj.url),
                "data": describe(obj.data),
                "attrs": describe(obj.attrs),
            }
        }
    if isinstance(obj, Variable):
        return {"Variable": [describe(obj.dims), repr(obj.data), describe(obj.attrs)]}
    if isinstance(obj, dict):
        return {"dict:" + type(obj).__name__: [[describe(k), describe(v)] for k, v in obj.items()]}
    if isinstance(obj, (list, tuple)):
        return {type(obj).__name__: [describe(v) for v in obj]}
    if isinstance(obj, BaseException):
        return {"exception-object": describe_exc(obj)}
    if isinstance(obj, (datetime.datetime, datetime.date)):
        return {type(obj).__name__: obj.isoformat()}
    return {type(obj).__name__: repr(obj)}


def run(func, *args, **kwargs):
    try:
        result = func(*args, **kwargs)
    except BaseException as e:  # noqa: B036 - we want StopIteration and friends, too
        return {"raised": describe_exc(e)}
    return {"returned": describe(result)}


import fsspec

from ceos_alos2 import summary

full_summary = "\n".join(
    [
        'Odi_SceneId="SARD000000276461-00043-005-000"',
        'Scs_SceneID="ALOS2225333200-180726"',
        'Scs_SceneShift="0"',
        'Pds_ProductID="WWDR1.1__D"',
        'Pds_ResamplingMethod="NN"',
        'Pds_UTM_ZoneNo="0"',
        'Img_SceneCenterDateTime="20180726 13:09:44.204"',
        'Img_OffNadirAngle="21.3"',
        'Pdi_CntOfL11ProductFileName="4"',
        'Pdi_L11ProductFileName01="VOL-ALOS2225333200-180726-WWDR1.1__D"',
        'Pdi_L11ProductFileName02="LED-ALOS2225333200-180726-WWDR1.1__D"',
        'Pdi_L11ProductFileName03="IMG-HH-ALOS2225333200-180726-WWDR1.1__D-F1"',
        'Pdi_L11ProductFileName04="TRL-ALOS2225333200-180726-WWDR1.1__D"',
        'Pdi_NoOfPixels_HH="8000"',
        'Pdi_NoOfLines_HH="9000"',
        'Pdi_ProductDataSize="798.2"',
        'Ach_PRF_Check=""',
        'Rad_PracticeResultCode="GOOD"',
        'Lbi_Sensor="SAR"',
        'Lbi_ObservationDate="20180726"',
    ]
)

contents = {
    "empty": "",
    "single": 'Scs_SceneShift="0"',
    "two_sections": 'Scs_SceneShift="0"\nPds_ProductID="WWDR1.1__D"',
    "trailing_newline": 'Scs_SceneShift="0"\nPds_ProductID="WWDR1.1__D"\n',
    "crlf": 'Scs_SceneShift="0"\r\nPds_ProductID="WWDR1.1__D"\r\n',
    "other_line_separators": 'Scs_a="0"\x0bPds_b="1" Img_c="2"\x1cImg_d="3"',
    "interleaved_sections": 'Scs_a="1"\nPds_b="2"\nScs_c="3"\nPds_d="4"\nAch_e="5"\nScs_f="6"',
    "duplicate_keyword": 'Scs_a="1"\nScs_b="2"\nScs_a="3"',
    "duplicate_keyword_interleaved": 'Scs_a="1"\nPds_a="x"\nScs_b="2"\nScs_a="3"\nPds_a="y"',
    "case_variants_of_a_section": 'Scs_a="1"\nScs_b="2"\nSCS_c="3"\nPds_x="0"\nscs_d="4"',
    "case_variants_first_position": 'SCS_a="1"\nPds_x="0"\nScs_b="2"\nScs_a="9"',
    "case_variants_same_keyword": 'Scs_a="1"\nscs_a="2"\nSCS_a="3"\nScs_b="4"',
    "empty_value": 'Ach_PRF_Check=""',
    "empty_keyword": 'Ach_=""',
    "quotes_in_value": 'Scs_a="b"c"\nScs_d=""e""',
    "equals_in_keyword": 'Scs_a=b="c"\nScs_="="="',
    "underscores_in_keyword": 'Pdi_NoOfPixels_HH="8000"\nPdi__="1"\nPdi___x__="2"',
    "unknown_section": 'Xyz_a="1"\nabc_b="2"',
    "non_ascii_value": 'Scs_a="éß中"',
    "full": full_summary,
    "full_crlf": full_summary.replace("\n", "\r\n"),
    "full_twice": full_summary + "\n" + full_summary.replace("Pdi_", "PDI_"),
    # failures
    "blank_line": 'Scs_a="1"\n\nScs_b="2"',
    "only_newline": "\n",
    "only_newlines": "\n\n\n",
    "whitespace_line": 'Scs_a="1"\n   \nScs_b="2"',
    "leading_space": ' Scs_a="1"',
    "trailing_space": 'Scs_a="1" ',
    "all_invalid": 'Scs_SceneShift"0"\nPdsProductID="WWDR1.1__D"',
    "first_invalid": 'garbage\nScs_a="1"\nScs_b="2"',
    "middle_invalid": 'Scs_a="1"\ngarbage\nScs_b="2"',
    "last_invalid": 'Scs_a="1"\nScs_b="2"\ngarbage',
    "several_invalid": 'Scs_a="1"\nbad1\nScs_b="2"\nbad2\nbad3\nPds_c="3"\n',
    "many_lines_invalid_lineno_width": "\n".join(
        [f'Scs_k{i}="{i}"' if i % 37 else f"bad{i}" for i in range(120)]
    ),
    "short_section": 'Sc_a="1"',
    "long_section": 'Scsx_a="1"',
    "digit_section": 'S1s_a="1"',
    "non_ascii_section": 'Äbc_a="1"',
    "missing_quotes": "Scs_a=1",
    "single_quote": 'Scs_a="1',
    "form_feed_splits_line": 'Scs_a="1\x0c2"',
}

bad_contents = {
    "bytes": b'Scs_a="1"',
    "empty_bytes": b"",
    "bytes_newline_only": b"\n",
    "none": None,
    "list": ['Scs_a="1"'],
    "int": 1,
}

lines = [
    'Scs_SceneShift="0"',
    'Pds_ProductID="WWDR1.1__D"',
    'Scs_SceneShift"0"',
    'PdsProductID="WWDR1.1__D"',
    "",
    'Ach_=""',
    'Scs_a="b"c"',
    'Scs_a="1"\n',
    None,
    b'Scs_a="1"',
]


def open_from_memory(name, payload, path="summary.txt"):
    mapper = fsspec.get_mapper(f"memory://eq1/{name}")
    mapper.clear()
    if payload is not None:
        mapper["summary.txt"] = payload
    return summary.open_summary(mapper, path)


def collect():
    results = {}
    for name, content in contents.items():
        results[f"parse_summary/{name}"] = run(summary.parse_summary, content)
    for name, content in bad_contents.items():
        results[f"parse_summary/bad/{name}"] = run(summary.parse_summary, content)
    for index, line in enumerate(lines):
        results[f"parse_line/{index}"] = run(summary.parse_line, line)

    # the result has to be a fresh plain dict of fresh plain dicts
    first = summary.parse_summary(contents["interleaved_sections"])
    second = summary.parse_summary(contents["interleaved_sections"])
    first["scs"]["a"] = "changed"
    first["new"] = {}
    results["parse_summary/fresh"] = describe(
        [second, first is not second, first["scs"] is not second["scs"]]
    )

    # errors are renamed exactly once, in line order
    results["with_lineno/plain"] = run(summary.with_lineno, ValueError("invalid line"), 3)
    results["with_lineno/more_args"] = run(summary.with_lineno, ValueError("a", "b", 3), 123)
    results["with_lineno/no_args"] = run(summary.with_lineno, ValueError(), 1)

    # through `open_summary`
    for name in ["full", "full_crlf", "case_variants_of_a_section", "several_invalid", "empty"]:
        results[f"open_summary/{name}"] = run(open_from_memory, name, contents[name].encode())
    results["open_summary/missing"] = run(open_from_memory, "missing", None)
    results["open_summary/other_path"] = run(
        open_from_memory, "other", full_summary.encode(), path="something.txt"
    )
    results["open_summary/invalid_utf8"] = run(open_from_memory, "utf8", b'Scs_a="\xff"')

    return results


EXPECTED = {'parse_summary/empty': {'returned': {'dict:dict': []}},
 'parse_summary/single': {'returned': {'dict:dict': [[{'str': "'scs'"},
                                                      {'dict:dict': [[{'str': "'SceneShift'"},
                                                                      {'str': "'0'"}]]}]]}},
 'parse_summary/two_sections': {'returned': {'dict:dict': [[{'str': "'scs'"},
                                                            {'dict:dict': [[{'str': "'SceneShift'"},
                                                                            {'str': "'0'"}]]}],
                                                           [{'str': "'pds'"},
                                                            {'dict:dict': [[{'str': "'ProductID'"},
                                                                            {'str': "'WWDR1.1__D'"}]]}]]}},
 'parse_summary/trailing_newline': {'returned': {'dict:dict': [[{'str': "'scs'"},
                                                                {'dict:dict': [[{'str': "'SceneShift'"},
                                                                                {'str': "'0'"}]]}],
                                                               [{'str': "'pds'"},
                                                                {'dict:dict': [[{'str': "'ProductID'"},
                                                                                {'str': "'WWDR1.1__D'"}]]}]]}},
 'parse_summary/crlf': {'returned': {'dict:dict': [[{'str': "'scs'"},
                                                    {'dict:dict': [[{'str': "'SceneShift'"},
                                                                    {'str': "'0'"}]]}],
                                                   [{'str': "'pds'"},
                                                    {'dict:dict': [[{'str': "'ProductID'"},
                                                                    {'str': "'WWDR1.1__D'"}]]}]]}},
 'parse_summary/other_line_separators': {'returned': {'dict:dict': [[{'str': "'scs'"},
                                                                     {'dict:dict': [[{'str': "'a'"},
                                                                                     {'str': "'0'"}]]}],
                                                                    [{'str': "'pds'"},
                                                                     {'dict:dict': [[{'str': "'b'"},
                                                                                     {'str': "'1'"}]]}],
                                                                    [{'str': "'img'"},
                                                                     {'dict:dict': [[{'str': "'c'"},
                                                                                     {'str': "'2'"}],
                                                                                    [{'str': "'d'"},
                                                                                     {'str': "'3'"}]]}]]}},
 'parse_summary/interleaved_sections': {'returned': {'dict:dict': [[{'str': "'scs'"},
                                                                    {'dict:dict': [[{'str': "'a'"},
                                                                                    {'str': "'1'"}],
                                                                                   [{'str': "'c'"},
                                                                                    {'str': "'3'"}],
                                                                                   [{'str': "'f'"},
                                                                                    {'str': "'6'"}]]}],
                                                                   [{'str': "'pds'"},
                                                                    {'dict:dict': [[{'str': "'b'"},
                                                                                    {'str': "'2'"}],
                                                                                   [{'str': "'d'"},
                                                                                    {'str': "'4'"}]]}],
                                                                   [{'str': "'ach'"},
                                                                    {'dict:dict': [[{'str': "'e'"},
                                                                                    {'str': "'5'"}]]}]]}},
 'parse_summary/duplicate_keyword': {'returned': {'dict:dict': [[{'str': "'scs'"},
                                                                 {'dict:dict': [[{'str': "'a'"},
                                                                                 {'str': "'3'"}],
                                                                                [{'str': "'b'"},
                                                                                 {'str': "'2'"}]]}]]}},
 'parse_summary/duplicate_keyword_interleaved': {'returned': {'dict:dict': [[{'str': "'scs'"},
                                                                             {'dict:dict': [[{'str': "'a'"},
                                                                                             {'str': "'3'"}],
                                                                                            [{'str': "'b'"},
                                                                                             {'str': "'2'"}]]}],
                                                                            [{'str': "'pds'"},
                                                                             {'dict:dict': [[{'str': "'a'"},
                                                                                             {'str': "'y'"}]]}]]}},
 'parse_summary/case_variants_of_a_section': {'returned': {'dict:dict': [[{'str': "'scs'"},
                                                                          {'dict:dict': [[{'str': "'d'"},
                                                                                          {'str': "'4'"}]]}],
                                                                         [{'str': "'pds'"},
                                                                          {'dict:dict': [[{'str': "'x'"},
                                                                                          {'str': "'0'"}]]}]]}},
 'parse_summary/case_variants_first_position': {'returned': {'dict:dict': [[{'str': "'scs'"},
                                                                            {'dict:dict': [[{'str': "'b'"},
                                                                                            {'str': "'2'"}],
                                                                                           [{'str': "'a'"},
                                                                                            {'str': "'9'"}]]}],
                                                                           [{'str': "'pds'"},
                                                                            {'dict:dict': [[{'str': "'x'"},
                                                                                            {'str': "'0'"}]]}]]}},
 'parse_summary/case_variants_same_keyword': {'returned': {'dict:dict': [[{'str': "'scs'"},
                                                                          {'dict:dict': [[{'str': "'a'"},
                                                                                          {'str': "'3'"}]]}]]}},
 'parse_summary/empty_value': {'returned': {'dict:dict': [[{'str': "'ach'"},
                                                           {'dict:dict': [[{'str': "'PRF_Check'"},
                                                                           {'str': "''"}]]}]]}},
 'parse_summary/empty_keyword': {'returned': {'dict:dict': [[{'str': "'ach'"},
                                                             {'dict:dict': [[{'str': "''"},
                                                                             {'str': "''"}]]}]]}},
 'parse_summary/quotes_in_value': {'returned': {'dict:dict': [[{'str': "'scs'"},
                                                               {'dict:dict': [[{'str': "'a'"},
                                                                               {'str': '\'b"c\''}],
                                                                              [{'str': "'d'"},
                                                                               {'str': '\'"e"\''}]]}]]}},
 'parse_summary/equals_in_keyword': {'returned': {'dict:dict': [[{'str': "'scs'"},
                                                                 {'dict:dict': [[{'str': "'a=b'"},
                                                                                 {'str': "'c'"}],
                                                                                [{'str': "''"},
                                                                                 {'str': '\'="=\''}]]}]]}},
 'parse_summary/underscores_in_keyword': {'returned': {'dict:dict': [[{'str': "'pdi'"},
                                                                      {'dict:dict': [[{'str': "'NoOfPixels_HH'"},
                                                                                      {'str': "'8000'"}],
                                                                                     [{'str': "'_'"},
                                                                                      {'str': "'1'"}],
                                                                                     [{'str': "'__x__'"},
                                                                                      {'str': "'2'"}]]}]]}},
 'parse_summary/unknown_section': {'returned': {'dict:dict': [[{'str': "'xyz'"},
                                                               {'dict:dict': [[{'str': "'a'"},
                                                                               {'str': "'1'"}]]}],
                                                              [{'str': "'abc'"},
                                                               {'dict:dict': [[{'str': "'b'"},
                                                                               {'str': "'2'"}]]}]]}},
 'parse_summary/non_ascii_value': {'returned': {'dict:dict': [[{'str': "'scs'"},
                                                               {'dict:dict': [[{'str': "'a'"},
                                                                               {'str': "'éß中'"}]]}]]}},
 'parse_summary/full': {'returned': {'dict:dict': [[{'str': "'odi'"},
                                                    {'dict:dict': [[{'str': "'SceneId'"},
                                                                    {'str': "'SARD000000276461-00043-005-000'"}]]}],
                                                   [{'str': "'scs'"},
                                                    {'dict:dict': [[{'str': "'SceneID'"},
                                                                    {'str': "'ALOS2225333200-180726'"}],
                                                                   [{'str': "'SceneShift'"},
                                                                    {'str': "'0'"}]]}],
                                                   [{'str': "'pds'"},
                                                    {'dict:dict': [[{'str': "'ProductID'"},
                                                                    {'str': "'WWDR1.1__D'"}],
                                                                   [{'str': "'ResamplingMethod'"},
                                                                    {'str': "'NN'"}],
                                                                   [{'str': "'UTM_ZoneNo'"},
                                                                    {'str': "'0'"}]]}],
                                                   [{'str': "'img'"},
                                                    {'dict:dict': [[{'str': "'SceneCenterDateTime'"},
                                                                    {'str': "'20180726 "
                                                                            "13:09:44.204'"}],
                                                                   [{'str': "'OffNadirAngle'"},
                                                                    {'str': "'21.3'"}]]}],
                                                   [{'str': "'pdi'"},
                                                    {'dict:dict': [[{'str': "'CntOfL11ProductFileName'"},
                                                                    {'str': "'4'"}],
                                                                   [{'str': "'L11ProductFileName01'"},
                                                                    {'str': "'VOL-ALOS2225333200-180726-WWDR1.1__D'"}],
                                                                   [{'str': "'L11ProductFileName02'"},
                                                                    {'str': "'LED-ALOS2225333200-180726-WWDR1.1__D'"}],
                                                                   [{'str': "'L11ProductFileName03'"},
                                                                    {'str': "'IMG-HH-ALOS2225333200-180726-WWDR1.1__D-F1'"}],
                                                                   [{'str': "'L11ProductFileName04'"},
                                                                    {'str': "'TRL-ALOS2225333200-180726-WWDR1.1__D'"}],
                                                                   [{'str': "'NoOfPixels_HH'"},
                                                                    {'str': "'8000'"}],
                                                                   [{'str': "'NoOfLines_HH'"},
                                                                    {'str': "'9000'"}],
                                                                   [{'str': "'ProductDataSize'"},
                                                                    {'str': "'798.2'"}]]}],
                                                   [{'str': "'ach'"},
                                                    {'dict:dict': [[{'str': "'PRF_Check'"},
                                                                    {'str': "''"}]]}],
                                                   [{'str': "'rad'"},
                                                    {'dict:dict': [[{'str': "'PracticeResultCode'"},
                                                                    {'str': "'GOOD'"}]]}],
                                                   [{'str': "'lbi'"},
                                                    {'dict:dict': [[{'str': "'Sensor'"},
                                                                    {'str': "'SAR'"}],
                                                                   [{'str': "'ObservationDate'"},
                                                                    {'str': "'20180726'"}]]}]]}},
 'parse_summary/full_crlf': {'returned': {'dict:dict': [[{'str': "'odi'"},
                                                         {'dict:dict': [[{'str': "'SceneId'"},
                                                                         {'str': "'SARD000000276461-00043-005-000'"}]]}],
                                                        [{'str': "'scs'"},
                                                         {'dict:dict': [[{'str': "'SceneID'"},
                                                                         {'str': "'ALOS2225333200-180726'"}],
                                                                        [{'str': "'SceneShift'"},
                                                                         {'str': "'0'"}]]}],
                                                        [{'str': "'pds'"},
                                                         {'dict:dict': [[{'str': "'ProductID'"},
                                                                         {'str': "'WWDR1.1__D'"}],
                                                                        [{'str': "'ResamplingMethod'"},
                                                                         {'str': "'NN'"}],
                                                                        [{'str': "'UTM_ZoneNo'"},
                                                                         {'str': "'0'"}]]}],
                                                        [{'str': "'img'"},
                                                         {'dict:dict': [[{'str': "'SceneCenterDateTime'"},
                                                                         {'str': "'20180726 "
                                                                                 "13:09:44.204'"}],
                                                                        [{'str': "'OffNadirAngle'"},
                                                                         {'str': "'21.3'"}]]}],
                                                        [{'str': "'pdi'"},
                                                         {'dict:dict': [[{'str': "'CntOfL11ProductFileName'"},
                                                                         {'str': "'4'"}],
                                                                        [{'str': "'L11ProductFileName01'"},
                                                                         {'str': "'VOL-ALOS2225333200-180726-WWDR1.1__D'"}],
                                                                        [{'str': "'L11ProductFileName02'"},
                                                                         {'str': "'LED-ALOS2225333200-180726-WWDR1.1__D'"}],
                                                                        [{'str': "'L11ProductFileName03'"},
                                                                         {'str': "'IMG-HH-ALOS2225333200-180726-WWDR1.1__D-F1'"}],
                                                                        [{'str': "'L11ProductFileName04'"},
                                                                         {'str': "'TRL-ALOS2225333200-180726-WWDR1.1__D'"}],
                                                                        [{'str': "'NoOfPixels_HH'"},
                                                                         {'str': "'8000'"}],
                                                                        [{'str': "'NoOfLines_HH'"},
                                                                         {'str': "'9000'"}],
                                                                        [{'str': "'ProductDataSize'"},
                                                                         {'str': "'798.2'"}]]}],
                                                        [{'str': "'ach'"},
                                                         {'dict:dict': [[{'str': "'PRF_Check'"},
                                                                         {'str': "''"}]]}],
                                                        [{'str': "'rad'"},
                                                         {'dict:dict': [[{'str': "'PracticeResultCode'"},
                                                                         {'str': "'GOOD'"}]]}],
                                                        [{'str': "'lbi'"},
                                                         {'dict:dict': [[{'str': "'Sensor'"},
                                                                         {'str': "'SAR'"}],
                                                                        [{'str': "'ObservationDate'"},
                                                                         {'str': "'20180726'"}]]}]]}},
 'parse_summary/full_twice': {'returned': {'dict:dict': [[{'str': "'odi'"},
                                                          {'dict:dict': [[{'str': "'SceneId'"},
                                                                          {'str': "'SARD000000276461-00043-005-000'"}]]}],
                                                         [{'str': "'scs'"},
                                                          {'dict:dict': [[{'str': "'SceneID'"},
                                                                          {'str': "'ALOS2225333200-180726'"}],
                                                                         [{'str': "'SceneShift'"},
                                                                          {'str': "'0'"}]]}],
                                                         [{'str': "'pds'"},
                                                          {'dict:dict': [[{'str': "'ProductID'"},
                                                                          {'str': "'WWDR1.1__D'"}],
                                                                         [{'str': "'ResamplingMethod'"},
                                                                          {'str': "'NN'"}],
                                                                         [{'str': "'UTM_ZoneNo'"},
                                                                          {'str': "'0'"}]]}],
                                                         [{'str': "'img'"},
                                                          {'dict:dict': [[{'str': "'SceneCenterDateTime'"},
                                                                          {'str': "'20180726 "
                                                                                  "13:09:44.204'"}],
                                                                         [{'str': "'OffNadirAngle'"},
                                                                          {'str': "'21.3'"}]]}],
                                                         [{'str': "'pdi'"},
                                                          {'dict:dict': [[{'str': "'CntOfL11ProductFileName'"},
                                                                          {'str': "'4'"}],
                                                                         [{'str': "'L11ProductFileName01'"},
                                                                          {'str': "'VOL-ALOS2225333200-180726-WWDR1.1__D'"}],
                                                                         [{'str': "'L11ProductFileName02'"},
                                                                          {'str': "'LED-ALOS2225333200-180726-WWDR1.1__D'"}],
                                                                         [{'str': "'L11ProductFileName03'"},
                                                                          {'str': "'IMG-HH-ALOS2225333200-180726-WWDR1.1__D-F1'"}],
                                                                         [{'str': "'L11ProductFileName04'"},
                                                                          {'str': "'TRL-ALOS2225333200-180726-WWDR1.1__D'"}],
                                                                         [{'str': "'NoOfPixels_HH'"},
                                                                          {'str': "'8000'"}],
                                                                         [{'str': "'NoOfLines_HH'"},
                                                                          {'str': "'9000'"}],
                                                                         [{'str': "'ProductDataSize'"},
                                                                          {'str': "'798.2'"}]]}],
                                                         [{'str': "'ach'"},
                                                          {'dict:dict': [[{'str': "'PRF_Check'"},
                                                                          {'str': "''"}]]}],
                                                         [{'str': "'rad'"},
                                                          {'dict:dict': [[{'str': "'PracticeResultCode'"},
                                                                          {'str': "'GOOD'"}]]}],
                                                         [{'str': "'lbi'"},
                                                          {'dict:dict': [[{'str': "'Sensor'"},
                                                                          {'str': "'SAR'"}],
                                                                         [{'str': "'ObservationDate'"},
                                                                          {'str': "'20180726'"}]]}]]}},
 'parse_summary/blank_line': {'raised': {'type': 'builtins.ExceptionGroup',
                                         'args': {'tuple': [{'str': "'failed to parse the "
                                                                    "summary'"},
                                                            {'list': [{'exception-object': {'type': 'builtins.ValueError',
                                                                                            'args': {'tuple': [{'str': "'line "
                                                                                                                       '01: '
                                                                                                                       'invalid '
                                                                                                                       "line'"}]},
                                                                                            'str': 'line '
                                                                                                   '01: '
                                                                                                   'invalid '
                                                                                                   'line',
                                                                                            'cause': None,
                                                                                            'context': None,
                                                                                            'suppress_context': False}}]}]},
                                         'str': 'failed to parse the summary (1 sub-exception)',
                                         'cause': None,
                                         'context': None,
                                         'suppress_context': False,
                                         'exceptions': [{'type': 'builtins.ValueError',
                                                         'args': {'tuple': [{'str': "'line 01: "
                                                                                    'invalid '
                                                                                    "line'"}]},
                                                         'str': 'line 01: invalid line',
                                                         'cause': None,
                                                         'context': None,
                                                         'suppress_context': False}],
                                         'message': 'failed to parse the summary'}},
 'parse_summary/only_newline': {'raised': {'type': 'builtins.ExceptionGroup',
                                           'args': {'tuple': [{'str': "'failed to parse the "
                                                                      "summary'"},
                                                              {'list': [{'exception-object': {'type': 'builtins.ValueError',
                                                                                              'args': {'tuple': [{'str': "'line "
                                                                                                                         '00: '
                                                                                                                         'invalid '
                                                                                                                         "line'"}]},
                                                                                              'str': 'line '
                                                                                                     '00: '
                                                                                                     'invalid '
                                                                                                     'line',
                                                                                              'cause': None,
                                                                                              'context': None,
                                                                                              'suppress_context': False}}]}]},
                                           'str': 'failed to parse the summary (1 sub-exception)',
                                           'cause': None,
                                           'context': None,
                                           'suppress_context': False,
                                           'exceptions': [{'type': 'builtins.ValueError',
                                                           'args': {'tuple': [{'str': "'line 00: "
                                                                                      'invalid '
                                                                                      "line'"}]},
                                                           'str': 'line 00: invalid line',
                                                           'cause': None,
                                                           'context': None,
                                                           'suppress_context': False}],
                                           'message': 'failed to parse the summary'}},
 'parse_summary/only_newlines': {'raised': {'type': 'builtins.ExceptionGroup',
                                            'args': {'tuple': [{'str': "'failed to parse the "
                                                                       "summary'"},
                                                               {'list': [{'exception-object': {'type': 'builtins.ValueError',
                                                                                               'args': {'tuple': [{'str': "'line "
                                                                                                                          '00: '
                                                                                                                          'invalid '
                                                                                                                          "line'"}]},
                                                                                               'str': 'line '
                                                                                                      '00: '
                                                                                                      'invalid '
                                                                                                      'line',
                                                                                               'cause': None,
                                                                                               'context': None,
                                                                                               'suppress_context': False}},
                                                                         {'exception-object': {'type': 'builtins.ValueError',
                                                                                               'args': {'tuple': [{'str': "'line "
                                                                                                                          '01: '
                                                                                                                          'invalid '
                                                                                                                          "line'"}]},
                                                                                               'str': 'line '
                                                                                                      '01: '
                                                                                                      'invalid '
                                                                                                      'line',
                                                                                               'cause': None,
                                                                                               'context': None,
                                                                                               'suppress_context': False}},
                                                                         {'exception-object': {'type': 'builtins.ValueError',
                                                                                               'args': {'tuple': [{'str': "'line "
                                                                                                                          '02: '
                                                                                                                          'invalid '
                                                                                                                          "line'"}]},
                                                                                               'str': 'line '
                                                                                                      '02: '
                                                                                                      'invalid '
                                                                                                      'line',
                                                                                               'cause': None,
                                                                                               'context': None,
                                                                                               'suppress_context': False}}]}]},
                                            'str': 'failed to parse the summary (3 sub-exceptions)',
                                            'cause': None,
                                            'context': None,
                                            'suppress_context': False,
                                            'exceptions': [{'type': 'builtins.ValueError',
                                                            'args': {'tuple': [{'str': "'line 00: "
                                                                                       'invalid '
                                                                                       "line'"}]},
                                                            'str': 'line 00: invalid line',
                                                            'cause': None,
                                                            'context': None,
                                                            'suppress_context': False},
                                                           {'type': 'builtins.ValueError',
                                                            'args': {'tuple': [{'str': "'line 01: "
                                                                                       'invalid '
                                                                                       "line'"}]},
                                                            'str': 'line 01: invalid line',
                                                            'cause': None,
                                                            'context': None,
                                                            'suppress_context': False},
                                                           {'type': 'builtins.ValueError',
                                                            'args': {'tuple': [{'str': "'line 02: "
                                                                                       'invalid '
                                                                                       "line'"}]},
                                                            'str': 'line 02: invalid line',
                                                            'cause': None,
                                                            'context': None,
                                                            'suppress_context': False}],
                                            'message': 'failed to parse the summary'}},
 'parse_summary/whitespace_line': {'raised': {'type': 'builtins.ExceptionGroup',
                                              'args': {'tuple': [{'str': "'failed to parse the "
                                                                         "summary'"},
                                                                 {'list': [{'exception-object': {'type': 'builtins.ValueError',
                                                                                                 'args': {'tuple': [{'str': "'line "
                                                                                                                            '01: '
                                                                                                                            'invalid '
                                                                                                                            "line'"}]},
                                                                                                 'str': 'line '
                                                                                                        '01: '
                                                                                                        'invalid '
                                                                                                        'line',
                                                                                                 'cause': None,
                                                                                                 'context': None,
                                                                                                 'suppress_context': False}}]}]},
                                              'str': 'failed to parse the summary (1 '
                                                     'sub-exception)',
                                              'cause': None,
                                              'context': None,
                                              'suppress_context': False,
                                              'exceptions': [{'type': 'builtins.ValueError',
                                                              'args': {'tuple': [{'str': "'line "
                                                                                         '01: '
                                                                                         'invalid '
                                                                                         "line'"}]},
                                                              'str': 'line 01: invalid line',
                                                              'cause': None,
                                                              'context': None,
                                                              'suppress_context': False}],
                                              'message': 'failed to parse the summary'}},
 'parse_summary/leading_space': {'raised': {'type': 'builtins.ExceptionGroup',
                                            'args': {'tuple': [{'str': "'failed to parse the "
                                                                       "summary'"},
                                                               {'list': [{'exception-object': {'type': 'builtins.ValueError',
                                                                                               'args': {'tuple': [{'str': "'line "
                                                                                                                          '00: '
                                                                                                                          'invalid '
                                                                                                                          "line'"}]},
                                                                                               'str': 'line '
                                                                                                      '00: '
                                                                                                      'invalid '
                                                                                                      'line',
                                                                                               'cause': None,
                                                                                               'context': None,
                                                                                               'suppress_context': False}}]}]},
                                            'str': 'failed to parse the summary (1 sub-exception)',
                                            'cause': None,
                                            'context': None,
                                            'suppress_context': False,
                                            'exceptions': [{'type': 'builtins.ValueError',
                                                            'args': {'tuple': [{'str': "'line 00: "
                                                                                       'invalid '
                                                                                       "line'"}]},
                                                            'str': 'line 00: invalid line',
                                                            'cause': None,
                                                            'context': None,
                                                            'suppress_context': False}],
                                            'message': 'failed to parse the summary'}},
 'parse_summary/trailing_space': {'raised': {'type': 'builtins.ExceptionGroup',
                                             'args': {'tuple': [{'str': "'failed to parse the "
                                                                        "summary'"},
                                                                {'list': [{'exception-object': {'type': 'builtins.ValueError',
                                                                                                'args': {'tuple': [{'str': "'line "
                                                                                                                           '00: '
                                                                                                                           'invalid '
                                                                                                                           "line'"}]},
                                                                                                'str': 'line '
                                                                                                       '00: '
                                                                                                       'invalid '
                                                                                                       'line',
                                                                                                'cause': None,
                                                                                                'context': None,
                                                                                                'suppress_context': False}}]}]},
                                             'str': 'failed to parse the summary (1 sub-exception)',
                                             'cause': None,
                                             'context': None,
                                             'suppress_context': False,
                                             'exceptions': [{'type': 'builtins.ValueError',
                                                             'args': {'tuple': [{'str': "'line 00: "
                                                                                        'invalid '
                                                                                        "line'"}]},
                                                             'str': 'line 00: invalid line',
                                                             'cause': None,
                                                             'context': None,
                                                             'suppress_context': False}],
                                             'message': 'failed to parse the summary'}},
 'parse_summary/all_invalid': {'raised': {'type': 'builtins.ExceptionGroup',
                                          'args': {'tuple': [{'str': "'failed to parse the "
                                                                     "summary'"},
                                                             {'list': [{'exception-object': {'type': 'builtins.ValueError',
                                                                                             'args': {'tuple': [{'str': "'line "
                                                                                                                        '00: '
                                                                                                                        'invalid '
                                                                                                                        "line'"}]},
                                                                                             'str': 'line '
                                                                                                    '00: '
                                                                                                    'invalid '
                                                                                                    'line',
                                                                                             'cause': None,
                                                                                             'context': None,
                                                                                             'suppress_context': False}},
                                                                       {'exception-object': {'type': 'builtins.ValueError',
                                                                                             'args': {'tuple': [{'str': "'line "
                                                                                                                        '01: '
                                                                                                                        'invalid '
                                                                                                                        "line'"}]},
                                                                                             'str': 'line '
                                                                                                    '01: '
                                                                                                    'invalid '
                                                                                                    'line',
                                                                                             'cause': None,
                                                                                             'context': None,
                                                                                             'suppress_context': False}}]}]},
                                          'str': 'failed to parse the summary (2 sub-exceptions)',
                                          'cause': None,
                                          'context': None,
                                          'suppress_context': False,
                                          'exceptions': [{'type': 'builtins.ValueError',
                                                          'args': {'tuple': [{'str': "'line 00: "
                                                                                     'invalid '
                                                                                     "line'"}]},
                                                          'str': 'line 00: invalid line',
                                                          'cause': None,
                                                          'context': None,
                                                          'suppress_context': False},
                                                         {'type': 'builtins.ValueError',
                                                          'args': {'tuple': [{'str': "'line 01: "
                                                                                     'invalid '
                                                                                     "line'"}]},
                                                          'str': 'line 01: invalid line',
                                                          'cause': None,
                                                          'context': None,
                                                          'suppress_context': False}],
                                          'message': 'failed to parse the summary'}},
 'parse_summary/first_invalid': {'raised': {'type': 'builtins.ExceptionGroup',
                                            'args': {'tuple': [{'str': "'failed to parse the "
                                                                       "summary'"},
                                                               {'list': [{'exception-object': {'type': 'builtins.ValueError',
                                                                                               'args': {'tuple': [{'str': "'line "
                                                                                                                          '00: '
                                                                                                                          'invalid '
                                                                                                                          "line'"}]},
                                                                                               'str': 'line '
                                                                                                      '00: '
                                                                                                      'invalid '
                                                                                                      'line',
                                                                                               'cause': None,
                                                                                               'context': None,
                                                                                               'suppress_context': False}}]}]},
                                            'str': 'failed to parse the summary (1 sub-exception)',
                                            'cause': None,
                                            'context': None,
                                            'suppress_context': False,
                                            'exceptions': [{'type': 'builtins.ValueError',
                                                            'args': {'tuple': [{'str': "'line 00: "
                                                                                       'invalid '
                                                                                       "line'"}]},
                                                            'str': 'line 00: invalid line',
                                                            'cause': None,
                                                            'context': None,
                                                            'suppress_context': False}],
                                            'message': 'failed to parse the summary'}},
 'parse_summary/middle_invalid': {'raised': {'type': 'builtins.ExceptionGroup',
                                             'args': {'tuple': [{'str': "'failed to parse the "
                                                                        "summary'"},
                                                                {'list': [{'exception-object': {'type': 'builtins.ValueError',
                                                                                                'args': {'tuple': [{'str': "'line "
                                                                                                                           '01: '
                                                                                                                           'invalid '
                                                                                                                           "line'"}]},
                                                                                                'str': 'line '
                                                                                                       '01: '
                                                                                                       'invalid '
                                                                                                       'line',
                                                                                                'cause': None,
                                                                                                'context': None,
                                                                                                'suppress_context': False}}]}]},
                                             'str': 'failed to parse the summary (1 sub-exception)',
                                             'cause': None,
                                             'context': None,
                                             'suppress_context': False,
                                             'exceptions': [{'type': 'builtins.ValueError',
                                                             'args': {'tuple': [{'str': "'line 01: "
                                                                                        'invalid '
                                                                                        "line'"}]},
                                                             'str': 'line 01: invalid line',
                                                             'cause': None,
                                                             'context': None,
                                                             'suppress_context': False}],
                                             'message': 'failed to parse the summary'}},
 'parse_summary/last_invalid': {'raised': {'type': 'builtins.ExceptionGroup',
                                           'args': {'tuple': [{'str': "'failed to parse the "
                                                                      "summary'"},
                                                              {'list': [{'exception-object': {'type': 'builtins.ValueError',
                                                                                              'args': {'tuple': [{'str': "'line "
                                                                                                                         '02: '
                                                                                                                         'invalid '
                                                                                                                         "line'"}]},
                                                                                              'str': 'line '
                                                                                                     '02: '
                                                                                                     'invalid '
                                                                                                     'line',
                                                                                              'cause': None,
                                                                                              'context': None,
                                                                                              'suppress_context': False}}]}]},
                                           'str': 'failed to parse the summary (1 sub-exception)',
                                           'cause': None,
                                           'context': None,
                                           'suppress_context': False,
                                           'exceptions': [{'type': 'builtins.ValueError',
                                                           'args': {'tuple': [{'str': "'line 02: "
                                                                                      'invalid '
                                                                                      "line'"}]},
                                                           'str': 'line 02: invalid line',
                                                           'cause': None,
                                                           'context': None,
                                                           'suppress_context': False}],
                                           'message': 'failed to parse the summary'}},
 'parse_summary/several_invalid': {'raised': {'type': 'builtins.ExceptionGroup',
                                              'args': {'tuple': [{'str': "'failed to parse the "
                                                                         "summary'"},
                                                                 {'list': [{'exception-object': {'type': 'builtins.ValueError',
                                                                                                 'args': {'tuple': [{'str': "'line "
                                                                                                                            '01: '
                                                                                                                            'invalid '
                                                                                                                            "line'"}]},
                                                                                                 'str': 'line '
                                                                                                        '01: '
                                                                                                        'invalid '
                                                                                                        'line',
                                                                                                 'cause': None,
                                                                                                 'context': None,
                                                                                                 'suppress_context': False}},
                                                                           {'exception-object': {'type': 'builtins.ValueError',
                                                                                                 'args': {'tuple': [{'str': "'line "
                                                                                                                            '03: '
                                                                                                                            'invalid '
                                                                                                                            "line'"}]},
                                                                                                 'str': 'line '
                                                                                                        '03: '
                                                                                                        'invalid '
                                                                                                        'line',
                                                                                                 'cause': None,
                                                                                                 'context': None,
                                                                                                 'suppress_context': False}},
                                                                           {'exception-object': {'type': 'builtins.ValueError',
                                                                                                 'args': {'tuple': [{'str': "'line "
                                                                                                                            '04: '
                                                                                                                            'invalid '
                                                                                                                            "line'"}]},
                                                                                                 'str': 'line '
                                                                                                        '04: '
                                                                                                        'invalid '
                                                                                                        'line',
                                                                                                 'cause': None,
                                                                                                 'context': None,
                                                                                                 'suppress_context': False}}]}]},
                                              'str': 'failed to parse the summary (3 '
                                                     'sub-exceptions)',
                                              'cause': None,
                                              'context': None,
                                              'suppress_context': False,
                                              'exceptions': [{'type': 'builtins.ValueError',
                                                              'args': {'tuple': [{'str': "'line "
                                                                                         '01: '
                                                                                         'invalid '
                                                                                         "line'"}]},
                                                              'str': 'line 01: invalid line',
                                                              'cause': None,
                                                              'context': None,
                                                              'suppress_context': False},
                                                             {'type': 'builtins.ValueError',
                                                              'args': {'tuple': [{'str': "'line "
                                                                                         '03: '
                                                                                         'invalid '
                                                                                         "line'"}]},
                                                              'str': 'line 03: invalid line',
                                                              'cause': None,
                                                              'context': None,
                                                              'suppress_context': False},
                                                             {'type': 'builtins.ValueError',
                                                              'args': {'tuple': [{'str': "'line "
                                                                                         '04: '
                                                                                         'invalid '
                                                                                         "line'"}]},
                                                              'str': 'line 04: invalid line',
                                                              'cause': None,
                                                              'context': None,
                                                              'suppress_context': False}],
                                              'message': 'failed to parse the summary'}},
 'parse_summary/many_lines_invalid_lineno_width': {'raised': {'type': 'builtins.ExceptionGroup',
                                                              'args': {'tuple': [{'str': "'failed "
                                                                                         'to parse '
                                                                                         'the '
                                                                                         "summary'"},
                                                                                 {'list': [{'exception-object': {'type': 'builtins.ValueError',
                                                                                                                 'args': {'tuple': [{'str': "'line "
                                                                                                                                            '00: '
                                                                                                                                            'invalid '
                                                                                                                                            "line'"}]},
                                                                                                                 'str': 'line '
                                                                                                                        '00: '
                                                                                                                        'invalid '
                                                                                                                        'line',
                                                                                                                 'cause': None,
                                                                                                                 'context': None,
                                                                                                                 'suppress_context': False}},
                                                                                           {'exception-object': {'type': 'builtins.ValueError',
                                                                                                                 'args': {'tuple': [{'str': "'line "
                                                                                                                                            '37: '
                                                                                                                                            'invalid '
                                                                                                                                            "line'"}]},
                                                                                                                 'str': 'line '
                                                                                                                        '37: '
                                                                                                                        'invalid '
                                                                                                                        'line',
                                                                                                                 'cause': None,
                                                                                                                 'context': None,
                                                                                                                 'suppress_context': False}},
                                                                                           {'exception-object': {'type': 'builtins.ValueError',
                                                                                                                 'args': {'tuple': [{'str': "'line "
                                                                                                                                            '74: '
                                                                                                                                            'invalid '
                                                                                                                                            "line'"}]},
                                                                                                                 'str': 'line '
                                                                                                                        '74: '
                                                                                                                        'invalid '
                                                                                                                        'line',
                                                                                                                 'cause': None,
                                                                                                                 'context': None,
                                                                                                                 'suppress_context': False}},
                                                                                           {'exception-object': {'type': 'builtins.ValueError',
                                                                                                                 'args': {'tuple': [{'str': "'line "
                                                                                                                                            '111: '
                                                                                                                                            'invalid '
                                                                                                                                            "line'"}]},
                                                                                                                 'str': 'line '
                                                                                                                        '111: '
                                                                                                                        'invalid '
                                                                                                                        'line',
                                                                                                                 'cause': None,
                                                                                                                 'context': None,
                                                                                                                 'suppress_context': False}}]}]},
                                                              'str': 'failed to parse the summary '
                                                                     '(4 sub-exceptions)',
                                                              'cause': None,
                                                              'context': None,
                                                              'suppress_context': False,
                                                              'exceptions': [{'type': 'builtins.ValueError',
                                                                              'args': {'tuple': [{'str': "'line "
                                                                                                         '00: '
                                                                                                         'invalid '
                                                                                                         "line'"}]},
                                                                              'str': 'line 00: '
                                                                                     'invalid line',
                                                                              'cause': None,
                                                                              'context': None,
                                                                              'suppress_context': False},
                                                                             {'type': 'builtins.ValueError',
                                                                              'args': {'tuple': [{'str': "'line "
                                                                                                         '37: '
                                                                                                         'invalid '
                                                                                                         "line'"}]},
                                                                              'str': 'line 37: '
                                                                                     'invalid line',
                                                                              'cause': None,
                                                                              'context': None,
                                                                              'suppress_context': False},
                                                                             {'type': 'builtins.ValueError',
                                                                              'args': {'tuple': [{'str': "'line "
                                                                                                         '74: '
                                                                                                         'invalid '
                                                                                                         "line'"}]},
                                                                              'str': 'line 74: '
                                                                                     'invalid line',
                                                                              'cause': None,
                                                                              'context': None,
                                                                              'suppress_context': False},
                                                                             {'type': 'builtins.ValueError',
                                                                              'args': {'tuple': [{'str': "'line "
                                                                                                         '111: '
                                                                                                         'invalid '
                                                                                                         "line'"}]},
                                                                              'str': 'line 111: '
                                                                                     'invalid line',
                                                                              'cause': None,
                                                                              'context': None,
                                                                              'suppress_context': False}],
                                                              'message': 'failed to parse the '
                                                                         'summary'}},
 'parse_summary/short_section': {'raised': {'type': 'builtins.ExceptionGroup',
                                            'args': {'tuple': [{'str': "'failed to parse the "
                                                                       "summary'"},
                                                               {'list': [{'exception-object': {'type': 'builtins.ValueError',
                                                                                               'args': {'tuple': [{'str': "'line "
                                                                                                                          '00: '
                                                                                                                          'invalid '
                                                                                                                          "line'"}]},
                                                                                               'str': 'line '
                                                                                                      '00: '
                                                                                                      'invalid '
                                                                                                      'line',
                                                                                               'cause': None,
                                                                                               'context': None,
                                                                                               'suppress_context': False}}]}]},
                                            'str': 'failed to parse the summary (1 sub-exception)',
                                            'cause': None,
                                            'context': None,
                                            'suppress_context': False,
                                            'exceptions': [{'type': 'builtins.ValueError',
                                                            'args': {'tuple': [{'str': "'line 00: "
                                                                                       'invalid '
                                                                                       "line'"}]},
                                                            'str': 'line 00: invalid line',
                                                            'cause': None,
                                                            'context': None,
                                                            'suppress_context': False}],
                                            'message': 'failed to parse the summary'}},
 'parse_summary/long_section': {'raised': {'type': 'builtins.ExceptionGroup',
                                           'args': {'tuple': [{'str': "'failed to parse the "
                                                                      "summary'"},
                                                              {'list': [{'exception-object': {'type': 'builtins.ValueError',
                                                                                              'args': {'tuple': [{'str': "'line "
                                                                                                                         '00: '
                                                                                                                         'invalid '
                                                                                                                         "line'"}]},
                                                                                              'str': 'line '
                                                                                                     '00: '
                                                                                                     'invalid '
                                                                                                     'line',
                                                                                              'cause': None,
                                                                                              'context': None,
                                                                                              'suppress_context': False}}]}]},
                                           'str': 'failed to parse the summary (1 sub-exception)',
                                           'cause': None,
                                           'context': None,
                                           'suppress_context': False,
                                           'exceptions': [{'type': 'builtins.ValueError',
                                                           'args': {'tuple': [{'str': "'line 00: "
                                                                                      'invalid '
                                                                                      "line'"}]},
                                                           'str': 'line 00: invalid line',
                                                           'cause': None,
                                                           'context': None,
                                                           'suppress_context': False}],
                                           'message': 'failed to parse the summary'}},
 'parse_summary/digit_section': {'raised': {'type': 'builtins.ExceptionGroup',
                                            'args': {'tuple': [{'str': "'failed to parse the "
                                                                       "summary'"},
                                                               {'list': [{'exception-object': {'type': 'builtins.ValueError',
                                                                                               'args': {'tuple': [{'str': "'line "
                                                                                                                          '00: '
                                                                                                                          'invalid '
                                                                                                                          "line'"}]},
                                                                                               'str': 'line '
                                                                                                      '00: '
                                                                                                      'invalid '
                                                                                                      'line',
                                                                                               'cause': None,
                                                                                               'context': None,
                                                                                               'suppress_context': False}}]}]},
                                            'str': 'failed to parse the summary (1 sub-exception)',
                                            'cause': None,
                                            'context': None,
                                            'suppress_context': False,
                                            'exceptions': [{'type': 'builtins.ValueError',
                                                            'args': {'tuple': [{'str': "'line 00: "
                                                                                       'invalid '
                                                                                       "line'"}]},
                                                            'str': 'line 00: invalid line',
                                                            'cause': None,
                                                            'context': None,
                                                            'suppress_context': False}],
                                            'message': 'failed to parse the summary'}},
 'parse_summary/non_ascii_section': {'raised': {'type': 'builtins.ExceptionGroup',
                                                'args': {'tuple': [{'str': "'failed to parse the "
                                                                           "summary'"},
                                                                   {'list': [{'exception-object': {'type': 'builtins.ValueError',
                                                                                                   'args': {'tuple': [{'str': "'line "
                                                                                                                              '00: '
                                                                                                                              'invalid '
                                                                                                                              "line'"}]},
                                                                                                   'str': 'line '
                                                                                                          '00: '
                                                                                                          'invalid '
                                                                                                          'line',
                                                                                                   'cause': None,
                                                                                                   'context': None,
                                                                                                   'suppress_context': False}}]}]},
                                                'str': 'failed to parse the summary (1 '
                                                       'sub-exception)',
                                                'cause': None,
                                                'context': None,
                                                'suppress_context': False,
                                                'exceptions': [{'type': 'builtins.ValueError',
                                                                'args': {'tuple': [{'str': "'line "
                                                                                           '00: '
                                                                                           'invalid '
                                                                                           "line'"}]},
                                                                'str': 'line 00: invalid line',
                                                                'cause': None,
                                                                'context': None,
                                                                'suppress_context': False}],
                                                'message': 'failed to parse the summary'}},
 'parse_summary/missing_quotes': {'raised': {'type': 'builtins.ExceptionGroup',
                                             'args': {'tuple': [{'str': "'failed to parse the "
                                                                        "summary'"},
                                                                {'list': [{'exception-object': {'type': 'builtins.ValueError',
                                                                                                'args': {'tuple': [{'str': "'line "
                                                                                                                           '00: '
                                                                                                                           'invalid '
                                                                                                                           "line'"}]},
                                                                                                'str': 'line '
                                                                                                       '00: '
                                                                                                       'invalid '
                                                                                                       'line',
                                                                                                'cause': None,
                                                                                                'context': None,
                                                                                                'suppress_context': False}}]}]},
                                             'str': 'failed to parse the summary (1 sub-exception)',
                                             'cause': None,
                                             'context': None,
                                             'suppress_context': False,
                                             'exceptions': [{'type': 'builtins.ValueError',
                                                             'args': {'tuple': [{'str': "'line 00: "
                                                                                        'invalid '
                                                                                        "line'"}]},
                                                             'str': 'line 00: invalid line',
                                                             'cause': None,
                                                             'context': None,
                                                             'suppress_context': False}],
                                             'message': 'failed to parse the summary'}},
 'parse_summary/single_quote': {'raised': {'type': 'builtins.ExceptionGroup',
                                           'args': {'tuple': [{'str': "'failed to parse the "
                                                                      "summary'"},
                                                              {'list': [{'exception-object': {'type': 'builtins.ValueError',
                                                                                              'args': {'tuple': [{'str': "'line "
                                                                                                                         '00: '
                                                                                                                         'invalid '
                                                                                                                         "line'"}]},
                                                                                              'str': 'line '
                                                                                                     '00: '
                                                                                                     'invalid '
                                                                                                     'line',
                                                                                              'cause': None,
                                                                                              'context': None,
                                                                                              'suppress_context': False}}]}]},
                                           'str': 'failed to parse the summary (1 sub-exception)',
                                           'cause': None,
                                           'context': None,
                                           'suppress_context': False,
                                           'exceptions': [{'type': 'builtins.ValueError',
                                                           'args': {'tuple': [{'str': "'line 00: "
                                                                                      'invalid '
                                                                                      "line'"}]},
                                                           'str': 'line 00: invalid line',
                                                           'cause': None,
                                                           'context': None,
                                                           'suppress_context': False}],
                                           'message': 'failed to parse the summary'}},
 'parse_summary/form_feed_splits_line': {'raised': {'type': 'builtins.ExceptionGroup',
                                                    'args': {'tuple': [{'str': "'failed to parse "
                                                                               "the summary'"},
                                                                       {'list': [{'exception-object': {'type': 'builtins.ValueError',
                                                                                                       'args': {'tuple': [{'str': "'line "
                                                                                                                                  '00: '
                                                                                                                                  'invalid '
                                                                                                                                  "line'"}]},
                                                                                                       'str': 'line '
                                                                                                              '00: '
                                                                                                              'invalid '
                                                                                                              'line',
                                                                                                       'cause': None,
                                                                                                       'context': None,
                                                                                                       'suppress_context': False}},
                                                                                 {'exception-object': {'type': 'builtins.ValueError',
                                                                                                       'args': {'tuple': [{'str': "'line "
                                                                                                                                  '01: '
                                                                                                                                  'invalid '
                                                                                                                                  "line'"}]},
                                                                                                       'str': 'line '
                                                                                                              '01: '
                                                                                                              'invalid '
                                                                                                              'line',
                                                                                                       'cause': None,
                                                                                                       'context': None,
                                                                                                       'suppress_context': False}}]}]},
                                                    'str': 'failed to parse the summary (2 '
                                                           'sub-exceptions)',
                                                    'cause': None,
                                                    'context': None,
                                                    'suppress_context': False,
                                                    'exceptions': [{'type': 'builtins.ValueError',
                                                                    'args': {'tuple': [{'str': "'line "
                                                                                               '00: '
                                                                                               'invalid '
                                                                                               "line'"}]},
                                                                    'str': 'line 00: invalid line',
                                                                    'cause': None,
                                                                    'context': None,
                                                                    'suppress_context': False},
                                                                   {'type': 'builtins.ValueError',
                                                                    'args': {'tuple': [{'str': "'line "
                                                                                               '01: '
                                                                                               'invalid '
                                                                                               "line'"}]},
                                                                    'str': 'line 01: invalid line',
                                                                    'cause': None,
                                                                    'context': None,
                                                                    'suppress_context': False}],
                                                    'message': 'failed to parse the summary'}},
 'parse_summary/bad/bytes': {'raised': {'type': 'builtins.TypeError',
                                        'args': {'tuple': [{'str': "'cannot use a string pattern "
                                                                   "on a bytes-like object'"}]},
                                        'str': 'cannot use a string pattern on a bytes-like object',
                                        'cause': None,
                                        'context': None,
                                        'suppress_context': False}},
 'parse_summary/bad/empty_bytes': {'returned': {'dict:dict': []}},
 'parse_summary/bad/bytes_newline_only': {'raised': {'type': 'builtins.TypeError',
                                                     'args': {'tuple': [{'str': "'cannot use a "
                                                                                'string pattern on '
                                                                                'a bytes-like '
                                                                                "object'"}]},
                                                     'str': 'cannot use a string pattern on a '
                                                            'bytes-like object',
                                                     'cause': None,
                                                     'context': None,
                                                     'suppress_context': False}},
 'parse_summary/bad/none': {'raised': {'type': 'builtins.AttributeError',
                                       'args': {'tuple': [{'str': '"\'NoneType\' object has no '
                                                                  'attribute \'splitlines\'"'}]},
                                       'str': "'NoneType' object has no attribute 'splitlines'",
                                       'cause': None,
                                       'context': None,
                                       'suppress_context': False}},
 'parse_summary/bad/list': {'raised': {'type': 'builtins.AttributeError',
                                       'args': {'tuple': [{'str': '"\'list\' object has no '
                                                                  'attribute \'splitlines\'"'}]},
                                       'str': "'list' object has no attribute 'splitlines'",
                                       'cause': None,
                                       'context': None,
                                       'suppress_context': False}},
 'parse_summary/bad/int': {'raised': {'type': 'builtins.AttributeError',
                                      'args': {'tuple': [{'str': '"\'int\' object has no attribute '
                                                                 '\'splitlines\'"'}]},
                                      'str': "'int' object has no attribute 'splitlines'",
                                      'cause': None,
                                      'context': None,
                                      'suppress_context': False}},
 'parse_line/0': {'returned': {'dict:dict': [[{'str': "'section'"}, {'str': "'Scs'"}],
                                             [{'str': "'keyword'"}, {'str': "'SceneShift'"}],
                                             [{'str': "'value'"}, {'str': "'0'"}]]}},
 'parse_line/1': {'returned': {'dict:dict': [[{'str': "'section'"}, {'str': "'Pds'"}],
                                             [{'str': "'keyword'"}, {'str': "'ProductID'"}],
                                             [{'str': "'value'"}, {'str': "'WWDR1.1__D'"}]]}},
 'parse_line/2': {'raised': {'type': 'builtins.ValueError',
                             'args': {'tuple': [{'str': "'invalid line'"}]},
                             'str': 'invalid line',
                             'cause': None,
                             'context': None,
                             'suppress_context': False}},
 'parse_line/3': {'raised': {'type': 'builtins.ValueError',
                             'args': {'tuple': [{'str': "'invalid line'"}]},
                             'str': 'invalid line',
                             'cause': None,
                             'context': None,
                             'suppress_context': False}},
 'parse_line/4': {'raised': {'type': 'builtins.ValueError',
                             'args': {'tuple': [{'str': "'invalid line'"}]},
                             'str': 'invalid line',
                             'cause': None,
                             'context': None,
                             'suppress_context': False}},
 'parse_line/5': {'returned': {'dict:dict': [[{'str': "'section'"}, {'str': "'Ach'"}],
                                             [{'str': "'keyword'"}, {'str': "''"}],
                                             [{'str': "'value'"}, {'str': "''"}]]}},
 'parse_line/6': {'returned': {'dict:dict': [[{'str': "'section'"}, {'str': "'Scs'"}],
                                             [{'str': "'keyword'"}, {'str': "'a'"}],
                                             [{'str': "'value'"}, {'str': '\'b"c\''}]]}},
 'parse_line/7': {'raised': {'type': 'builtins.ValueError',
                             'args': {'tuple': [{'str': "'invalid line'"}]},
                             'str': 'invalid line',
                             'cause': None,
                             'context': None,
                             'suppress_context': False}},
 'parse_line/8': {'raised': {'type': 'builtins.TypeError',
                             'args': {'tuple': [{'str': '"expected string or bytes-like object, '
                                                        'got \'NoneType\'"'}]},
                             'str': "expected string or bytes-like object, got 'NoneType'",
                             'cause': None,
                             'context': None,
                             'suppress_context': False}},
 'parse_line/9': {'raised': {'type': 'builtins.TypeError',
                             'args': {'tuple': [{'str': "'cannot use a string pattern on a "
                                                        "bytes-like object'"}]},
                             'str': 'cannot use a string pattern on a bytes-like object',
                             'cause': None,
                             'context': None,
                             'suppress_context': False}},
 'parse_summary/fresh': {'list': [{'dict:dict': [[{'str': "'scs'"},
                                                  {'dict:dict': [[{'str': "'a'"}, {'str': "'1'"}],
                                                                 [{'str': "'c'"}, {'str': "'3'"}],
                                                                 [{'str': "'f'"},
                                                                  {'str': "'6'"}]]}],
                                                 [{'str': "'pds'"},
                                                  {'dict:dict': [[{'str': "'b'"}, {'str': "'2'"}],
                                                                 [{'str': "'d'"},
                                                                  {'str': "'4'"}]]}],
                                                 [{'str': "'ach'"},
                                                  {'dict:dict': [[{'str': "'e'"},
                                                                  {'str': "'5'"}]]}]]},
                                  {'bool': 'True'},
                                  {'bool': 'True'}]},
 'with_lineno/plain': {'returned': {'exception-object': {'type': 'builtins.ValueError',
                                                         'args': {'tuple': [{'str': "'line 03: "
                                                                                    'invalid '
                                                                                    "line'"}]},
                                                         'str': 'line 03: invalid line',
                                                         'cause': None,
                                                         'context': None,
                                                         'suppress_context': False}}},
 'with_lineno/more_args': {'returned': {'exception-object': {'type': 'builtins.ValueError',
                                                             'args': {'tuple': [{'str': "'line "
                                                                                        "123: a'"},
                                                                                {'str': "'b'"},
                                                                                {'int': '3'}]},
                                                             'str': "('line 123: a', 'b', 3)",
                                                             'cause': None,
                                                             'context': None,
                                                             'suppress_context': False}}},
 'with_lineno/no_args': {'raised': {'type': 'builtins.IndexError',
                                    'args': {'tuple': [{'str': "'tuple index out of range'"}]},
                                    'str': 'tuple index out of range',
                                    'cause': None,
                                    'context': None,
                                    'suppress_context': False}},
 'open_summary/full': {'returned': {'Group': {'path': {'str': "'summary'"},
                                              'url': {'NoneType': 'None'},
                                              'data': {'dict:dict': [[{'str': "'ordering_information'"},
                                                                      {'Group': {'path': {'str': "'summary/ordering_information'"},
                                                                                 'url': {'NoneType': 'None'},
                                                                                 'data': {'dict:dict': []},
                                                                                 'attrs': {'dict:dict': [[{'str': "'SceneId'"},
                                                                                                          {'str': "'SARD000000276461-00043-005-000'"}]]}}}],
                                                                     [{'str': "'scene_specification'"},
                                                                      {'Group': {'path': {'str': "'summary/scene_specification'"},
                                                                                 'url': {'NoneType': 'None'},
                                                                                 'data': {'dict:dict': []},
                                                                                 'attrs': {'dict:dict': [[{'str': "'mission_name'"},
                                                                                                          {'str': "'ALOS2'"}],
                                                                                                         [{'str': "'orbit_accumulation'"},
                                                                                                          {'int': '22533'}],
                                                                                                         [{'str': "'scene_frame'"},
                                                                                                          {'int': '3200'}],
                                                                                                         [{'str': "'date'"},
                                                                                                          {'str': "'2018-07-26'"}],
                                                                                                         [{'str': "'SceneShift'"},
                                                                                                          {'int': '0'}]]}}}],
                                                                     [{'str': "'product_specification'"},
                                                                      {'Group': {'path': {'str': "'summary/product_specification'"},
                                                                                 'url': {'NoneType': 'None'},
                                                                                 'data': {'dict:dict': []},
                                                                                 'attrs': {'dict:dict': [[{'str': "'observation_mode'"},
                                                                                                          {'str': "'ScanSAR "
                                                                                                                  'nominal '
                                                                                                                  '28MHz '
                                                                                                                  'mode '
                                                                                                                  'dual '
                                                                                                                  "polarization'"}],
                                                                                                         [{'str': "'observation_direction'"},
                                                                                                          {'str': "'right "
                                                                                                                  "looking'"}],
                                                                                                         [{'str': "'processing_level'"},
                                                                                                          {'str': "'level "
                                                                                                                  "1.1'"}],
                                                                                                         [{'str': "'processing_option'"},
                                                                                                          {'str': "'not "
                                                                                                                  "specified'"}],
                                                                                                         [{'str': "'map_projection'"},
                                                                                                          {'str': "'not "
                                                                                                                  "specified'"}],
                                                                                                         [{'str': "'orbit_direction'"},
                                                                                                          {'str': "'descending'"}],
                                                                                                         [{'str': "'ResamplingMethod'"},
                                                                                                          {'str': "'nearest-neighbor'"}],
                                                                                                         [{'str': "'UTM_ZoneNo'"},
                                                                                                          {'int': '0'}]]}}}],
                                                                     [{'str': "'image_information'"},
                                                                      {'Group': {'path': {'str': "'summary/image_information'"},
                                                                                 'url': {'NoneType': 'None'},
                                                                                 'data': {'dict:dict': []},
                                                                                 'attrs': {'dict:dict': [[{'str': "'SceneCenterDateTime'"},
                                                                                                          {'str': "'2018-07-26T13:09:44.204'"}],
                                                                                                         [{'str': "'OffNadirAngle'"},
                                                                                                          {'float': '21.3'}]]}}}],
                                                                     [{'str': "'product_information'"},
                                                                      {'Group': {'path': {'str': "'summary/product_information'"},
                                                                                 'url': {'NoneType': 'None'},
                                                                                 'data': {'dict:dict': [[{'str': "'data_files'"},
                                                                                                         {'Group': {'path': {'str': "'summary/product_information/data_files'"},
                                                                                                                    'url': {'NoneType': 'None'},
                                                                                                                    'data': {'dict:dict': []},
                                                                                                                    'attrs': {'dict:dict': [[{'str': "'volume_directory'"},
                                                                                                                                             {'str': "'VOL-ALOS2225333200-180726-WWDR1.1__D'"}],
                                                                                                                                            [{'str': "'sar_leader'"},
                                                                                                                                             {'str': "'LED-ALOS2225333200-180726-WWDR1.1__D'"}],
                                                                                                                                            [{'str': "'sar_imagery'"},
                                                                                                                                             {'list': [{'str': "'IMG-HH-ALOS2225333200-180726-WWDR1.1__D-F1'"}]}],
                                                                                                                                            [{'str': "'sar_trailer'"},
                                                                                                                                             {'str': "'TRL-ALOS2225333200-180726-WWDR1.1__D'"}]]}}}],
                                                                                                        [{'str': "'shapes'"},
                                                                                                         {'Group': {'path': {'str': "'summary/product_information/shapes'"},
                                                                                                                    'url': {'NoneType': 'None'},
                                                                                                                    'data': {'dict:dict': []},
                                                                                                                    'attrs': {'dict:dict': [[{'str': "'HH'"},
                                                                                                                                             {'tuple': [{'int': '8000'},
                                                                                                                                                        {'int': '9000'}]}]]}}}]]},
                                                                                 'attrs': {'dict:dict': [[{'str': "'ProductDataSize'"},
                                                                                                          {'float': '798.2'}]]}}}],
                                                                     [{'str': "'autocheck'"},
                                                                      {'Group': {'path': {'str': "'summary/autocheck'"},
                                                                                 'url': {'NoneType': 'None'},
                                                                                 'data': {'dict:dict': []},
                                                                                 'attrs': {'dict:dict': [[{'str': "'PRF_Check'"},
                                                                                                          {'str': "'N/A'"}]]}}}],
                                                                     [{'str': "'result_information'"},
                                                                      {'Group': {'path': {'str': "'summary/result_information'"},
                                                                                 'url': {'NoneType': 'None'},
                                                                                 'data': {'dict:dict': []},
                                                                                 'attrs': {'dict:dict': [[{'str': "'PracticeResultCode'"},
                                                                                                          {'str': "'GOOD'"}]]}}}],
                                                                     [{'str': "'label_information'"},
                                                                      {'Group': {'path': {'str': "'summary/label_information'"},
                                                                                 'url': {'NoneType': 'None'},
                                                                                 'data': {'dict:dict': []},
                                                                                 'attrs': {'dict:dict': [[{'str': "'Sensor'"},
                                                                                                          {'str': "'SAR'"}],
                                                                                                         [{'str': "'ObservationDate'"},
                                                                                                          {'str': "'2018-07-26'"}]]}}}]]},
                                              'attrs': {'dict:dict': []}}}},
 'open_summary/full_crlf': {'returned': {'Group': {'path': {'str': "'summary'"},
                                                   'url': {'NoneType': 'None'},
                                                   'data': {'dict:dict': [[{'str': "'ordering_information'"},
                                                                           {'Group': {'path': {'str': "'summary/ordering_information'"},
                                                                                      'url': {'NoneType': 'None'},
                                                                                      'data': {'dict:dict': []},
                                                                                      'attrs': {'dict:dict': [[{'str': "'SceneId'"},
                                                                                                               {'str': "'SARD000000276461-00043-005-000'"}]]}}}],
                                                                          [{'str': "'scene_specification'"},
                                                                           {'Group': {'path': {'str': "'summary/scene_specification'"},
                                                                                      'url': {'NoneType': 'None'},
                                                                                      'data': {'dict:dict': []},
                                                                                      'attrs': {'dict:dict': [[{'str': "'mission_name'"},
                                                                                                               {'str': "'ALOS2'"}],
                                                                                                              [{'str': "'orbit_accumulation'"},
                                                                                                               {'int': '22533'}],
                                                                                                              [{'str': "'scene_frame'"},
                                                                                                               {'int': '3200'}],
                                                                                                              [{'str': "'date'"},
                                                                                                               {'str': "'2018-07-26'"}],
                                                                                                              [{'str': "'SceneShift'"},
                                                                                                               {'int': '0'}]]}}}],
                                                                          [{'str': "'product_specification'"},
                                                                           {'Group': {'path': {'str': "'summary/product_specification'"},
                                                                                      'url': {'NoneType': 'None'},
                                                                                      'data': {'dict:dict': []},
                                                                                      'attrs': {'dict:dict': [[{'str': "'observation_mode'"},
                                                                                                               {'str': "'ScanSAR "
                                                                                                                       'nominal '
                                                                                                                       '28MHz '
                                                                                                                       'mode '
                                                                                                                       'dual '
                                                                                                                       "polarization'"}],
                                                                                                              [{'str': "'observation_direction'"},
                                                                                                               {'str': "'right "
                                                                                                                       "looking'"}],
                                                                                                              [{'str': "'processing_level'"},
                                                                                                               {'str': "'level "
                                                                                                                       "1.1'"}],
                                                                                                              [{'str': "'processing_option'"},
                                                                                                               {'str': "'not "
                                                                                                                       "specified'"}],
                                                                                                              [{'str': "'map_projection'"},
                                                                                                               {'str': "'not "
                                                                                                                       "specified'"}],
                                                                                                              [{'str': "'orbit_direction'"},
                                                                                                               {'str': "'descending'"}],
                                                                                                              [{'str': "'ResamplingMethod'"},
                                                                                                               {'str': "'nearest-neighbor'"}],
                                                                                                              [{'str': "'UTM_ZoneNo'"},
                                                                                                               {'int': '0'}]]}}}],
                                                                          [{'str': "'image_information'"},
                                                                           {'Group': {'path': {'str': "'summary/image_information'"},
                                                                                      'url': {'NoneType': 'None'},
                                                                                      'data': {'dict:dict': []},
                                                                                      'attrs': {'dict:dict': [[{'str': "'SceneCenterDateTime'"},
                                                                                                               {'str': "'2018-07-26T13:09:44.204'"}],
                                                                                                              [{'str': "'OffNadirAngle'"},
                                                                                                               {'float': '21.3'}]]}}}],
                                                                          [{'str': "'product_information'"},
                                                                           {'Group': {'path': {'str': "'summary/product_information'"},
                                                                                      'url': {'NoneType': 'None'},
                                                                                      'data': {'dict:dict': [[{'str': "'data_files'"},
                                                                                                              {'Group': {'path': {'str': "'summary/product_information/data_files'"},
                                                                                                                         'url': {'NoneType': 'None'},
                                                                                                                         'data': {'dict:dict': []},
                                                                                                                         'attrs': {'dict:dict': [[{'str': "'volume_directory'"},
                                                                                                                                                  {'str': "'VOL-ALOS2225333200-180726-WWDR1.1__D'"}],
                                                                                                                                                 [{'str': "'sar_leader'"},
                                                                                                                                                  {'str': "'LED-ALOS2225333200-180726-WWDR1.1__D'"}],
                                                                                                                                                 [{'str': "'sar_imagery'"},
                                                                                                                                                  {'list': [{'str': "'IMG-HH-ALOS2225333200-180726-WWDR1.1__D-F1'"}]}],
                                                                                                                                                 [{'str': "'sar_trailer'"},
                                                                                                                                                  {'str': "'TRL-ALOS2225333200-180726-WWDR1.1__D'"}]]}}}],
                                                                                                             [{'str': "'shapes'"},
                                                                                                              {'Group': {'path': {'str': "'summary/product_information/shapes'"},
                                                                                                                         'url': {'NoneType': 'None'},
                                                                                                                         'data': {'dict:dict': []},
                                                                                                                         'attrs': {'dict:dict': [[{'str': "'HH'"},
                                                                                                                                                  {'tuple': [{'int': '8000'},
                                                                                                                                                             {'int': '9000'}]}]]}}}]]},
                                                                                      'attrs': {'dict:dict': [[{'str': "'ProductDataSize'"},
                                                                                                               {'float': '798.2'}]]}}}],
                                                                          [{'str': "'autocheck'"},
                                                                           {'Group': {'path': {'str': "'summary/autocheck'"},
                                                                                      'url': {'NoneType': 'None'},
                                                                                      'data': {'dict:dict': []},
                                                                                      'attrs': {'dict:dict': [[{'str': "'PRF_Check'"},
                                                                                                               {'str': "'N/A'"}]]}}}],
                                                                          [{'str': "'result_information'"},
                                                                           {'Group': {'path': {'str': "'summary/result_information'"},
                                                                                      'url': {'NoneType': 'None'},
                                                                                      'data': {'dict:dict': []},
                                                                                      'attrs': {'dict:dict': [[{'str': "'PracticeResultCode'"},
                                                                                                               {'str': "'GOOD'"}]]}}}],
                                                                          [{'str': "'label_information'"},
                                                                           {'Group': {'path': {'str': "'summary/label_information'"},
                                                                                      'url': {'NoneType': 'None'},
                                                                                      'data': {'dict:dict': []},
                                                                                      'attrs': {'dict:dict': [[{'str': "'Sensor'"},
                                                                                                               {'str': "'SAR'"}],
                                                                                                              [{'str': "'ObservationDate'"},
                                                                                                               {'str': "'2018-07-26'"}]]}}}]]},
                                                   'attrs': {'dict:dict': []}}}},
 'open_summary/case_variants_of_a_section': {'returned': {'Group': {'path': {'str': "'summary'"},
                                                                    'url': {'NoneType': 'None'},
                                                                    'data': {'dict:dict': [[{'str': "'scene_specification'"},
                                                                                            {'Group': {'path': {'str': "'summary/scene_specification'"},
                                                                                                       'url': {'NoneType': 'None'},
                                                                                                       'data': {'dict:dict': []},
                                                                                                       'attrs': {'dict:dict': [[{'str': "'d'"},
                                                                                                                                {'str': "'4'"}]]}}}],
                                                                                           [{'str': "'product_specification'"},
                                                                                            {'Group': {'path': {'str': "'summary/product_specification'"},
                                                                                                       'url': {'NoneType': 'None'},
                                                                                                       'data': {'dict:dict': []},
                                                                                                       'attrs': {'dict:dict': [[{'str': "'x'"},
                                                                                                                                {'float': '0.0'}]]}}}]]},
                                                                    'attrs': {'dict:dict': []}}}},
 'open_summary/several_invalid': {'raised': {'type': 'builtins.ExceptionGroup',
                                             'args': {'tuple': [{'str': "'failed to parse the "
                                                                        "summary'"},
                                                                {'list': [{'exception-object': {'type': 'builtins.ValueError',
                                                                                                'args': {'tuple': [{'str': "'line "
                                                                                                                           '01: '
                                                                                                                           'invalid '
                                                                                                                           "line'"}]},
                                                                                                'str': 'line '
                                                                                                       '01: '
                                                                                                       'invalid '
                                                                                                       'line',
                                                                                                'cause': None,
                                                                                                'context': None,
                                                                                                'suppress_context': False}},
                                                                          {'exception-object': {'type': 'builtins.ValueError',
                                                                                                'args': {'tuple': [{'str': "'line "
                                                                                                                           '03: '
                                                                                                                           'invalid '
                                                                                                                           "line'"}]},
                                                                                                'str': 'line '
                                                                                                       '03: '
                                                                                                       'invalid '
                                                                                                       'line',
                                                                                                'cause': None,
                                                                                                'context': None,
                                                                                                'suppress_context': False}},
                                                                          {'exception-object': {'type': 'builtins.ValueError',
                                                                                                'args': {'tuple': [{'str': "'line "
                                                                                                                           '04: '
                                                                                                                           'invalid '
                                                                                                                           "line'"}]},
                                                                                                'str': 'line '
                                                                                                       '04: '
                                                                                                       'invalid '
                                                                                                       'line',
                                                                                                'cause': None,
                                                                                                'context': None,
                                                                                                'suppress_context': False}}]}]},
                                             'str': 'failed to parse the summary (3 '
                                                    'sub-exceptions)',
                                             'cause': None,
                                             'context': None,
                                             'suppress_context': False,
                                             'exceptions': [{'type': 'builtins.ValueError',
                                                             'args': {'tuple': [{'str': "'line 01: "
                                                                                        'invalid '
                                                                                        "line'"}]},
                                                             'str': 'line 01: invalid line',
                                                             'cause': None,
                                                             'context': None,
                                                             'suppress_context': False},
                                                            {'type': 'builtins.ValueError',
                                                             'args': {'tuple': [{'str': "'line 03: "
                                                                                        'invalid '
                                                                                        "line'"}]},
                                                             'str': 'line 03: invalid line',
                                                             'cause': None,
                                                             'context': None,
                                                             'suppress_context': False},
                                                            {'type': 'builtins.ValueError',
                                                             'args': {'tuple': [{'str': "'line 04: "
                                                                                        'invalid '
                                                                                        "line'"}]},
                                                             'str': 'line 04: invalid line',
                                                             'cause': None,
                                                             'context': None,
                                                             'suppress_context': False}],
                                             'message': 'failed to parse the summary'}},
 'open_summary/empty': {'returned': {'Group': {'path': {'str': "'summary'"},
                                               'url': {'NoneType': 'None'},
                                               'data': {'dict:dict': []},
                                               'attrs': {'dict:dict': []}}}},
 'open_summary/missing': {'raised': {'type': 'builtins.OSError',
                                     'args': {'tuple': [{'str': "'Cannot find the summary file "
                                                                '(`summary.txt`). Make sure the '
                                                                'dataset at /eq1/missing is '
                                                                'complete and in the JAXA CEOS '
                                                                "format.'"}]},
                                     'str': 'Cannot find the summary file (`summary.txt`). Make '
                                            'sure the dataset at /eq1/missing is complete and in '
                                            'the JAXA CEOS format.',
                                     'cause': {'type': 'builtins.KeyError',
                                               'args': {'tuple': [{'str': "'summary.txt'"}]},
                                               'str': "'summary.txt'",
                                               'cause': {'type': 'builtins.FileNotFoundError',
                                                         'args': {'tuple': [{'str': "'/eq1/missing/summary.txt'"}]},
                                                         'str': '/eq1/missing/summary.txt',
                                                         'cause': {'type': 'builtins.KeyError',
                                                                   'args': {'tuple': [{'str': "'/eq1/missing/summary.txt'"}]},
                                                                   'str': "'/eq1/missing/summary.txt'",
                                                                   'cause': None,
                                                                   'context': None,
                                                                   'suppress_context': False},
                                                         'context': {'type': 'builtins.KeyError',
                                                                     'args': {'tuple': [{'str': "'/eq1/missing/summary.txt'"}]},
                                                                     'str': "'/eq1/missing/summary.txt'",
                                                                     'cause': None,
                                                                     'context': None,
                                                                     'suppress_context': False},
                                                         'suppress_context': True},
                                               'context': {'type': 'builtins.FileNotFoundError',
                                                           'args': {'tuple': [{'str': "'/eq1/missing/summary.txt'"}]},
                                                           'str': '/eq1/missing/summary.txt',
                                                           'cause': {'type': 'builtins.KeyError',
                                                                     'args': {'tuple': [{'str': "'/eq1/missing/summary.txt'"}]},
                                                                     'str': "'/eq1/missing/summary.txt'",
                                                                     'cause': None,
                                                                     'context': None,
                                                                     'suppress_context': False},
                                                           'context': {'type': 'builtins.KeyError',
                                                                       'args': {'tuple': [{'str': "'/eq1/missing/summary.txt'"}]},
                                                                       'str': "'/eq1/missing/summary.txt'",
                                                                       'cause': None,
                                                                       'context': None,
                                                                       'suppress_context': False},
                                                           'suppress_context': True},
                                               'suppress_context': True},
                                     'context': {'type': 'builtins.KeyError',
                                                 'args': {'tuple': [{'str': "'summary.txt'"}]},
                                                 'str': "'summary.txt'",
                                                 'cause': {'type': 'builtins.FileNotFoundError',
                                                           'args': {'tuple': [{'str': "'/eq1/missing/summary.txt'"}]},
                                                           'str': '/eq1/missing/summary.txt',
                                                           'cause': {'type': 'builtins.KeyError',
                                                                     'args': {'tuple': [{'str': "'/eq1/missing/summary.txt'"}]},
                                                                     'str': "'/eq1/missing/summary.txt'",
                                                                     'cause': None,
                                                                     'context': None,
                                                                     'suppress_context': False},
                                                           'context': {'type': 'builtins.KeyError',
                                                                       'args': {'tuple': [{'str': "'/eq1/missing/summary.txt'"}]},
                                                                       'str': "'/eq1/missing/summary.txt'",
                                                                       'cause': None,
                                                                       'context': None,
                                                                       'suppress_context': False},
                                                           'suppress_context': True},
                                                 'context': {'type': 'builtins.FileNotFoundError',
                                                             'args': {'tuple': [{'str': "'/eq1/missing/summary.txt'"}]},
                                                             'str': '/eq1/missing/summary.txt',
                                                             'cause': {'type': 'builtins.KeyError',
                                                                       'args': {'tuple': [{'str': "'/eq1/missing/summary.txt'"}]},
                                                                       'str': "'/eq1/missing/summary.txt'",
                                                                       'cause': None,
                                                                       'context': None,
                                                                       'suppress_context': False},
                                                             'context': {'type': 'builtins.KeyError',
                                                                         'args': {'tuple': [{'str': "'/eq1/missing/summary.txt'"}]},
                                                                         'str': "'/eq1/missing/summary.txt'",
                                                                         'cause': None,
                                                                         'context': None,
                                                                         'suppress_context': False},
                                                             'suppress_context': True},
                                                 'suppress_context': True},
                                     'suppress_context': True}},
 'open_summary/other_path': {'raised': {'type': 'builtins.OSError',
                                        'args': {'tuple': [{'str': "'Cannot find the summary file "
                                                                   '(`something.txt`). Make sure '
                                                                   'the dataset at /eq1/other is '
                                                                   'complete and in the JAXA CEOS '
                                                                   "format.'"}]},
                                        'str': 'Cannot find the summary file (`something.txt`). '
                                               'Make sure the dataset at /eq1/other is complete '
                                               'and in the JAXA CEOS format.',
                                        'cause': {'type': 'builtins.KeyError',
                                                  'args': {'tuple': [{'str': "'something.txt'"}]},
                                                  'str': "'something.txt'",
                                                  'cause': {'type': 'builtins.FileNotFoundError',
                                                            'args': {'tuple': [{'str': "'/eq1/other/something.txt'"}]},
                                                            'str': '/eq1/other/something.txt',
                                                            'cause': {'type': 'builtins.KeyError',
                                                                      'args': {'tuple': [{'str': "'/eq1/other/something.txt'"}]},
                                                                      'str': "'/eq1/other/something.txt'",
                                                                      'cause': None,
                                                                      'context': None,
                                                                      'suppress_context': False},
                                                            'context': {'type': 'builtins.KeyError',
                                                                        'args': {'tuple': [{'str': "'/eq1/other/something.txt'"}]},
                                                                        'str': "'/eq1/other/something.txt'",
                                                                        'cause': None,
                                                                        'context': None,
                                                                        'suppress_context': False},
                                                            'suppress_context': True},
                                                  'context': {'type': 'builtins.FileNotFoundError',
                                                              'args': {'tuple': [{'str': "'/eq1/other/something.txt'"}]},
                                                              'str': '/eq1/other/something.txt',
                                                              'cause': {'type': 'builtins.KeyError',
                                                                        'args': {'tuple': [{'str': "'/eq1/other/something.txt'"}]},
                                                                        'str': "'/eq1/other/something.txt'",
                                                                        'cause': None,
                                                                        'context': None,
                                                                        'suppress_context': False},
                                                              'context': {'type': 'builtins.KeyError',
                                                                          'args': {'tuple': [{'str': "'/eq1/other/something.txt'"}]},
                                                                          'str': "'/eq1/other/something.txt'",
                                                                          'cause': None,
                                                                          'context': None,
                                                                          'suppress_context': False},
                                                              'suppress_context': True},
                                                  'suppress_context': True},
                                        'context': {'type': 'builtins.KeyError',
                                                    'args': {'tuple': [{'str': "'something.txt'"}]},
                                                    'str': "'something.txt'",
                                                    'cause': {'type': 'builtins.FileNotFoundError',
                                                              'args': {'tuple': [{'str': "'/eq1/other/something.txt'"}]},
                                                              'str': '/eq1/other/something.txt',
                                                              'cause': {'type': 'builtins.KeyError',
                                                                        'args': {'tuple': [{'str': "'/eq1/other/something.txt'"}]},
                                                                        'str': "'/eq1/other/something.txt'",
                                                                        'cause': None,
                                                                        'context': None,
                                                                        'suppress_context': False},
                                                              'context': {'type': 'builtins.KeyError',
                                                                          'args': {'tuple': [{'str': "'/eq1/other/something.txt'"}]},
                                                                          'str': "'/eq1/other/something.txt'",
                                                                          'cause': None,
                                                                          'context': None,
                                                                          'suppress_context': False},
                                                              'suppress_context': True},
                                                    'context': {'type': 'builtins.FileNotFoundError',
                                                                'args': {'tuple': [{'str': "'/eq1/other/something.txt'"}]},
                                                                'str': '/eq1/other/something.txt',
                                                                'cause': {'type': 'builtins.KeyError',
                                                                          'args': {'tuple': [{'str': "'/eq1/other/something.txt'"}]},
                                                                          'str': "'/eq1/other/something.txt'",
                                                                          'cause': None,
                                                                          'context': None,
                                                                          'suppress_context': False},
                                                                'context': {'type': 'builtins.KeyError',
                                                                            'args': {'tuple': [{'str': "'/eq1/other/something.txt'"}]},
                                                                            'str': "'/eq1/other/something.txt'",
                                                                            'cause': None,
                                                                            'context': None,
                                                                            'suppress_context': False},
                                                                'suppress_context': True},
                                                    'suppress_context': True},
                                        'suppress_context': True}},
 'open_summary/invalid_utf8': {'raised': {'type': 'builtins.UnicodeDecodeError',
                                          'args': {'tuple': [{'str': "'utf-8'"},
                                                             {'bytes': 'b\'Scs_a="\\xff"\''},
                                                             {'int': '7'},
                                                             {'int': '8'},
                                                             {'str': "'invalid start byte'"}]},
                                          'str': "'utf-8' codec can't decode byte 0xff in position "
                                                 '7: invalid start byte',
                                          'cause': None,
                                          'context': None,
                                          'suppress_context': False}}}


def compare():
    actual = collect()
    assert list(actual) == list(EXPECTED), "different set of cases"
    different = [name for name in actual if actual[name] != EXPECTED[name]]
    for name in different:
        print(f"MISMATCH {name}:\n  expected: {EXPECTED[name]}\n  actual:   {actual[name]}")
    return different, len(actual)


def test_equivalence():
    different, _ = compare()
    assert not different


if __name__ == "__main__":
    different, n_cases = compare()
    if different:
        print(f"FAILED: {len(different)} of {n_cases} cases differ")
        sys.exit(1)
    print(f"OK: {n_cases} cases identical to the recorded behaviour")
