"""Equivalence check for refactoring 2 (volume_directory/metadata.py: transform_record;
volume_directory/io.py: open_volume_directory).

Run as a script (`python equiv.py`) or through pytest.  `python equiv.py --record`
prints the outcomes computed by the code that is currently importable; the
EXPECTED table below was recorded that way from the UNCHANGED code (HEAD).
"""

import collections
import copy
import json
import struct
import sys
import types

import fsspec

from ceos_alos2.hierarchy import Group, Variable
from ceos_alos2.volume_directory import io, metadata


# --------------------------------------------------------------------------- harness
def canon(obj):
    """Type- and order-preserving rendering of a result."""
    if isinstance(obj, Group):
        return (
            f"Group(path={canon(obj.path)}, url={canon(obj.url)},"
            f" data={canon(obj.data)}, attrs={canon(obj.attrs)})"
        )
    if isinstance(obj, Variable):
        return f"Variable({canon(obj.dims)}, {canon(obj.data)}, {canon(obj.attrs)})"
    if isinstance(obj, dict):
        items = ", ".join(f"{canon(k)}: {canon(v)}" for k, v in obj.items())
        return f"{type(obj).__name__}{{{items}}}"
    if isinstance(obj, (list, tuple)):
        items = ", ".join(canon(v) for v in obj)
        return f"{type(obj).__name__}[{items}]"
    return f"{type(obj).__name__}:{obj!r}"


def outcome(func, *args):
    try:
        args_before = copy.deepcopy(args)
    except TypeError:  # e.g. mappingproxy
        args_before = args = tuple(args)
    try:
        result = func(*args)
    except Exception as e:  # noqa: BLE001
        cause = type(e.__cause__).__name__ if e.__cause__ is not None else None
        rendered = f"EXC {type(e).__name__}: {e} (cause: {cause})"
    else:
        rendered = "OK " + canon(result)
    mutated = canon(args_before) != canon(args)
    return rendered + (" [INPUT MUTATED]" if mutated else "")


# --------------------------------------------------------------------------- byte synthesis
def preamble(seq, length=360):
    return struct.pack(">IBBBBI", seq, 192, 192, 18, 18, length)


def field(value, width):
    if isinstance(value, int):
        text = str(value).rjust(width)
    else:
        text = str(value).ljust(width)
    assert len(text) == width, (value, width)
    return text.encode("ascii")


def volume_descriptor_bytes(n_files, creation="2020101117233798"):
    parts = [
        preamble(1),
        field("A", 2),
        field("", 2),
        field("CEOS-SAR", 12),
        field("A", 2),
        field("A", 2),
        field("001.001", 12),
        field("PHYS-0001", 16),
        field("LOGI-0001", 16),
        field("VOLSET-01", 16),
        field(1, 2),
        field(1, 2),
        field(1, 2),
        field(1, 2),
        field(2, 4),
        field(3, 4),
        field(4, 4),
        field(creation, 16),
        field("JAPAN", 12),
        field("JAXA", 8),
        field("EICS", 12),
        field(n_files, 4),
        field(1, 4),
        field("", 92),
        field("local", 100),
    ]
    data = b"".join(parts)
    assert len(data) == 360
    return data


def file_descriptor_bytes(number):
    parts = [
        preamble(1 + number),
        field("A", 2),
        field("", 2),
        field(number, 4),
        field(f"FILE-{number}", 16),
        field("SARLEADER FILE", 28),
        field("SARL", 4),
        field("MIXED BINARY AND ASCII", 28),
        field("MBAA", 4),
        field(10 + number, 8),
        field(720, 8),
        field(9000, 8),
        field("VARIABLE LEN", 12),
        field("VARE", 4),
        field(1, 2),
        field(1, 2),
        field(1, 8),
        field(10 + number, 8),
        field("", 100),
        field("", 100),
    ]
    data = b"".join(parts)
    assert len(data) == 360
    return data


def text_record_bytes(seq):
    parts = [
        preamble(seq),
        field("A", 2),
        field("", 2),
        field("PRODUCT:WWDR1.5RUA", 40),
        field("PROCESS:JAPAN-JAXA-EICS  20201011 172337", 60),
        field("TAPE-ID", 40),
        field("ORBIT:ALOS2123456789-201011", 40),
        field("SCENE-LOCATION", 40),
        field("", 124),
    ]
    data = b"".join(parts)
    assert len(data) == 360
    return data


def volume_directory_bytes(n_files, **kwargs):
    return (
        volume_descriptor_bytes(n_files, **kwargs)
        + b"".join(file_descriptor_bytes(i + 1) for i in range(n_files))
        + text_record_bytes(n_files + 2)
    )


# --------------------------------------------------------------------------- cases
class Section(dict):
    """dict subclass, to check that sections of subclass type are still flattened"""


RECORD_INPUTS = {
    "empty": {},
    "parsed-0": io.parse_data(volume_directory_bytes(0)),
    "parsed-1": io.parse_data(volume_directory_bytes(1)),
    "parsed-3": io.parse_data(volume_directory_bytes(3)),
    "only-file-descriptors": {"file_descriptors": [{"b": 2}, {"c": 3}]},
    "file-descriptors-scalar": {"file_descriptors": 1, "x": 2},
    "ignored": {
        "volume_descriptor": {"a": 1},
        "file_descriptors": [{"b": 2}, {"c": 3}],
        "text_record": {"d": 4},
    },
    "transformers": {
        "volume_descriptor": {"preamble": "a", "logical_volume_generation_country": "a"},
        "text_record": {"blanks": "", "location_and_datetime_of_product_creation": "b"},
    },
    "reversed-sections": {
        "text_record": {"c": 3, "d": 4},
        "volume_descriptor": {"a": 1, "b": 2},
    },
    "only-text": {"text_record": {"scene_id": "s", "physical_tape_id": "p"}},
    "only-descriptor": {"volume_descriptor": {"volume_set_id": "s", "spare": "p"}},
    "unknown-dict-section": {"other": {"x": 1, "blanks": 2}, "volume_descriptor": {"y": 3}},
    "unknown-scalar-sections": {"n": 1, "s": "text", "l": [1, {"a": 2}], "t": ({"a": 1},), "none": None},
    "two-levels": {"outer": {"inner": {"leaf": 1}, "k": 2}, "volume_descriptor": {"m": {"n": 1}}},
    "collision-between-sections": {
        "volume_descriptor": {"a": 1, "x": "from descriptor", "b": 2},
        "text_record": {"c": 3, "x": "from text", "d": 4},
    },
    "collision-scalar-then-section": {"a": "scalar", "z": 0, "text_record": {"a": "nested", "b": 1}},
    "collision-section-then-scalar": {"text_record": {"a": "nested", "b": 1}, "z": 0, "a": "scalar"},
    "collision-section-name": {"text_record": {"volume_descriptor": "x"}, "volume_descriptor": {"q": 1}},
    "collision-after-rename": {
        "volume_descriptor": {"logical_volume_generating_agency": "a", "creation_agency": "b"},
        "text_record": {"creation_agency": "c"},
    },
    "empty-sections": {"volume_descriptor": {}, "text_record": {}, "k": 1},
    "ordered-dict-sections": collections.OrderedDict(
        [
            ("text_record", collections.OrderedDict([("b", 1), ("blanks", 2), ("a", 3)])),
            ("extra", collections.OrderedDict([("z", 1), ("y", 2)])),
        ]
    ),
    "dict-subclass-section": {"extra": Section(p=1, q=2), "volume_descriptor": Section(spare=1, r=3)},
    "datetime": {"volume_descriptor": {"logical_volume_creation_datetime": "2020101117233798"}},
    "datetime-in-text-untouched": {"text_record": {"creation_datetime": "2020101117233798"}},
    "datetime-in-unknown-untouched": {"extra": {"creation_datetime": "2020101117233798"}},
    "bad-datetime": {"text_record": {"a": 1}, "volume_descriptor": {"creation_datetime": "x"}},
    "descriptor-none": {"text_record": {"a": 1}, "volume_descriptor": None},
    "descriptor-list": {"volume_descriptor": [1, 2]},
    "text-none": {"volume_descriptor": {"a": 1}, "text_record": None},
    "text-string": {"text_record": "abc"},
    "first-error-wins": {"volume_descriptor": 1, "text_record": "abc"},
    "first-error-wins-reversed": {"text_record": "abc", "volume_descriptor": 1},
    "non-string-keys": {1: {"a": 1}, None: 2, (1, 2): {"b": 3}, 2.5: [4]},
    "non-string-nested-keys": {"text_record": {1: "a", None: "b"}, "e": {(1,): 2}},
    "mapping-proxy": types.MappingProxyType({"file_descriptors": [], "text_record": {"a": 1}}),
    "mapping-proxy-section": {"extra": types.MappingProxyType({"a": 1}), "k": 2},
    "none": None,
    "list": [("volume_descriptor", {})],
    "string": "volume_descriptor",
    "int": 3,
}


class RecordingMapper:
    """mapping-like object logging every request"""

    def __init__(self, content, error=None):
        self.content = content
        self.error = error
        self.log = []

    def __getitem__(self, key):
        self.log.append(("getitem", key))
        if self.error is not None:
            raise self.error
        return self.content[key]

    def __getattr__(self, name):
        # anything besides item access is logged and refused
        if name.startswith("__"):
            raise AttributeError(name)
        self.log.append(("getattr", name))
        raise AttributeError(name)


def open_recording(content, path, error=None):
    mapper = RecordingMapper(content, error)
    try:
        result = io.open_volume_directory(mapper, path)
    except Exception as e:  # noqa: BLE001
        cause = type(e.__cause__).__name__ if e.__cause__ is not None else None
        return "raised", type(e).__name__, str(e), cause, mapper.log
    return result, mapper.log


def open_from_memory(data, path="VOL-TEST", root="/equiv2"):
    fs = fsspec.filesystem("memory")
    if fs.exists(root):
        fs.rm(root, recursive=True)
    fs.mkdirs(root, exist_ok=True)
    if data is not None:
        fs.pipe_file(f"{root}/VOL-TEST", data)
    mapper = fs.get_mapper(root)
    return io.open_volume_directory(mapper, path)


def cases():
    for name, mapping in RECORD_INPUTS.items():
        yield f"record/{name}", (metadata.transform_record, mapping)

    yield "record/keyword", (lambda m: metadata.transform_record(mapping=m), {"text_record": {"a": 1}})
    yield "record/no-args", (lambda: metadata.transform_record(),)
    yield "record/two-args", (lambda: metadata.transform_record({}, {}),)

    good = volume_directory_bytes(2)
    yield "open/memory-0-files", (open_from_memory, volume_directory_bytes(0))
    yield "open/memory-2-files", (open_from_memory, good)
    yield "open/memory-bytearray", (open_from_memory, bytearray(good))
    yield "open/memory-blank-datetime", (open_from_memory, volume_directory_bytes(1, creation=""))
    yield "open/memory-missing-file", (open_from_memory, None)
    yield "open/memory-other-name", (open_from_memory, good, "VOL-OTHER")
    yield "open/memory-empty-file", (open_from_memory, b"")
    yield "open/memory-truncated", (open_from_memory, good[:700])
    yield "open/memory-trailing-garbage", (open_from_memory, good + b"garbage")
    yield "open/memory-non-ascii", (open_from_memory, good[:20] + b"\xff" + good[21:])
    yield "open/memory-count-too-large", (open_from_memory, volume_descriptor_bytes(5) + good[360:])
    yield "open/memory-count-not-a-number", (
        open_from_memory,
        good[:160] + b"abcd" + good[164:],
    )

    yield "open/recording-dict", (open_recording, {"VOL": good}, "VOL")
    yield "open/recording-int-path", (open_recording, {7: good}, 7)
    yield "open/recording-tuple-path", (open_recording, {("a", 1): good}, ("a", 1))
    yield "open/recording-missing", (open_recording, {"VOL": good}, "vol")
    yield "open/recording-missing-empty-path", (open_recording, {}, "")
    yield "open/recording-missing-none-path", (open_recording, {}, None)
    yield "open/recording-unhashable-path", (open_recording, {}, ["VOL"])
    yield "open/recording-keyerror-subclass", (open_recording, {}, "VOL", type("MyKeyError", (KeyError,), {})("boom"))
    yield "open/recording-lookuperror", (open_recording, {}, "VOL", LookupError("boom"))
    yield "open/recording-indexerror", (open_recording, {}, "VOL", IndexError("boom"))
    yield "open/recording-oserror", (open_recording, {}, "VOL", OSError("boom"))
    yield "open/recording-filenotfound", (open_recording, {}, "VOL", FileNotFoundError("boom"))
    yield "open/recording-valueerror", (open_recording, {}, "VOL", ValueError("boom"))
    yield "open/recording-content-none", (open_recording, {"VOL": None}, "VOL")
    yield "open/recording-content-str", (open_recording, {"VOL": "text"}, "VOL")
    yield "open/recording-content-list", (open_recording, [good], 0)
    yield "open/plain-dict-mapper", (io.open_volume_directory, {"VOL": good}, "VOL")
    yield "open/plain-dict-mapper-missing", (io.open_volume_directory, {"VOL": good}, "NOPE")
    yield "open/mapper-none", (io.open_volume_directory, None, "VOL")
    yield "open/keywords", (lambda: io.open_volume_directory(path="VOL", mapper={"VOL": good}),)
    yield "open/no-args", (lambda: io.open_volume_directory(),)
    yield "open/one-arg", (lambda: io.open_volume_directory({}),)
    yield "parse_data/good", (io.parse_data, good)
    yield "parse_data/empty", (io.parse_data, b"")


# Recorded from the unchanged code (git HEAD) with `python equiv.py --record`.
EXPECTED = json.loads(r"""
{
 "record/empty": "OK Group(path=str:'/', url=NoneType:None, data=dict{}, attrs=dict{})",
 "record/parsed-0": "OK Group(path=str:'/', url=NoneType:None, data=dict{}, attrs=dict{str:'control_document_id': str:'CEOS-SAR', str:'control_document_revision_level': str:'A', str:'record_format_revision_level': str:'A', str:'software_version': str:'001.001', str:'physical_volume_id': str:'PHYS-0001', str:'logical_volume_id': str:'LOGI-0001', str:'volume_set_id': str:'VOLSET-01', str:'creation_datetime': str:'2020-10-11T17:23:37.980000', str:'creation_country': str:'JAPAN', str:'creation_agency': str:'JAXA', str:'creation_facility': str:'EICS', str:'product_id': str:'PRODUCT:WWDR1.5RUA', str:'product_creation': str:'PROCESS:JAPAN-JAXA-EICS  20201011 172337', str:'scene_id': str:'ORBIT:ALOS2123456789-201011', str:'scene_location_id': str:'SCENE-LOCATION'})",
 "record/parsed-1": "OK Group(path=str:'/', url=NoneType:None, data=dict{}, attrs=dict{str:'control_document_id': str:'CEOS-SAR', str:'control_document_revision_level': str:'A', str:'record_format_revision_level': str:'A', str:'software_version': str:'001.001', str:'physical_volume_id': str:'PHYS-0001', str:'logical_volume_id': str:'LOGI-0001', str:'volume_set_id': str:'VOLSET-01', str:'creation_datetime': str:'2020-10-11T17:23:37.980000', str:'creation_country': str:'JAPAN', str:'creation_agency': str:'JAXA', str:'creation_facility': str:'EICS', str:'product_id': str:'PRODUCT:WWDR1.5RUA', str:'product_creation': str:'PROCESS:JAPAN-JAXA-EICS  20201011 172337', str:'scene_id': str:'ORBIT:ALOS2123456789-201011', str:'scene_location_id': str:'SCENE-LOCATION'})",
 "record/parsed-3": "OK Group(path=str:'/', url=NoneType:None, data=dict{}, attrs=dict{str:'control_document_id': str:'CEOS-SAR', str:'control_document_revision_level': str:'A', str:'record_format_revision_level': str:'A', str:'software_version': str:'001.001', str:'physical_volume_id': str:'PHYS-0001', str:'logical_volume_id': str:'LOGI-0001', str:'volume_set_id': str:'VOLSET-01', str:'creation_datetime': str:'2020-10-11T17:23:37.980000', str:'creation_country': str:'JAPAN', str:'creation_agency': str:'JAXA', str:'creation_facility': str:'EICS', str:'product_id': str:'PRODUCT:WWDR1.5RUA', str:'product_creation': str:'PROCESS:JAPAN-JAXA-EICS  20201011 172337', str:'scene_id': str:'ORBIT:ALOS2123456789-201011', str:'scene_location_id': str:'SCENE-LOCATION'})",
 "record/only-file-descriptors": "OK Group(path=str:'/', url=NoneType:None, data=dict{}, attrs=dict{})",
 "record/file-descriptors-scalar": "OK Group(path=str:'/', url=NoneType:None, data=dict{}, attrs=dict{str:'x': int:2})",
 "record/ignored": "OK Group(path=str:'/', url=NoneType:None, data=dict{}, attrs=dict{str:'a': int:1, str:'d': int:4})",
 "record/transformers": "OK Group(path=str:'/', url=NoneType:None, data=dict{}, attrs=dict{str:'creation_country': str:'a', str:'product_creation': str:'b'})",
 "record/reversed-sections": "OK Group(path=str:'/', url=NoneType:None, data=dict{}, attrs=dict{str:'c': int:3, str:'d': int:4, str:'a': int:1, str:'b': int:2})",
 "record/only-text": "OK Group(path=str:'/', url=NoneType:None, data=dict{}, attrs=dict{str:'scene_id': str:'s'})",
 "record/only-descriptor": "OK Group(path=str:'/', url=NoneType:None, data=dict{}, attrs=dict{str:'volume_set_id': str:'s'})",
 "record/unknown-dict-section": "OK Group(path=str:'/', url=NoneType:None, data=dict{}, attrs=dict{str:'x': int:1, str:'blanks': int:2, str:'y': int:3})",
 "record/unknown-scalar-sections": "OK Group(path=str:'/', url=NoneType:None, data=dict{}, attrs=dict{str:'n': int:1, str:'s': str:'text', str:'l': list[int:1, dict{str:'a': int:2}], str:'t': tuple[dict{str:'a': int:1}], str:'none': NoneType:None})",
 "record/two-levels": "OK Group(path=str:'/', url=NoneType:None, data=dict{}, attrs=dict{str:'inner': dict{str:'leaf': int:1}, str:'k': int:2, str:'m': dict{str:'n': int:1}})",
 "record/collision-between-sections": "OK Group(path=str:'/', url=NoneType:None, data=dict{}, attrs=dict{str:'a': int:1, str:'x': str:'from text', str:'b': int:2, str:'c': int:3, str:'d': int:4})",
 "record/collision-scalar-then-section": "OK Group(path=str:'/', url=NoneType:None, data=dict{}, attrs=dict{str:'a': str:'nested', str:'z': int:0, str:'b': int:1})",
 "record/collision-section-then-scalar": "OK Group(path=str:'/', url=NoneType:None, data=dict{}, attrs=dict{str:'a': str:'scalar', str:'b': int:1, str:'z': int:0})",
 "record/collision-section-name": "OK Group(path=str:'/', url=NoneType:None, data=dict{}, attrs=dict{str:'volume_descriptor': str:'x', str:'q': int:1})",
 "record/collision-after-rename": "OK Group(path=str:'/', url=NoneType:None, data=dict{}, attrs=dict{str:'creation_agency': str:'c'})",
 "record/empty-sections": "OK Group(path=str:'/', url=NoneType:None, data=dict{}, attrs=dict{str:'k': int:1})",
 "record/ordered-dict-sections": "OK Group(path=str:'/', url=NoneType:None, data=dict{}, attrs=dict{str:'b': int:1, str:'a': int:3, str:'z': int:1, str:'y': int:2})",
 "record/dict-subclass-section": "OK Group(path=str:'/', url=NoneType:None, data=dict{}, attrs=dict{str:'p': int:1, str:'q': int:2, str:'r': int:3})",
 "record/datetime": "OK Group(path=str:'/', url=NoneType:None, data=dict{}, attrs=dict{str:'creation_datetime': str:'2020-10-11T17:23:37.980000'})",
 "record/datetime-in-text-untouched": "OK Group(path=str:'/', url=NoneType:None, data=dict{}, attrs=dict{str:'creation_datetime': str:'2020101117233798'})",
 "record/datetime-in-unknown-untouched": "OK Group(path=str:'/', url=NoneType:None, data=dict{}, attrs=dict{str:'creation_datetime': str:'2020101117233798'})",
 "record/bad-datetime": "EXC ValueError: time data 'x' does not match format '%Y%m%d%H%M%S%f' (cause: None)",
 "record/descriptor-none": "EXC AttributeError: 'NoneType' object has no attribute 'items' (cause: None)",
 "record/descriptor-list": "EXC AttributeError: 'list' object has no attribute 'items' (cause: None)",
 "record/text-none": "EXC AttributeError: 'NoneType' object has no attribute 'items' (cause: None)",
 "record/text-string": "EXC AttributeError: 'str' object has no attribute 'items' (cause: None)",
 "record/first-error-wins": "EXC AttributeError: 'int' object has no attribute 'items' (cause: None)",
 "record/first-error-wins-reversed": "EXC AttributeError: 'str' object has no attribute 'items' (cause: None)",
 "record/non-string-keys": "OK Group(path=str:'/', url=NoneType:None, data=dict{}, attrs=dict{str:'a': int:1, NoneType:None: int:2, str:'b': int:3, float:2.5: list[int:4]})",
 "record/non-string-nested-keys": "OK Group(path=str:'/', url=NoneType:None, data=dict{}, attrs=dict{int:1: str:'a', NoneType:None: str:'b', tuple[int:1]: int:2})",
 "record/mapping-proxy": "OK Group(path=str:'/', url=NoneType:None, data=dict{}, attrs=dict{str:'a': int:1})",
 "record/mapping-proxy-section": "OK Group(path=str:'/', url=NoneType:None, data=dict{}, attrs=dict{str:'extra': mappingproxy:mappingproxy({'a': 1}), str:'k': int:2})",
 "record/none": "EXC AttributeError: 'NoneType' object has no attribute 'items' (cause: None)",
 "record/list": "EXC AttributeError: 'list' object has no attribute 'items' (cause: None)",
 "record/string": "EXC AttributeError: 'str' object has no attribute 'items' (cause: None)",
 "record/int": "EXC AttributeError: 'int' object has no attribute 'items' (cause: None)",
 "record/keyword": "OK Group(path=str:'/', url=NoneType:None, data=dict{}, attrs=dict{str:'a': int:1})",
 "record/no-args": "EXC TypeError: transform_record() missing 1 required positional argument: 'mapping' (cause: None)",
 "record/two-args": "EXC TypeError: transform_record() takes 1 positional argument but 2 were given (cause: None)",
 "open/memory-0-files": "OK Group(path=str:'/', url=NoneType:None, data=dict{}, attrs=dict{str:'control_document_id': str:'CEOS-SAR', str:'control_document_revision_level': str:'A', str:'record_format_revision_level': str:'A', str:'software_version': str:'001.001', str:'physical_volume_id': str:'PHYS-0001', str:'logical_volume_id': str:'LOGI-0001', str:'volume_set_id': str:'VOLSET-01', str:'creation_datetime': str:'2020-10-11T17:23:37.980000', str:'creation_country': str:'JAPAN', str:'creation_agency': str:'JAXA', str:'creation_facility': str:'EICS', str:'product_id': str:'PRODUCT:WWDR1.5RUA', str:'product_creation': str:'PROCESS:JAPAN-JAXA-EICS  20201011 172337', str:'scene_id': str:'ORBIT:ALOS2123456789-201011', str:'scene_location_id': str:'SCENE-LOCATION'})",
 "open/memory-2-files": "OK Group(path=str:'/', url=NoneType:None, data=dict{}, attrs=dict{str:'control_document_id': str:'CEOS-SAR', str:'control_document_revision_level': str:'A', str:'record_format_revision_level': str:'A', str:'software_version': str:'001.001', str:'physical_volume_id': str:'PHYS-0001', str:'logical_volume_id': str:'LOGI-0001', str:'volume_set_id': str:'VOLSET-01', str:'creation_datetime': str:'2020-10-11T17:23:37.980000', str:'creation_country': str:'JAPAN', str:'creation_agency': str:'JAXA', str:'creation_facility': str:'EICS', str:'product_id': str:'PRODUCT:WWDR1.5RUA', str:'product_creation': str:'PROCESS:JAPAN-JAXA-EICS  20201011 172337', str:'scene_id': str:'ORBIT:ALOS2123456789-201011', str:'scene_location_id': str:'SCENE-LOCATION'})",
 "open/memory-bytearray": "OK Group(path=str:'/', url=NoneType:None, data=dict{}, attrs=dict{str:'control_document_id': str:'CEOS-SAR', str:'control_document_revision_level': str:'A', str:'record_format_revision_level': str:'A', str:'software_version': str:'001.001', str:'physical_volume_id': str:'PHYS-0001', str:'logical_volume_id': str:'LOGI-0001', str:'volume_set_id': str:'VOLSET-01', str:'creation_datetime': str:'2020-10-11T17:23:37.980000', str:'creation_country': str:'JAPAN', str:'creation_agency': str:'JAXA', str:'creation_facility': str:'EICS', str:'product_id': str:'PRODUCT:WWDR1.5RUA', str:'product_creation': str:'PROCESS:JAPAN-JAXA-EICS  20201011 172337', str:'scene_id': str:'ORBIT:ALOS2123456789-201011', str:'scene_location_id': str:'SCENE-LOCATION'})",
 "open/memory-blank-datetime": "EXC ValueError: time data '' does not match format '%Y%m%d%H%M%S%f' (cause: None)",
 "open/memory-missing-file": "EXC FileNotFoundError: Cannot open VOL-TEST (cause: KeyError)",
 "open/memory-other-name": "EXC FileNotFoundError: Cannot open VOL-OTHER (cause: KeyError)",
 "open/memory-empty-file": "EXC StreamError: Error in path (parsing) -> volume_descriptor -> preamble -> record_sequence_number\nstream read less than specified amount, expected 4, found 0 (cause: None)",
 "open/memory-truncated": "EXC StreamError: Error in path (parsing) -> file_descriptors -> local_use_segment\nstream read less than specified amount, expected 100, found 80 (cause: None)",
 "open/memory-trailing-garbage": "OK Group(path=str:'/', url=NoneType:None, data=dict{}, attrs=dict{str:'control_document_id': str:'CEOS-SAR', str:'control_document_revision_level': str:'A', str:'record_format_revision_level': str:'A', str:'software_version': str:'001.001', str:'physical_volume_id': str:'PHYS-0001', str:'logical_volume_id': str:'LOGI-0001', str:'volume_set_id': str:'VOLSET-01', str:'creation_datetime': str:'2020-10-11T17:23:37.980000', str:'creation_country': str:'JAPAN', str:'creation_agency': str:'JAXA', str:'creation_facility': str:'EICS', str:'product_id': str:'PRODUCT:WWDR1.5RUA', str:'product_creation': str:'PROCESS:JAPAN-JAXA-EICS  20201011 172337', str:'scene_id': str:'ORBIT:ALOS2123456789-201011', str:'scene_location_id': str:'SCENE-LOCATION'})",
 "open/memory-non-ascii": "EXC StringError: cannot use encoding 'ascii' to decode b'CEOS\\xffSAR    ' (cause: None)",
 "open/memory-count-too-large": "EXC ValueError: invalid literal for int() with base 10: 'PROD' (cause: None)",
 "open/memory-count-not-a-number": "EXC ValueError: invalid literal for int() with base 10: 'abcd' (cause: None)",
 "open/recording-dict": "OK tuple[Group(path=str:'/', url=NoneType:None, data=dict{}, attrs=dict{str:'control_document_id': str:'CEOS-SAR', str:'control_document_revision_level': str:'A', str:'record_format_revision_level': str:'A', str:'software_version': str:'001.001', str:'physical_volume_id': str:'PHYS-0001', str:'logical_volume_id': str:'LOGI-0001', str:'volume_set_id': str:'VOLSET-01', str:'creation_datetime': str:'2020-10-11T17:23:37.980000', str:'creation_country': str:'JAPAN', str:'creation_agency': str:'JAXA', str:'creation_facility': str:'EICS', str:'product_id': str:'PRODUCT:WWDR1.5RUA', str:'product_creation': str:'PROCESS:JAPAN-JAXA-EICS  20201011 172337', str:'scene_id': str:'ORBIT:ALOS2123456789-201011', str:'scene_location_id': str:'SCENE-LOCATION'}), list[tuple[str:'getitem', str:'VOL']]]",
 "open/recording-int-path": "OK tuple[Group(path=str:'/', url=NoneType:None, data=dict{}, attrs=dict{str:'control_document_id': str:'CEOS-SAR', str:'control_document_revision_level': str:'A', str:'record_format_revision_level': str:'A', str:'software_version': str:'001.001', str:'physical_volume_id': str:'PHYS-0001', str:'logical_volume_id': str:'LOGI-0001', str:'volume_set_id': str:'VOLSET-01', str:'creation_datetime': str:'2020-10-11T17:23:37.980000', str:'creation_country': str:'JAPAN', str:'creation_agency': str:'JAXA', str:'creation_facility': str:'EICS', str:'product_id': str:'PRODUCT:WWDR1.5RUA', str:'product_creation': str:'PROCESS:JAPAN-JAXA-EICS  20201011 172337', str:'scene_id': str:'ORBIT:ALOS2123456789-201011', str:'scene_location_id': str:'SCENE-LOCATION'}), list[tuple[str:'getitem', int:7]]]",
 "open/recording-tuple-path": "OK tuple[Group(path=str:'/', url=NoneType:None, data=dict{}, attrs=dict{str:'control_document_id': str:'CEOS-SAR', str:'control_document_revision_level': str:'A', str:'record_format_revision_level': str:'A', str:'software_version': str:'001.001', str:'physical_volume_id': str:'PHYS-0001', str:'logical_volume_id': str:'LOGI-0001', str:'volume_set_id': str:'VOLSET-01', str:'creation_datetime': str:'2020-10-11T17:23:37.980000', str:'creation_country': str:'JAPAN', str:'creation_agency': str:'JAXA', str:'creation_facility': str:'EICS', str:'product_id': str:'PRODUCT:WWDR1.5RUA', str:'product_creation': str:'PROCESS:JAPAN-JAXA-EICS  20201011 172337', str:'scene_id': str:'ORBIT:ALOS2123456789-201011', str:'scene_location_id': str:'SCENE-LOCATION'}), list[tuple[str:'getitem', tuple[str:'a', int:1]]]]",
 "open/recording-missing": "OK tuple[str:'raised', str:'FileNotFoundError', str:'Cannot open vol', str:'KeyError', list[tuple[str:'getitem', str:'vol']]]",
 "open/recording-missing-empty-path": "OK tuple[str:'raised', str:'FileNotFoundError', str:'Cannot open ', str:'KeyError', list[tuple[str:'getitem', str:'']]]",
 "open/recording-missing-none-path": "OK tuple[str:'raised', str:'FileNotFoundError', str:'Cannot open None', str:'KeyError', list[tuple[str:'getitem', NoneType:None]]]",
 "open/recording-unhashable-path": "OK tuple[str:'raised', str:'TypeError', str:\"unhashable type: 'list'\", NoneType:None, list[tuple[str:'getitem', list[str:'VOL']]]]",
 "open/recording-keyerror-subclass": "OK tuple[str:'raised', str:'FileNotFoundError', str:'Cannot open VOL', str:'MyKeyError', list[tuple[str:'getitem', str:'VOL']]]",
 "open/recording-lookuperror": "OK tuple[str:'raised', str:'LookupError', str:'boom', NoneType:None, list[tuple[str:'getitem', str:'VOL']]]",
 "open/recording-indexerror": "OK tuple[str:'raised', str:'IndexError', str:'boom', NoneType:None, list[tuple[str:'getitem', str:'VOL']]]",
 "open/recording-oserror": "OK tuple[str:'raised', str:'OSError', str:'boom', NoneType:None, list[tuple[str:'getitem', str:'VOL']]]",
 "open/recording-filenotfound": "OK tuple[str:'raised', str:'FileNotFoundError', str:'boom', NoneType:None, list[tuple[str:'getitem', str:'VOL']]]",
 "open/recording-valueerror": "OK tuple[str:'raised', str:'ValueError', str:'boom', NoneType:None, list[tuple[str:'getitem', str:'VOL']]]",
 "open/recording-content-none": "OK tuple[str:'raised', str:'StreamError', str:'Error in path (parsing) -> volume_descriptor -> preamble -> record_sequence_number\\nstream read less than specified amount, expected 4, found 0', NoneType:None, list[tuple[str:'getitem', str:'VOL']]]",
 "open/recording-content-str": "OK tuple[str:'raised', str:'TypeError', str:\"a bytes-like object is required, not 'str'\", NoneType:None, list[tuple[str:'getitem', str:'VOL']]]",
 "open/recording-content-list": "OK tuple[Group(path=str:'/', url=NoneType:None, data=dict{}, attrs=dict{str:'control_document_id': str:'CEOS-SAR', str:'control_document_revision_level': str:'A', str:'record_format_revision_level': str:'A', str:'software_version': str:'001.001', str:'physical_volume_id': str:'PHYS-0001', str:'logical_volume_id': str:'LOGI-0001', str:'volume_set_id': str:'VOLSET-01', str:'creation_datetime': str:'2020-10-11T17:23:37.980000', str:'creation_country': str:'JAPAN', str:'creation_agency': str:'JAXA', str:'creation_facility': str:'EICS', str:'product_id': str:'PRODUCT:WWDR1.5RUA', str:'product_creation': str:'PROCESS:JAPAN-JAXA-EICS  20201011 172337', str:'scene_id': str:'ORBIT:ALOS2123456789-201011', str:'scene_location_id': str:'SCENE-LOCATION'}), list[tuple[str:'getitem', int:0]]]",
 "open/plain-dict-mapper": "OK Group(path=str:'/', url=NoneType:None, data=dict{}, attrs=dict{str:'control_document_id': str:'CEOS-SAR', str:'control_document_revision_level': str:'A', str:'record_format_revision_level': str:'A', str:'software_version': str:'001.001', str:'physical_volume_id': str:'PHYS-0001', str:'logical_volume_id': str:'LOGI-0001', str:'volume_set_id': str:'VOLSET-01', str:'creation_datetime': str:'2020-10-11T17:23:37.980000', str:'creation_country': str:'JAPAN', str:'creation_agency': str:'JAXA', str:'creation_facility': str:'EICS', str:'product_id': str:'PRODUCT:WWDR1.5RUA', str:'product_creation': str:'PROCESS:JAPAN-JAXA-EICS  20201011 172337', str:'scene_id': str:'ORBIT:ALOS2123456789-201011', str:'scene_location_id': str:'SCENE-LOCATION'})",
 "open/plain-dict-mapper-missing": "EXC FileNotFoundError: Cannot open NOPE (cause: KeyError)",
 "open/mapper-none": "EXC TypeError: 'NoneType' object is not subscriptable (cause: None)",
 "open/keywords": "OK Group(path=str:'/', url=NoneType:None, data=dict{}, attrs=dict{str:'control_document_id': str:'CEOS-SAR', str:'control_document_revision_level': str:'A', str:'record_format_revision_level': str:'A', str:'software_version': str:'001.001', str:'physical_volume_id': str:'PHYS-0001', str:'logical_volume_id': str:'LOGI-0001', str:'volume_set_id': str:'VOLSET-01', str:'creation_datetime': str:'2020-10-11T17:23:37.980000', str:'creation_country': str:'JAPAN', str:'creation_agency': str:'JAXA', str:'creation_facility': str:'EICS', str:'product_id': str:'PRODUCT:WWDR1.5RUA', str:'product_creation': str:'PROCESS:JAPAN-JAXA-EICS  20201011 172337', str:'scene_id': str:'ORBIT:ALOS2123456789-201011', str:'scene_location_id': str:'SCENE-LOCATION'})",
 "open/no-args": "EXC TypeError: open_volume_directory() missing 2 required positional arguments: 'mapper' and 'path' (cause: None)",
 "open/one-arg": "EXC TypeError: open_volume_directory() missing 1 required positional argument: 'path' (cause: None)",
 "parse_data/good": "OK dict{str:'volume_descriptor': dict{str:'preamble': dict{str:'record_sequence_number': int:1, str:'first_record_subtype': int:192, str:'record_type': int:192, str:'second_record_subtype': int:18, str:'third_record_subtype': int:18, str:'record_length': int:360}, str:'ascii_ebcdic_flag': str:'A', str:'blanks': str:'', str:'superstructure_format_control_document_id': str:'CEOS-SAR', str:'superstructure_format_control_document_revision_level': str:'A', str:'superstructure_record_format_revision_level': str:'A', str:'software_release_and_revision_level': str:'001.001', str:'physical_volume_id': str:'PHYS-0001', str:'logical_volume_id': str:'LOGI-0001', str:'volume_set_id': str:'VOLSET-01', str:'total_number_of_physical_volumes_in_logical_volume': int:1, str:'physical_volume_sequence_number_of_the_first_tape': int:1, str:'physical_volume_sequence_number_of_the_last_tape': int:1, str:'physical_volume_sequence_number_of_the_current_tape': int:1, str:'file_number_in_the_logical_volume': int:2, str:'logical_volume_within_a_volume_set': int:3, str:'logical_volume_number_within_physical_volume': int:4, str:'logical_volume_creation_datetime': str:'2020101117233798', str:'logical_volume_generation_country': str:'JAPAN', str:'logical_volume_generating_agency': str:'JAXA', str:'logical_volume_generating_facility': str:'EICS', str:'number_of_file_pointer_records': int:2, str:'number_of_text_records_in_volume_directory': int:1, str:'spare': str:'', str:'local_use_segment': str:'local'}, str:'file_descriptors': list[dict{str:'preamble': dict{str:'record_sequence_number': int:2, str:'first_record_subtype': int:192, str:'record_type': int:192, str:'second_record_subtype': int:18, str:'third_record_subtype': int:18, str:'record_length': int:360}, str:'ascii_ebcdic_flag': str:'A', str:'blanks': str:'', str:'referenced_file_number': int:1, str:'referenced_file_name_id': str:'FILE-1', str:'referenced_file_class': str:'SARLEADER FILE', str:'referenced_file_class_code': str:'SARL', str:'referenced_file_data_type': str:'MIXED BINARY AND ASCII', str:'referenced_file_data_type_code': str:'MBAA', str:'number_of_records_in_referenced_file': int:11, str:'length_of_the_first_record_in_referenced_file': int:720, str:'maximum_record_length_in_referenced_file': int:9000, str:'referenced_file_record_length_type': str:'VARIABLE LEN', str:'referenced_file_record_length_type_code': str:'VARE', str:'number_of_the_physical_volume_set_containing_the_first_record_of_the_file': int:1, str:'number_of_the_physical_volume_set_containing_the_last_record_of_the_file': int:1, str:'record_number_of_the_first_record_appearing_on_this_physical_volume': int:1, str:'record_number_of_the_last_record_appearing_on_this_physical_volume': int:11, str:'spare': str:'', str:'local_use_segment': str:''}, dict{str:'preamble': dict{str:'record_sequence_number': int:3, str:'first_record_subtype': int:192, str:'record_type': int:192, str:'second_record_subtype': int:18, str:'third_record_subtype': int:18, str:'record_length': int:360}, str:'ascii_ebcdic_flag': str:'A', str:'blanks': str:'', str:'referenced_file_number': int:2, str:'referenced_file_name_id': str:'FILE-2', str:'referenced_file_class': str:'SARLEADER FILE', str:'referenced_file_class_code': str:'SARL', str:'referenced_file_data_type': str:'MIXED BINARY AND ASCII', str:'referenced_file_data_type_code': str:'MBAA', str:'number_of_records_in_referenced_file': int:12, str:'length_of_the_first_record_in_referenced_file': int:720, str:'maximum_record_length_in_referenced_file': int:9000, str:'referenced_file_record_length_type': str:'VARIABLE LEN', str:'referenced_file_record_length_type_code': str:'VARE', str:'number_of_the_physical_volume_set_containing_the_first_record_of_the_file': int:1, str:'number_of_the_physical_volume_set_containing_the_last_record_of_the_file': int:1, str:'record_number_of_the_first_record_appearing_on_this_physical_volume': int:1, str:'record_number_of_the_last_record_appearing_on_this_physical_volume': int:12, str:'spare': str:'', str:'local_use_segment': str:''}], str:'text_record': dict{str:'preamble': dict{str:'record_sequence_number': int:4, str:'first_record_subtype': int:192, str:'record_type': int:192, str:'second_record_subtype': int:18, str:'third_record_subtype': int:18, str:'record_length': int:360}, str:'ascii_ebcdic_flag': str:'A', str:'blanks': str:'', str:'product_id': str:'PRODUCT:WWDR1.5RUA', str:'location_and_datetime_of_product_creation': str:'PROCESS:JAPAN-JAXA-EICS  20201011 172337', str:'physical_tape_id': str:'TAPE-ID', str:'scene_id': str:'ORBIT:ALOS2123456789-201011', str:'scene_location_id': str:'SCENE-LOCATION'}}",
 "parse_data/empty": "EXC StreamError: Error in path (parsing) -> volume_descriptor -> preamble -> record_sequence_number\nstream read less than specified amount, expected 4, found 0 (cause: None)"
}
""")


def compute():
    return {name: outcome(*call) for name, call in cases()}


def test_same_case_ids():
    assert list(compute()) == list(EXPECTED)


def test_outcomes_match_recording():
    actual = compute()
    mismatches = {k: (actual[k], EXPECTED.get(k)) for k in actual if actual[k] != EXPECTED.get(k)}
    assert not mismatches, mismatches


def test_attrs_is_a_fresh_dict():
    section = {"a": 1}
    mapping = {"extra": section, "text_record": {"b": 2}}
    group = metadata.transform_record(mapping)
    assert type(group.attrs) is dict
    assert group.attrs is not section
    group.attrs["injected"] = 1
    assert section == {"a": 1}
    assert metadata.transform_record(mapping).attrs == {"a": 1, "b": 2}


def test_public_names_still_there():
    import ceos_alos2.volume_directory as package

    assert package.open_volume_directory is io.open_volume_directory
    for name in ("parse_data", "open_volume_directory", "transform_record", "to_dict"):
        assert callable(getattr(io, name))
    for name in ("transform_record", "transform_text", "transform_volume_descriptor"):
        assert callable(getattr(metadata, name))


if __name__ == "__main__":
    if "--record" in sys.argv:
        print(json.dumps(compute(), indent=1, ensure_ascii=True))
        sys.exit(0)

    test_same_case_ids()
    test_outcomes_match_recording()
    test_attrs_is_a_fresh_dict()
    test_public_names_still_there()
    print(f"equiv 2: {len(EXPECTED)} recorded outcomes reproduced")
