"""Equivalence check for refactoring 1 (caching/encoders.py: encode_array and friends).

Run as ``PYTHONPATH=<worktree> python equiv.py``; ``--record`` prints the observed
results instead of comparing them (this is how EXPECTED was produced from the
unchanged code).
"""

import pprint
import sys
import warnings

import numpy as np

import ceos_alos2.sar_image.caching as caching
from ceos_alos2.array import Array
from ceos_alos2.hierarchy import Group, Variable
from ceos_alos2.sar_image.caching import encoders


def canon(obj):
    """repr keeps the difference between int / float, list / tuple, python / numpy scalars"""
    return repr(obj)


def observe(func, *args, **kwargs):
    try:
        result = func(*args, **kwargs)
    except BaseException as e:  # noqa: B902
        cause = type(e.__cause__).__name__ if e.__cause__ is not None else None
        return ("raised", type(e).__name__, str(e), cause)
    return ("returned", canon(result))


class DummyFS:
    def __init__(self, path):
        self.path = path

    def __eq__(self, other):
        return isinstance(other, DummyFS) and self.path == other.path

    def __hash__(self):
        return hash(self.path)

    def __repr__(self):
        return f"DummyFS({self.path!r})"


class NoPathFS:
    pass


def make_array(**overrides):
    kwargs = {
        "fs": DummyFS("s3://bucket/scene"),
        "url": "IMG-HH-ALOS2-SCENE",
        "byte_ranges": [(0, 10), (10, 20), (25, 35)],
        "shape": (3, 5),
        "dtype": "uint16",
        "type_code": "IU2",
        "records_per_chunk": 2,
    }
    kwargs.update(overrides)
    return Array(**kwargs)


class ArraySubclass(Array):
    pass


def dt(values, unit):
    return np.array(values, dtype=f"datetime64[{unit}]")


def td(values, unit):
    return np.array(values, dtype=f"timedelta64[{unit}]")


ARRAY_INPUTS = {
    "backend": lambda: make_array(),
    "backend-npdtype": lambda: make_array(dtype=np.dtype("complex64"), type_code="C*8"),
    "backend-structured-dtype": lambda: make_array(dtype=np.dtype([("a", ">f4"), ("b", ">i2")])),
    "backend-empty": lambda: make_array(byte_ranges=[], shape=(0, 0), records_per_chunk=None),
    "backend-subclass": lambda: ArraySubclass(
        fs=DummyFS("/data"), url="u", byte_ranges=[(1, 2)], shape=(1, 1), dtype="int8", type_code="x"
    ),
    "backend-no-path": lambda: make_array(fs=NoPathFS()),
    "backend-fs-none": lambda: make_array(fs=None),
    "int-list": lambda: [1, 2, 3],
    "int-nested": lambda: [[1, 2], [3, 4]],
    "ragged": lambda: [[1, 2], [3]],
    "empty-list": lambda: [],
    "scalar-int": lambda: 5,
    "scalar-float": lambda: 2.5,
    "scalar-none": lambda: None,
    "scalar-str": lambda: "abc",
    "scalar-bytes": lambda: b"abc",
    "tuple": lambda: (1.5, 2),
    "int8": lambda: np.array([1, -2, 3], dtype="int8"),
    "uint64": lambda: np.array([2**63, 1], dtype="uint64"),
    "float32": lambda: np.array([1.5, np.nan, np.inf], dtype="float32"),
    "float64-2d": lambda: np.arange(6, dtype="float64").reshape(2, 3),
    "float-0d": lambda: np.array(1.25),
    "big-endian": lambda: np.array([1, 2], dtype=">u2"),
    "complex": lambda: np.array([1 + 2j, 3 - 1j], dtype="complex64"),
    "bool": lambda: np.array([True, False]),
    "str": lambda: np.array(["a", "bcd"]),
    "bytes": lambda: np.array([b"a", b"bcd"]),
    "object": lambda: np.array([1, "a", None], dtype=object),
    "structured": lambda: np.array([(1, 2.0)], dtype=[("a", "i4"), ("b", "f8")]),
    "void": lambda: np.array([b"ab"], dtype="V2"),
    "np-scalar": lambda: np.float32(3.5),
    "np-datetime-scalar": lambda: np.datetime64("2020-01-01", "s"),
    "np-timedelta-scalar": lambda: np.timedelta64(5, "ms"),
    "td-s": lambda: td([1, 2, -3], "s"),
    "td-ns": lambda: td([10**15, 0], "ns"),
    "td-10s": lambda: td([1, 2], "10s"),
    "td-generic": lambda: np.array([1, 2], dtype="timedelta64"),
    "td-nat": lambda: np.array([1, "NaT"], dtype="timedelta64[us]"),
    "td-empty": lambda: td([], "D"),
    "td-2d": lambda: td([[1, 2], [3, 4]], "h"),
    "td-0d": lambda: np.array(np.timedelta64(7, "m")),
    "dt-s": lambda: dt(["2020-01-01T00:00:00", "2020-01-01T00:00:10", "2019-12-31T23:59:59"], "s"),
    "dt-ns": lambda: dt(["2020-01-01T00:00:00.000000001", "2020-01-01"], "ns"),
    "dt-us": lambda: dt(["2015-03-02T12:00:00.25", "2015-03-02T12:00:01"], "us"),
    "dt-25us": lambda: dt(["2015-03-02T12:00:00.000025", "2015-03-02T12:00:00.0001"], "25us"),
    "dt-10s": lambda: dt(["2015-03-02T12:00:10", "2015-03-02T12:01:00"], "10s"),
    "dt-D": lambda: dt(["2020-02-28", "2020-03-01"], "D"),
    "dt-Y": lambda: dt(["1999", "2024"], "Y"),
    "dt-generic": lambda: np.array(["NaT"], dtype="datetime64"),
    "dt-nat-first": lambda: np.array(["NaT", "2020-01-01"], dtype="datetime64[s]"),
    "dt-nat-later": lambda: np.array(["2020-01-01", "NaT"], dtype="datetime64[s]"),
    "dt-single": lambda: dt(["2020-01-01"], "ms"),
    "dt-empty": lambda: dt([], "s"),
    "dt-0d": lambda: np.array(np.datetime64("2020-01-01", "s")),
    "dt-2d": lambda: dt([["2020-01-01", "2020-01-02"], ["2020-01-03", "2020-01-05"]], "D"),
    "dt-list": lambda: [np.datetime64("2020-01-01", "s"), np.datetime64("2020-01-02", "s")],
    "dt-mixed-units-list": lambda: [np.datetime64("2020-01-01", "D"), np.datetime64("2020-01-02T01", "h")],
    "td-list": lambda: [np.timedelta64(1, "s"), np.timedelta64(1, "m")],
}


def build_group():
    return Group(
        path=None,
        url="s3://bucket/scene",
        data={
            "time": Variable("rows", dt(["2020-01-01", "2020-01-02"], "s"), {"a": 1}),
            "delta": Variable(["rows"], td([1, 2], "ms"), {}),
            "data": Variable(["rows", "cols"], make_array(), {"units": "1", "shape": (3, 5)}),
            "sub": Group(
                path="ignored",
                url=None,
                data={"x": Variable("x", np.array([1.5, 2.5]), {"t": (1, (2, 3))})},
                attrs={"n": [1, (2,)]},
            ),
        },
        attrs={"tuple": (1, 2), "nested": {"k": (3,)}},
    )


def collect():
    warnings.simplefilter("ignore")
    results = {}
    for name, make in ARRAY_INPUTS.items():
        results[f"encode_array/{name}"] = observe(encoders.encode_array, make())

    for name, make in ARRAY_INPUTS.items():
        if name.startswith("dt-") or name.startswith("td-"):
            value = np.asarray(make())
            results[f"encode_datetime/{name}"] = observe(encoders.encode_datetime, value)
            results[f"encode_timedelta/{name}"] = observe(encoders.encode_timedelta, value)
    results["encode_datetime/int"] = observe(encoders.encode_datetime, np.array([1, 2]))
    results["encode_timedelta/int"] = observe(encoders.encode_timedelta, np.array([1, 2]))
    results["encode_datetime/list"] = observe(encoders.encode_datetime, [1, 2])

    results["encode_variable/time"] = observe(
        encoders.encode_variable, Variable("t", dt(["2020-01-01", "2020-01-03"], "h"), {"a": (1,)})
    )
    results["encode_variable/backend"] = observe(
        encoders.encode_variable, Variable(["r", "c"], make_array(), {})
    )
    results["encode_group"] = observe(encoders.encode_group, build_group())
    results["encode_hierarchy/group"] = observe(encoders.encode_hierarchy, build_group())
    results["encode_hierarchy/other"] = observe(encoders.encode_hierarchy, {"a": 1})
    results["preprocess"] = observe(
        encoders.preprocess, encoders.encode_hierarchy(build_group())
    )
    results["caching.encode/group"] = observe(caching.encode, build_group())
    results["caching.encode/variable"] = observe(
        caching.encode, Variable("t", dt(["2020-01-01", "2020-01-03"], "25us"), {})
    )

    # the input must not be modified
    values = dt(["2020-01-01", "2020-01-03"], "s")
    copy = values.copy()
    encoders.encode_array(values)
    results["input-untouched"] = bool(np.array_equal(values, copy))

    # the helpers are looked up when called
    original = encoders.encode_datetime
    encoders.encode_datetime = lambda obj: (["patched"], {"patched": True})
    try:
        results["late-binding/datetime"] = observe(encoders.encode_array, dt(["2020-01-01"], "s"))
    finally:
        encoders.encode_datetime = original
    original = encoders.encode_timedelta
    encoders.encode_timedelta = lambda obj: (["patched"], {"patched": True})
    try:
        results["late-binding/timedelta"] = observe(encoders.encode_array, td([1], "s"))
    finally:
        encoders.encode_timedelta = original

    # public names
    results["public"] = sorted(
        name
        for name in ["encode_timedelta", "encode_datetime", "encode_array", "encode_variable",
                     "encode_group", "encode_hierarchy", "preprocess", "Array", "Group",
                     "Variable", "np", "valmap"]
        if hasattr(encoders, name)
    )
    return results


# recorded with the unchanged code (HEAD) using --record
EXPECTED = {'encode_array/backend': ('returned',
                          "{'__type__': 'backend_array', 'root': 's3://bucket/scene', 'url': "
                          "'IMG-HH-ALOS2-SCENE', 'shape': (3, 5), 'dtype': 'uint16', "
                          "'byte_ranges': [(0, 10), (10, 20), (25, 35)], 'type_code': 'IU2'}"),
 'encode_array/backend-npdtype': ('returned',
                                  "{'__type__': 'backend_array', 'root': 's3://bucket/scene', "
                                  "'url': 'IMG-HH-ALOS2-SCENE', 'shape': (3, 5), 'dtype': "
                                  "'complex64', 'byte_ranges': [(0, 10), (10, 20), (25, 35)], "
                                  "'type_code': 'C*8'}"),
 'encode_array/backend-structured-dtype': ('returned',
                                           "{'__type__': 'backend_array', 'root': "
                                           "'s3://bucket/scene', 'url': 'IMG-HH-ALOS2-SCENE', "
                                           '\'shape\': (3, 5), \'dtype\': "[(\'a\', \'>f4\'), '
                                           '(\'b\', \'>i2\')]", \'byte_ranges\': [(0, 10), (10, '
                                           "20), (25, 35)], 'type_code': 'IU2'}"),
 'encode_array/backend-empty': ('returned',
                                "{'__type__': 'backend_array', 'root': 's3://bucket/scene', 'url': "
                                "'IMG-HH-ALOS2-SCENE', 'shape': (0, 0), 'dtype': 'uint16', "
                                "'byte_ranges': [], 'type_code': 'IU2'}"),
 'encode_array/backend-subclass': ('returned',
                                   "{'__type__': 'backend_array', 'root': '/data', 'url': 'u', "
                                   "'shape': (1, 1), 'dtype': 'int8', 'byte_ranges': [(1, 2)], "
                                   "'type_code': 'x'}"),
 'encode_array/backend-no-path': ('raised',
                                  'AttributeError',
                                  "'NoPathFS' object has no attribute 'path'",
                                  None),
 'encode_array/backend-fs-none': ('raised',
                                  'AttributeError',
                                  "'NoneType' object has no attribute 'path'",
                                  None),
 'encode_array/int-list': ('returned',
                           "{'__type__': 'array', 'dtype': 'int64', 'data': [1, 2, 3], 'encoding': "
                           '{}}'),
 'encode_array/int-nested': ('returned',
                             "{'__type__': 'array', 'dtype': 'int64', 'data': [[1, 2], [3, 4]], "
                             "'encoding': {}}"),
 'encode_array/ragged': ('raised',
                         'ValueError',
                         'setting an array element with a sequence. The requested array has an '
                         'inhomogeneous shape after 1 dimensions. The detected shape was (2,) + '
                         'inhomogeneous part.',
                         None),
 'encode_array/empty-list': ('returned',
                             "{'__type__': 'array', 'dtype': 'float64', 'data': [], 'encoding': "
                             '{}}'),
 'encode_array/scalar-int': ('returned',
                             "{'__type__': 'array', 'dtype': 'int64', 'data': 5, 'encoding': {}}"),
 'encode_array/scalar-float': ('returned',
                               "{'__type__': 'array', 'dtype': 'float64', 'data': 2.5, 'encoding': "
                               '{}}'),
 'encode_array/scalar-none': ('returned',
                              "{'__type__': 'array', 'dtype': 'object', 'data': None, 'encoding': "
                              '{}}'),
 'encode_array/scalar-str': ('returned',
                             "{'__type__': 'array', 'dtype': '<U3', 'data': 'abc', 'encoding': "
                             '{}}'),
 'encode_array/scalar-bytes': ('returned',
                               "{'__type__': 'array', 'dtype': '|S3', 'data': b'abc', 'encoding': "
                               '{}}'),
 'encode_array/tuple': ('returned',
                        "{'__type__': 'array', 'dtype': 'float64', 'data': [1.5, 2.0], 'encoding': "
                        '{}}'),
 'encode_array/int8': ('returned',
                       "{'__type__': 'array', 'dtype': 'int8', 'data': [1, -2, 3], 'encoding': "
                       '{}}'),
 'encode_array/uint64': ('returned',
                         "{'__type__': 'array', 'dtype': 'uint64', 'data': [9223372036854775808, "
                         "1], 'encoding': {}}"),
 'encode_array/float32': ('returned',
                          "{'__type__': 'array', 'dtype': 'float32', 'data': [1.5, nan, inf], "
                          "'encoding': {}}"),
 'encode_array/float64-2d': ('returned',
                             "{'__type__': 'array', 'dtype': 'float64', 'data': [[0.0, 1.0, 2.0], "
                             "[3.0, 4.0, 5.0]], 'encoding': {}}"),
 'encode_array/float-0d': ('returned',
                           "{'__type__': 'array', 'dtype': 'float64', 'data': 1.25, 'encoding': "
                           '{}}'),
 'encode_array/big-endian': ('returned',
                             "{'__type__': 'array', 'dtype': '>u2', 'data': [1, 2], 'encoding': "
                             '{}}'),
 'encode_array/complex': ('returned',
                          "{'__type__': 'array', 'dtype': 'complex64', 'data': [(1+2j), (3-1j)], "
                          "'encoding': {}}"),
 'encode_array/bool': ('returned',
                       "{'__type__': 'array', 'dtype': 'bool', 'data': [True, False], 'encoding': "
                       '{}}'),
 'encode_array/str': ('returned',
                      "{'__type__': 'array', 'dtype': '<U3', 'data': ['a', 'bcd'], 'encoding': "
                      '{}}'),
 'encode_array/bytes': ('returned',
                        "{'__type__': 'array', 'dtype': '|S3', 'data': [b'a', b'bcd'], 'encoding': "
                        '{}}'),
 'encode_array/object': ('returned',
                         "{'__type__': 'array', 'dtype': 'object', 'data': [1, 'a', None], "
                         "'encoding': {}}"),
 'encode_array/structured': ('returned',
                             '{\'__type__\': \'array\', \'dtype\': "[(\'a\', \'<i4\'), (\'b\', '
                             '\'<f8\')]", \'data\': [(1, 2.0)], \'encoding\': {}}'),
 'encode_array/void': ('returned',
                       "{'__type__': 'array', 'dtype': '|V2', 'data': [b'ab'], 'encoding': {}}"),
 'encode_array/np-scalar': ('returned',
                            "{'__type__': 'array', 'dtype': 'float32', 'data': 3.5, 'encoding': "
                            '{}}'),
 'encode_array/np-datetime-scalar': ('raised',
                                     'IndexError',
                                     'too many indices for array: array is 0-dimensional, but 1 '
                                     'were indexed',
                                     None),
 'encode_array/np-timedelta-scalar': ('returned',
                                      "{'__type__': 'array', 'dtype': 'timedelta64[ms]', 'data': "
                                      "5, 'encoding': {'units': 'ms'}}"),
 'encode_array/td-s': ('returned',
                       "{'__type__': 'array', 'dtype': 'timedelta64[s]', 'data': [1, 2, -3], "
                       "'encoding': {'units': 's'}}"),
 'encode_array/td-ns': ('returned',
                        "{'__type__': 'array', 'dtype': 'timedelta64[ns]', 'data': "
                        "[1000000000000000, 0], 'encoding': {'units': 'ns'}}"),
 'encode_array/td-10s': ('returned',
                         "{'__type__': 'array', 'dtype': 'timedelta64[10s]', 'data': [1, 2], "
                         "'encoding': {'units': 's'}}"),
 'encode_array/td-generic': ('returned',
                             "{'__type__': 'array', 'dtype': 'timedelta64', 'data': [1, 2], "
                             "'encoding': {'units': 'generic'}}"),
 'encode_array/td-nat': ('returned',
                         "{'__type__': 'array', 'dtype': 'timedelta64[us]', 'data': [1, "
                         "-9223372036854775808], 'encoding': {'units': 'us'}}"),
 'encode_array/td-empty': ('returned',
                           "{'__type__': 'array', 'dtype': 'timedelta64[D]', 'data': [], "
                           "'encoding': {'units': 'D'}}"),
 'encode_array/td-2d': ('returned',
                        "{'__type__': 'array', 'dtype': 'timedelta64[h]', 'data': [[1, 2], [3, "
                        "4]], 'encoding': {'units': 'h'}}"),
 'encode_array/td-0d': ('returned',
                        "{'__type__': 'array', 'dtype': 'timedelta64[m]', 'data': 7, 'encoding': "
                        "{'units': 'm'}}"),
 'encode_array/dt-s': ('returned',
                       "{'__type__': 'array', 'dtype': 'datetime64[s]', 'data': [0, 10, -1], "
                       "'encoding': {'reference': '2020-01-01T00:00:00', 'units': 's'}}"),
 'encode_array/dt-ns': ('returned',
                        "{'__type__': 'array', 'dtype': 'datetime64[ns]', 'data': [0, -1], "
                        "'encoding': {'reference': '2020-01-01T00:00:00.000000001', 'units': "
                        "'ns'}}"),
 'encode_array/dt-us': ('returned',
                        "{'__type__': 'array', 'dtype': 'datetime64[us]', 'data': [0, 750000], "
                        "'encoding': {'reference': '2015-03-02T12:00:00.250000', 'units': 'us'}}"),
 'encode_array/dt-25us': ('returned',
                          "{'__type__': 'array', 'dtype': 'datetime64[25us]', 'data': [0, 3], "
                          "'encoding': {'reference': '2015-03-02T12:00:00.000025', 'units': "
                          "'25us'}}"),
 'encode_array/dt-10s': ('returned',
                         "{'__type__': 'array', 'dtype': 'datetime64[10s]', 'data': [0, 5], "
                         "'encoding': {'reference': '2015-03-02T12:00:10', 'units': '10s'}}"),
 'encode_array/dt-D': ('returned',
                       "{'__type__': 'array', 'dtype': 'datetime64[D]', 'data': [0, 2], "
                       "'encoding': {'reference': '2020-02-28', 'units': 'D'}}"),
 'encode_array/dt-Y': ('returned',
                       "{'__type__': 'array', 'dtype': 'datetime64[Y]', 'data': [0, 25], "
                       "'encoding': {'reference': '1999', 'units': 'Y'}}"),
 'encode_array/dt-generic': ('returned',
                             "{'__type__': 'array', 'dtype': 'datetime64', 'data': "
                             "[-9223372036854775808], 'encoding': {'reference': 'NaT', 'units': "
                             "'generic'}}"),
 'encode_array/dt-nat-first': ('returned',
                               "{'__type__': 'array', 'dtype': 'datetime64[s]', 'data': "
                               "[-9223372036854775808, -9223372036854775808], 'encoding': "
                               "{'reference': 'NaT', 'units': 's'}}"),
 'encode_array/dt-nat-later': ('returned',
                               "{'__type__': 'array', 'dtype': 'datetime64[s]', 'data': [0, "
                               "-9223372036854775808], 'encoding': {'reference': "
                               "'2020-01-01T00:00:00', 'units': 's'}}"),
 'encode_array/dt-single': ('returned',
                            "{'__type__': 'array', 'dtype': 'datetime64[ms]', 'data': [0], "
                            "'encoding': {'reference': '2020-01-01T00:00:00.000', 'units': 'ms'}}"),
 'encode_array/dt-empty': ('raised',
                           'IndexError',
                           'index 0 is out of bounds for axis 0 with size 0',
                           None),
 'encode_array/dt-0d': ('raised',
                        'IndexError',
                        'too many indices for array: array is 0-dimensional, but 1 were indexed',
                        None),
 'encode_array/dt-2d': ('returned',
                        "{'__type__': 'array', 'dtype': 'datetime64[D]', 'data': [[0, 0], [2, 3]], "
                        '\'encoding\': {\'reference\': "[\'2020-01-01\' \'2020-01-02\']", '
                        "'units': 'D'}}"),
 'encode_array/dt-list': ('returned',
                          "{'__type__': 'array', 'dtype': 'datetime64[s]', 'data': [0, 86400], "
                          "'encoding': {'reference': '2020-01-01T00:00:00', 'units': 's'}}"),
 'encode_array/dt-mixed-units-list': ('returned',
                                      "{'__type__': 'array', 'dtype': 'datetime64[h]', 'data': [0, "
                                      "25], 'encoding': {'reference': '2020-01-01T00', 'units': "
                                      "'h'}}"),
 'encode_array/td-list': ('returned',
                          "{'__type__': 'array', 'dtype': 'timedelta64[s]', 'data': [1, 60], "
                          "'encoding': {'units': 's'}}"),
 'encode_datetime/td-s': ('returned', "([0, 1, -4], {'reference': '1 seconds', 'units': 's'})"),
 'encode_timedelta/td-s': ('returned', "([1, 2, -3], {'units': 's'})"),
 'encode_datetime/td-ns': ('returned',
                           "([0, -1000000000000000], {'reference': '1000000000000000 nanoseconds', "
                           "'units': 'ns'})"),
 'encode_timedelta/td-ns': ('returned', "([1000000000000000, 0], {'units': 'ns'})"),
 'encode_datetime/td-10s': ('returned', "([0, 1], {'reference': '10 seconds', 'units': '10s'})"),
 'encode_timedelta/td-10s': ('returned', "([1, 2], {'units': 's'})"),
 'encode_datetime/td-generic': ('returned',
                                "([0, 1], {'reference': '1 generic time units', 'units': "
                                "'generic'})"),
 'encode_timedelta/td-generic': ('returned', "([1, 2], {'units': 'generic'})"),
 'encode_datetime/td-nat': ('returned',
                            "([0, -9223372036854775808], {'reference': '1 microseconds', 'units': "
                            "'us'})"),
 'encode_timedelta/td-nat': ('returned', "([1, -9223372036854775808], {'units': 'us'})"),
 'encode_datetime/td-empty': ('raised',
                              'IndexError',
                              'index 0 is out of bounds for axis 0 with size 0',
                              None),
 'encode_timedelta/td-empty': ('returned', "([], {'units': 'D'})"),
 'encode_datetime/td-2d': ('returned', "([[0, 0], [2, 2]], {'reference': '[1 2]', 'units': 'h'})"),
 'encode_timedelta/td-2d': ('returned', "([[1, 2], [3, 4]], {'units': 'h'})"),
 'encode_datetime/td-0d': ('raised',
                           'IndexError',
                           'too many indices for array: array is 0-dimensional, but 1 were indexed',
                           None),
 'encode_timedelta/td-0d': ('returned', "(7, {'units': 'm'})"),
 'encode_datetime/dt-s': ('returned',
                          "([0, 10, -1], {'reference': '2020-01-01T00:00:00', 'units': 's'})"),
 'encode_timedelta/dt-s': ('returned', "([1577836800, 1577836810, 1577836799], {'units': 's'})"),
 'encode_datetime/dt-ns': ('returned',
                           "([0, -1], {'reference': '2020-01-01T00:00:00.000000001', 'units': "
                           "'ns'})"),
 'encode_timedelta/dt-ns': ('returned',
                            "([1577836800000000001, 1577836800000000000], {'units': 'ns'})"),
 'encode_datetime/dt-us': ('returned',
                           "([0, 750000], {'reference': '2015-03-02T12:00:00.250000', 'units': "
                           "'us'})"),
 'encode_timedelta/dt-us': ('returned', "([1425297600250000, 1425297601000000], {'units': 'us'})"),
 'encode_datetime/dt-25us': ('returned',
                             "([0, 3], {'reference': '2015-03-02T12:00:00.000025', 'units': "
                             "'25us'})"),
 'encode_timedelta/dt-25us': ('returned', "([57011904000001, 57011904000004], {'units': 'us'})"),
 'encode_datetime/dt-10s': ('returned',
                            "([0, 5], {'reference': '2015-03-02T12:00:10', 'units': '10s'})"),
 'encode_timedelta/dt-10s': ('returned', "([142529761, 142529766], {'units': 's'})"),
 'encode_datetime/dt-D': ('returned', "([0, 2], {'reference': '2020-02-28', 'units': 'D'})"),
 'encode_timedelta/dt-D': ('returned', "([18320, 18322], {'units': 'D'})"),
 'encode_datetime/dt-Y': ('returned', "([0, 25], {'reference': '1999', 'units': 'Y'})"),
 'encode_timedelta/dt-Y': ('returned', "([29, 54], {'units': 'Y'})"),
 'encode_datetime/dt-generic': ('returned',
                                "([-9223372036854775808], {'reference': 'NaT', 'units': "
                                "'generic'})"),
 'encode_timedelta/dt-generic': ('returned', "([-9223372036854775808], {'units': 'generic'})"),
 'encode_datetime/dt-nat-first': ('returned',
                                  "([-9223372036854775808, -9223372036854775808], {'reference': "
                                  "'NaT', 'units': 's'})"),
 'encode_timedelta/dt-nat-first': ('returned',
                                   "([-9223372036854775808, 1577836800], {'units': 's'})"),
 'encode_datetime/dt-nat-later': ('returned',
                                  "([0, -9223372036854775808], {'reference': "
                                  "'2020-01-01T00:00:00', 'units': 's'})"),
 'encode_timedelta/dt-nat-later': ('returned',
                                   "([1577836800, -9223372036854775808], {'units': 's'})"),
 'encode_datetime/dt-single': ('returned',
                               "([0], {'reference': '2020-01-01T00:00:00.000', 'units': 'ms'})"),
 'encode_timedelta/dt-single': ('returned', "([1577836800000], {'units': 'ms'})"),
 'encode_datetime/dt-empty': ('raised',
                              'IndexError',
                              'index 0 is out of bounds for axis 0 with size 0',
                              None),
 'encode_timedelta/dt-empty': ('returned', "([], {'units': 's'})"),
 'encode_datetime/dt-0d': ('raised',
                           'IndexError',
                           'too many indices for array: array is 0-dimensional, but 1 were indexed',
                           None),
 'encode_timedelta/dt-0d': ('returned', "(1577836800, {'units': 's'})"),
 'encode_datetime/dt-2d': ('returned',
                           '([[0, 0], [2, 3]], {\'reference\': "[\'2020-01-01\' \'2020-01-02\']", '
                           "'units': 'D'})"),
 'encode_timedelta/dt-2d': ('returned', "([[18262, 18263], [18264, 18266]], {'units': 'D'})"),
 'encode_datetime/dt-list': ('returned',
                             "([0, 86400], {'reference': '2020-01-01T00:00:00', 'units': 's'})"),
 'encode_timedelta/dt-list': ('returned', "([1577836800, 1577923200], {'units': 's'})"),
 'encode_datetime/dt-mixed-units-list': ('returned',
                                         "([0, 25], {'reference': '2020-01-01T00', 'units': 'h'})"),
 'encode_timedelta/dt-mixed-units-list': ('returned', "([438288, 438313], {'units': 'h'})"),
 'encode_datetime/td-list': ('returned', "([0, 59], {'reference': '1 seconds', 'units': 's'})"),
 'encode_timedelta/td-list': ('returned', "([1, 60], {'units': 's'})"),
 'encode_datetime/int': ('raised',
                         'TypeError',
                         'cannot get datetime metadata from non-datetime type',
                         None),
 'encode_timedelta/int': ('raised',
                          'TypeError',
                          'cannot get datetime metadata from non-datetime type',
                          None),
 'encode_datetime/list': ('raised',
                          'AttributeError',
                          "'list' object has no attribute 'dtype'",
                          None),
 'encode_variable/time': ('returned',
                          "{'__type__': 'variable', 'dims': ['t'], 'data': {'__type__': 'array', "
                          "'dtype': 'datetime64[h]', 'data': [0, 48], 'encoding': {'reference': "
                          "'2020-01-01T00', 'units': 'h'}}, 'attrs': {'a': (1,)}}"),
 'encode_variable/backend': ('returned',
                             "{'__type__': 'variable', 'dims': ['r', 'c'], 'data': {'__type__': "
                             "'backend_array', 'root': 's3://bucket/scene', 'url': "
                             "'IMG-HH-ALOS2-SCENE', 'shape': (3, 5), 'dtype': 'uint16', "
                             "'byte_ranges': [(0, 10), (10, 20), (25, 35)], 'type_code': 'IU2'}, "
                             "'attrs': {}}"),
 'encode_group': ('returned',
                  "{'__type__': 'group', 'url': 's3://bucket/scene', 'data': {'time': {'__type__': "
                  "'variable', 'dims': ['rows'], 'data': {'__type__': 'array', 'dtype': "
                  "'datetime64[s]', 'data': [0, 86400], 'encoding': {'reference': "
                  "'2020-01-01T00:00:00', 'units': 's'}}, 'attrs': {'a': 1}}, 'delta': "
                  "{'__type__': 'variable', 'dims': ['rows'], 'data': {'__type__': 'array', "
                  "'dtype': 'timedelta64[ms]', 'data': [1, 2], 'encoding': {'units': 'ms'}}, "
                  "'attrs': {}}, 'data': {'__type__': 'variable', 'dims': ['rows', 'cols'], "
                  "'data': {'__type__': 'backend_array', 'root': 's3://bucket/scene', 'url': "
                  "'IMG-HH-ALOS2-SCENE', 'shape': (3, 5), 'dtype': 'uint16', 'byte_ranges': [(0, "
                  "10), (10, 20), (25, 35)], 'type_code': 'IU2'}, 'attrs': {'units': '1', 'shape': "
                  "(3, 5)}}, 'sub': {'__type__': 'group', 'url': 's3://bucket/scene', 'data': "
                  "{'x': {'__type__': 'variable', 'dims': ['x'], 'data': {'__type__': 'array', "
                  "'dtype': 'float64', 'data': [1.5, 2.5], 'encoding': {}}, 'attrs': {'t': (1, (2, "
                  "3))}}}, 'path': '/sub', 'attrs': {'n': [1, (2,)]}}}, 'path': '/', 'attrs': "
                  "{'tuple': (1, 2), 'nested': {'k': (3,)}}}"),
 'encode_hierarchy/group': ('returned',
                            "{'__type__': 'group', 'url': 's3://bucket/scene', 'data': {'time': "
                            "{'__type__': 'variable', 'dims': ['rows'], 'data': {'__type__': "
                            "'array', 'dtype': 'datetime64[s]', 'data': [0, 86400], 'encoding': "
                            "{'reference': '2020-01-01T00:00:00', 'units': 's'}}, 'attrs': {'a': "
                            "1}}, 'delta': {'__type__': 'variable', 'dims': ['rows'], 'data': "
                            "{'__type__': 'array', 'dtype': 'timedelta64[ms]', 'data': [1, 2], "
                            "'encoding': {'units': 'ms'}}, 'attrs': {}}, 'data': {'__type__': "
                            "'variable', 'dims': ['rows', 'cols'], 'data': {'__type__': "
                            "'backend_array', 'root': 's3://bucket/scene', 'url': "
                            "'IMG-HH-ALOS2-SCENE', 'shape': (3, 5), 'dtype': 'uint16', "
                            "'byte_ranges': [(0, 10), (10, 20), (25, 35)], 'type_code': 'IU2'}, "
                            "'attrs': {'units': '1', 'shape': (3, 5)}}, 'sub': {'__type__': "
                            "'group', 'url': 's3://bucket/scene', 'data': {'x': {'__type__': "
                            "'variable', 'dims': ['x'], 'data': {'__type__': 'array', 'dtype': "
                            "'float64', 'data': [1.5, 2.5], 'encoding': {}}, 'attrs': {'t': (1, "
                            "(2, 3))}}}, 'path': '/sub', 'attrs': {'n': [1, (2,)]}}}, 'path': '/', "
                            "'attrs': {'tuple': (1, 2), 'nested': {'k': (3,)}}}"),
 'encode_hierarchy/other': ('returned', "{'a': 1}"),
 'preprocess': ('returned',
                "{'__type__': 'group', 'url': 's3://bucket/scene', 'data': {'time': {'__type__': "
                "'variable', 'dims': ['rows'], 'data': {'__type__': 'array', 'dtype': "
                "'datetime64[s]', 'data': [0, 86400], 'encoding': {'reference': "
                "'2020-01-01T00:00:00', 'units': 's'}}, 'attrs': {'a': 1}}, 'delta': {'__type__': "
                "'variable', 'dims': ['rows'], 'data': {'__type__': 'array', 'dtype': "
                "'timedelta64[ms]', 'data': [1, 2], 'encoding': {'units': 'ms'}}, 'attrs': {}}, "
                "'data': {'__type__': 'variable', 'dims': ['rows', 'cols'], 'data': {'__type__': "
                "'backend_array', 'root': 's3://bucket/scene', 'url': 'IMG-HH-ALOS2-SCENE', "
                "'shape': {'__type__': 'tuple', 'data': [3, 5]}, 'dtype': 'uint16', 'byte_ranges': "
                "[{'__type__': 'tuple', 'data': [0, 10]}, {'__type__': 'tuple', 'data': [10, 20]}, "
                "{'__type__': 'tuple', 'data': [25, 35]}], 'type_code': 'IU2'}, 'attrs': {'units': "
                "'1', 'shape': {'__type__': 'tuple', 'data': [3, 5]}}}, 'sub': {'__type__': "
                "'group', 'url': 's3://bucket/scene', 'data': {'x': {'__type__': 'variable', "
                "'dims': ['x'], 'data': {'__type__': 'array', 'dtype': 'float64', 'data': [1.5, "
                "2.5], 'encoding': {}}, 'attrs': {'t': {'__type__': 'tuple', 'data': [1, "
                "{'__type__': 'tuple', 'data': [2, 3]}]}}}}, 'path': '/sub', 'attrs': {'n': [1, "
                "{'__type__': 'tuple', 'data': [2]}]}}}, 'path': '/', 'attrs': {'tuple': "
                "{'__type__': 'tuple', 'data': [1, 2]}, 'nested': {'k': {'__type__': 'tuple', "
                "'data': [3]}}}}"),
 'caching.encode/group': ('returned',
                          '\'{"__type__": "group", "url": "s3://bucket/scene", "data": {"time": '
                          '{"__type__": "variable", "dims": ["rows"], "data": {"__type__": '
                          '"array", "dtype": "datetime64[s]", "data": [0, 86400], "encoding": '
                          '{"reference": "2020-01-01T00:00:00", "units": "s"}}, "attrs": {"a": '
                          '1}}, "delta": {"__type__": "variable", "dims": ["rows"], "data": '
                          '{"__type__": "array", "dtype": "timedelta64[ms]", "data": [1, 2], '
                          '"encoding": {"units": "ms"}}, "attrs": {}}, "data": {"__type__": '
                          '"variable", "dims": ["rows", "cols"], "data": {"__type__": '
                          '"backend_array", "root": "s3://bucket/scene", "url": '
                          '"IMG-HH-ALOS2-SCENE", "shape": {"__type__": "tuple", "data": [3, 5]}, '
                          '"dtype": "uint16", "byte_ranges": [{"__type__": "tuple", "data": [0, '
                          '10]}, {"__type__": "tuple", "data": [10, 20]}, {"__type__": "tuple", '
                          '"data": [25, 35]}], "type_code": "IU2"}, "attrs": {"units": "1", '
                          '"shape": {"__type__": "tuple", "data": [3, 5]}}}, "sub": {"__type__": '
                          '"group", "url": "s3://bucket/scene", "data": {"x": {"__type__": '
                          '"variable", "dims": ["x"], "data": {"__type__": "array", "dtype": '
                          '"float64", "data": [1.5, 2.5], "encoding": {}}, "attrs": {"t": '
                          '{"__type__": "tuple", "data": [1, {"__type__": "tuple", "data": [2, '
                          '3]}]}}}}, "path": "/sub", "attrs": {"n": [1, {"__type__": "tuple", '
                          '"data": [2]}]}}}, "path": "/", "attrs": {"tuple": {"__type__": "tuple", '
                          '"data": [1, 2]}, "nested": {"k": {"__type__": "tuple", "data": '
                          "[3]}}}}'"),
 'caching.encode/variable': ('returned',
                             '\'{"__type__": "variable", "dims": ["t"], "data": {"__type__": '
                             '"array", "dtype": "datetime64[25us]", "data": [0, 6912000000], '
                             '"encoding": {"reference": "2020-01-01T00:00:00.000000", "units": '
                             '"25us"}}, "attrs": {}}\''),
 'input-untouched': True,
 'late-binding/datetime': ('returned',
                           "{'__type__': 'array', 'dtype': 'datetime64[s]', 'data': ['patched'], "
                           "'encoding': {'patched': True}}"),
 'late-binding/timedelta': ('returned',
                            "{'__type__': 'array', 'dtype': 'timedelta64[s]', 'data': ['patched'], "
                            "'encoding': {'patched': True}}"),
 'public': ['Array',
            'Group',
            'Variable',
            'encode_array',
            'encode_datetime',
            'encode_group',
            'encode_hierarchy',
            'encode_timedelta',
            'encode_variable',
            'np',
            'preprocess',
            'valmap']}


def main():
    results = collect()
    if "--record" in sys.argv:
        pprint.pprint(results, width=100, sort_dicts=False)
        return 0

    failed = 0
    for key in sorted(set(results) | set(EXPECTED)):
        if results.get(key) != EXPECTED.get(key):
            failed += 1
            print(f"MISMATCH {key}:\n  expected {EXPECTED.get(key)!r}\n  got      {results.get(key)!r}")
    print(f"{len(results)} observations, {failed} mismatches")
    return 1 if failed else 0


def test_equivalence():
    assert collect() == EXPECTED


if __name__ == "__main__":
    sys.exit(main())
