"""Equivalence check for refactoring 4 (group conversion in ceos_alos2.xarray).

Covers ``decode_coords``, ``to_dataset``, ``to_datatree`` and ``open_alos2``: results, exceptions,
mutation of the inputs, the order in which groups are converted and the arguments passed on to
``Dataset.chunk`` and ``io.open``.

dask is not installed in the sandbox, so ``Dataset.chunk`` cannot succeed here: the script checks
both the real behaviour (the exception raised by xarray) and, with ``Dataset.chunk`` replaced by
a recorder, the exact chunk mapping that is requested.

Run as

    cd /tmp/wt5/e32 && PYTHONPATH=/tmp/wt5/e32 /venv/bin/python _eq/4/equiv.py

The expected values in ``EXPECTED`` were recorded from the unchanged code (HEAD) using
``equiv.py --record``. The script must pass both with and without ``patch.diff`` applied.
"""

import pprint
import sys
import warnings
from unittest import mock

import fsspec
import numpy as np
import xarray as xr
from fsspec.implementations.dirfs import DirFileSystem

from ceos_alos2 import xarray as cxr
from ceos_alos2.array import Array
from ceos_alos2.hierarchy import Group, Variable

log = []

memory_fs = DirFileSystem(fs=fsspec.filesystem("memory"), path="/eq4")
image = np.arange(24, dtype="uint16").reshape(4, 6) + 100
with memory_fs.open("img", mode="wb") as f:
    f.write(b"".join(b"\x00\x00" + row.astype(">u2").tobytes() for row in image))
byte_ranges = [(i * 14 + 2, (i + 1) * 14) for i in range(4)]


def make_array(rpc=2):
    return Array(memory_fs, "img", byte_ranges, (4, 6), "uint16", "IU2", rpc)


def describe_variable(var):
    in_memory = var._in_memory
    return (
        var.dims,
        str(var.dtype),
        dict(var.attrs),
        dict(var.encoding),
        in_memory,
        type(var._data).__name__,
        var.values.tolist(),
    )


def describe_dataset(ds):
    return (
        type(ds).__name__,
        dict(ds.sizes),
        {name: describe_variable(var.variable) for name, var in ds.data_vars.items()},
        {name: describe_variable(var.variable) for name, var in ds.coords.items()},
        dict(ds.attrs),
        dict(ds.encoding),
    )


def describe(value):
    if isinstance(value, xr.DataTree):
        return (
            "DataTree",
            [(node.path, node.name, describe_dataset(node.to_dataset())) for node in value.subtree],
        )
    if isinstance(value, xr.Dataset):
        return describe_dataset(value)
    return value


def outcome(func):
    del log[:]
    try:
        with warnings.catch_warnings(record=True) as caught:
            warnings.simplefilter("always")
            result = ("ok", describe(func()))
    except Exception as e:  # noqa: BLE001
        caught = []
        result = ("raise", type(e).__name__, str(e).split("\n")[0])
    messages = [(w.category.__name__, str(w.message).split("\n")[0]) for w in caught]
    return repr((result, list(log), messages))


def recording_chunk(self, chunks=None, *args, **kwargs):
    """stand-in for Dataset.chunk: records the request, returns a marked copy"""
    log.append(("chunk", sorted(self.variables), repr(chunks), list(chunks), args, kwargs))
    return self.assign_attrs(chunked=repr(chunks))


def with_recorded_chunk(func):
    def wrapper():
        with mock.patch.object(xr.Dataset, "chunk", recording_chunk):
            return func()

    return wrapper


def recording_to_variable():
    original = cxr.to_variable

    def to_variable(var):
        log.append(("to_variable", var.dims, type(var.data).__name__))
        return original(var)

    return mock.patch.object(cxr, "to_variable", to_variable)


groups = {
    "empty": lambda: Group(path=None, url=None, data={}, attrs={}),
    "attrs": lambda: Group(path=None, url=None, data={}, attrs={"a": 1, "b": [1, 2], "c": "x"}),
    "variables": lambda: Group(
        path=None,
        url="file:///a",
        data={
            "a": Variable("x", np.array([1, 2, 3], dtype="int8"), {"a": 1}),
            "b": Variable(["x", "y"], np.arange(12).reshape(3, 4), {"b": "abc"}),
        },
        attrs={"n": 1},
    ),
    "coords": lambda: Group(
        path=None,
        url=None,
        data={
            "c": Variable("x", np.array([1, 2, 3], dtype="int8"), {"a": 1}),
            "d": Variable(["x", "y"], np.arange(12).reshape(3, 4), {"b": "abc"}),
            "e": Variable("y", np.array([0.5, 1.5, 2.5, 3.5]), {}),
        },
        attrs={"coordinates": ["e", "d"], "other": True},
    ),
    "coords-all": lambda: Group(
        path=None,
        url=None,
        data={"c": Variable("x", np.array([1, 2]), {}), "d": Variable("x", np.array([3, 4]), {})},
        attrs={"coordinates": ["c", "d"]},
    ),
    "coords-empty": lambda: Group(
        path=None, url=None, data={"c": Variable("x", np.array([1, 2]), {})}, attrs={"coordinates": []}
    ),
    "coords-string": lambda: Group(
        path=None, url=None, data={"c": Variable("x", np.array([1, 2]), {})}, attrs={"coordinates": "c"}
    ),
    "coords-tuple": lambda: Group(
        path=None,
        url=None,
        data={"c": Variable("x", np.array([1, 2]), {})},
        attrs={"coordinates": ("c",)},
    ),
    "coords-none": lambda: Group(
        path=None,
        url=None,
        data={"c": Variable("x", np.array([1, 2]), {})},
        attrs={"coordinates": None},
    ),
    "coords-missing": lambda: Group(
        path=None,
        url=None,
        data={"c": Variable("x", np.array([1, 2]), {})},
        attrs={"coordinates": ["nope"]},
    ),
    "coords-index": lambda: Group(
        path=None,
        url=None,
        data={"x": Variable("x", np.array([10, 20]), {}), "v": Variable("x", np.array([1, 2]), {})},
        attrs={"coordinates": ["v"]},
    ),
    "lazy": lambda: Group(
        path=None,
        url=None,
        data={
            "data": Variable(["rows", "cols"], make_array(rpc=3), {"units": "1"}),
            "rows": Variable("rows", np.arange(4), {}),
            "time": Variable("rows", np.arange(4, dtype="timedelta64[s]"), {"long_name": "t"}),
        },
        attrs={"coordinates": ["time"], "title": "lazy"},
    ),
    "conflicting-sizes": lambda: Group(
        path=None,
        url=None,
        data={"a": Variable("x", np.array([1, 2]), {}), "b": Variable("x", np.array([1, 2, 3]), {})},
        attrs={},
    ),
    "nested": lambda: Group(
        path=None,
        url="root-url",
        data={
            "a": Variable("x", np.array([1, 2, 3], dtype="int8"), {"a": 1}),
            "g1": Group(
                path=None,
                url=None,
                data={
                    "b": Variable(["x", "y"], np.arange(6).reshape(3, 2), {}),
                    "g11": Group(
                        path=None,
                        url=None,
                        data={"deep": Variable("z", np.array([1.5]), {})},
                        attrs={"level": 2, "coordinates": ["deep"]},
                    ),
                    "g12": Group(path=None, url=None, data={}, attrs={"empty": True}),
                },
                attrs={"level": 1},
            ),
            "g2": Group(
                path=None,
                url=None,
                data={"lazy": Variable(["rows", "cols"], make_array(), {})},
                attrs={"level": 1, "coordinates": []},
            ),
        },
        attrs={"level": 0, "coordinates": ["a"]},
    ),
}
groups["subgroup"] = lambda: groups["nested"]()["g1"]
groups["leaf"] = lambda: groups["nested"]()["g1"]["g11"]
groups["relative"] = lambda: Group(
    path="rel",
    url=None,
    data={
        "v": Variable("x", np.array([1]), {}),
        "sub": Group(path=None, url=None, data={"w": Variable("x", np.array([2]), {})}, attrs={}),
    },
    attrs={},
)

chunk_specs = {
    "none": None,
    "empty": {},
    "x": {"x": 1},
    "xy": {"y": 2, "x": 1},
    "unknown": {"nope": 3, "rows": 2, "z": -1},
    "values": {"x": "auto", "y": -1, "rows": None, "cols": (3, 3)},
    "int": -1,
    "auto": "auto",
    "list": [("x", 1)],
    "tuple-key": {("x",): 1, "x": 2},
}


def attrs_after(name, func):
    group = groups[name]()
    attrs = group.attrs
    before = dict(attrs)
    func(group)
    return (group.attrs is attrs, attrs == before, list(attrs))


def decode(ds):
    result = cxr.decode_coords(ds)
    return (describe_dataset(result), result is ds, dict(ds.attrs), list(ds.coords))


datasets = {
    "plain": lambda: xr.Dataset({"a": 1, "b": 2}, attrs={}),
    "no-attrs": lambda: xr.Dataset({"a": 1, "b": 2}),
    "a": lambda: xr.Dataset({"a": 1, "b": 2}, attrs={"coordinates": ["a"], "x": 1}),
    "ab": lambda: xr.Dataset({"a": 1, "b": 2}, attrs={"x": 1, "coordinates": ["b", "a"], "y": 2}),
    "empty-list": lambda: xr.Dataset({"a": 1}, attrs={"coordinates": []}),
    "string": lambda: xr.Dataset({"a": 1, "b": 2}, attrs={"coordinates": "b"}),
    "none": lambda: xr.Dataset({"a": 1, "b": 2}, attrs={"coordinates": None}),
    "missing": lambda: xr.Dataset({"a": 1, "b": 2}, attrs={"coordinates": ["c"]}),
    "already-coord": lambda: xr.Dataset(
        {"a": 1}, coords={"b": 2}, attrs={"coordinates": ["b"]}
    ),
    "empty-dataset": lambda: xr.Dataset(),
    "other-attrs": lambda: xr.Dataset({"a": ("x", [1, 2])}, attrs={"Coordinates": ["a"]}),
}


def decode_missing_keeps_attrs():
    ds = datasets["missing"]()
    try:
        cxr.decode_coords(ds)
    except ValueError:
        pass
    return dict(ds.attrs)


def open_alos2(*args, **kwargs):
    def fake_open(*open_args, **open_kwargs):
        log.append(("io.open", open_args, open_kwargs))
        return groups["nested"]()

    with mock.patch.object(cxr.io, "open", fake_open):
        return cxr.open_alos2(*args, **kwargs)


def open_alos2_failing():
    def fake_open(*open_args, **open_kwargs):
        log.append(("io.open", open_args, open_kwargs))
        raise FileNotFoundError("no such product")

    with mock.patch.object(cxr.io, "open", fake_open):
        return cxr.open_alos2("path")


def conversion_order(name, chunks=None):
    with recording_to_variable():
        cxr.to_datatree(groups[name](), chunks=chunks)
    return None


def tree_keys(name):
    tree = cxr.to_datatree(groups[name]())
    return ([node.path for node in tree.subtree], list(tree.children), type(tree).__name__)


CASES = {
    # decode_coords
    **{
        f"decode-{name}": lambda create=create: decode(create())
        for name, create in datasets.items()
    },
    "decode-missing-keeps-attrs": decode_missing_keeps_attrs,
    "decode-not-a-dataset": lambda: cxr.decode_coords({"coordinates": []}),
    "decode-dataarray": lambda: cxr.decode_coords(
        xr.DataArray([1], dims="x", attrs={"coordinates": []})
    ),
    # to_dataset
    **{
        f"to_dataset-{name}": lambda create=create: cxr.to_dataset(create())
        for name, create in groups.items()
    },
    **{
        f"to_dataset-chunks-{name}-{chunk_name}": lambda create=create, chunks=chunks: cxr.to_dataset(
            create(), chunks=chunks
        )
        for name, create in groups.items()
        if name in ("attrs", "variables", "lazy")
        for chunk_name, chunks in chunk_specs.items()
    },
    **{
        f"to_dataset-recorded-chunks-{name}-{chunk_name}": with_recorded_chunk(
            lambda create=create, chunks=chunks: cxr.to_dataset(create(), chunks=chunks)
        )
        for name, create in groups.items()
        if name in ("empty", "variables", "coords", "lazy", "coords-missing")
        for chunk_name, chunks in chunk_specs.items()
    },
    "to_dataset-positional-chunks": with_recorded_chunk(
        lambda: cxr.to_dataset(groups["variables"](), {"y": 2})
    ),
    "to_dataset-attrs-untouched": lambda: [
        attrs_after(name, cxr.to_dataset) for name in ("coords", "attrs", "nested", "lazy")
    ],
    "to_dataset-not-a-group": lambda: cxr.to_dataset({"a": 1}),
    "to_dataset-variable": lambda: cxr.to_dataset(Variable("x", np.array([1]), {})),
    "to_dataset-order": lambda: [
        list(cxr.to_dataset(groups[name]()).variables) for name in ("coords", "lazy", "nested")
    ],
    # to_datatree
    **{
        f"to_datatree-{name}": lambda create=create: cxr.to_datatree(create())
        for name, create in groups.items()
    },
    **{
        f"to_datatree-chunks-{name}-{chunk_name}": lambda create=create, chunks=chunks: cxr.to_datatree(
            create(), chunks=chunks
        )
        for name, create in groups.items()
        if name in ("attrs", "nested")
        for chunk_name, chunks in chunk_specs.items()
    },
    **{
        f"to_datatree-recorded-chunks-{name}-{chunk_name}": with_recorded_chunk(
            lambda create=create, chunks=chunks: cxr.to_datatree(create(), chunks=chunks)
        )
        for name, create in groups.items()
        if name in ("nested", "subgroup", "relative", "lazy")
        for chunk_name, chunks in chunk_specs.items()
    },
    "to_datatree-attrs-untouched": lambda: [
        attrs_after(name, cxr.to_datatree) for name in ("coords", "nested", "subgroup")
    ],
    "to_datatree-conversion-order-nested": lambda: conversion_order("nested"),
    "to_datatree-conversion-order-subgroup": lambda: conversion_order("subgroup"),
    "to_datatree-conversion-order-relative": lambda: conversion_order("relative"),
    "to_datatree-conversion-order-failing": lambda: conversion_order("nested", chunks=1),
    "to_datatree-keys-nested": lambda: tree_keys("nested"),
    "to_datatree-keys-subgroup": lambda: tree_keys("subgroup"),
    "to_datatree-keys-leaf": lambda: tree_keys("leaf"),
    "to_datatree-not-a-group": lambda: cxr.to_datatree({"a": 1}),
    # open_alos2
    "open_alos2": lambda: open_alos2("path/to/product"),
    "open_alos2-options": lambda: open_alos2(
        "s3://bucket/product",
        backend_options={"storage_options": {"anon": True}, "records_per_chunk": 10},
    ),
    "open_alos2-chunks": with_recorded_chunk(
        lambda: open_alos2("path", {"x": 2}, {"use_cache": False})
    ),
    "open_alos2-chunks-real": lambda: open_alos2("path", chunks={}),
    "open_alos2-bad-options": lambda: open_alos2("path", backend_options=None),
    "open_alos2-failing": open_alos2_failing,
    "open_alos2-no-path": lambda: cxr.open_alos2(),
}

EXPECTED = {'decode-plain': "(('ok', (('Dataset', {}, {'a': ((), 'int64', {}, {}, True, 'ndarray', 1), 'b': "
                 "((), 'int64', {}, {}, True, 'ndarray', 2)}, {}, {}, {}), False, {}, [])), [], "
                 '[])',
 'decode-no-attrs': "(('ok', (('Dataset', {}, {'a': ((), 'int64', {}, {}, True, 'ndarray', 1), "
                    "'b': ((), 'int64', {}, {}, True, 'ndarray', 2)}, {}, {}, {}), False, {}, "
                    '[])), [], [])',
 'decode-a': "(('ok', (('Dataset', {}, {'b': ((), 'int64', {}, {}, True, 'ndarray', 2)}, {'a': "
             "((), 'int64', {}, {}, True, 'ndarray', 1)}, {'x': 1}, {}), False, {'x': 1}, [])), "
             '[], [])',
 'decode-ab': "(('ok', (('Dataset', {}, {}, {'a': ((), 'int64', {}, {}, True, 'ndarray', 1), 'b': "
              "((), 'int64', {}, {}, True, 'ndarray', 2)}, {'x': 1, 'y': 2}, {}), False, {'x': 1, "
              "'y': 2}, [])), [], [])",
 'decode-empty-list': "(('ok', (('Dataset', {}, {'a': ((), 'int64', {}, {}, True, 'ndarray', 1)}, "
                      '{}, {}, {}), False, {}, [])), [], [])',
 'decode-string': "(('ok', (('Dataset', {}, {'a': ((), 'int64', {}, {}, True, 'ndarray', 1)}, "
                  "{'b': ((), 'int64', {}, {}, True, 'ndarray', 2)}, {}, {}), False, {}, [])), [], "
                  '[])',
 'decode-none': "(('raise', 'ValueError', 'These variables cannot be found in this dataset: "
                "[None]'), [], [])",
 'decode-missing': '((\'raise\', \'ValueError\', "These variables cannot be found in this dataset: '
                   '[\'c\']"), [], [])',
 'decode-already-coord': "(('ok', (('Dataset', {}, {'a': ((), 'int64', {}, {}, True, 'ndarray', "
                         "1)}, {'b': ((), 'int64', {}, {}, True, 'ndarray', 2)}, {}, {}), False, "
                         "{}, ['b'])), [], [])",
 'decode-empty-dataset': "(('ok', (('Dataset', {}, {}, {}, {}, {}), False, {}, [])), [], [])",
 'decode-other-attrs': "(('ok', (('Dataset', {'x': 2}, {'a': (('x',), 'int64', {}, {}, True, "
                       "'ndarray', [1, 2])}, {}, {'Coordinates': ['a']}, {}), False, "
                       "{'Coordinates': ['a']}, [])), [], [])",
 'decode-missing-keeps-attrs': "(('ok', {}), [], [])",
 'decode-not-a-dataset': '((\'raise\', \'AttributeError\', "\'dict\' object has no attribute '
                         '\'attrs\'"), [], [])',
 'decode-dataarray': '((\'raise\', \'AttributeError\', "\'DataArray\' object has no attribute '
                     '\'set_coords\'"), [], [])',
 'to_dataset-empty': "(('ok', ('Dataset', {}, {}, {}, {}, {})), [], [])",
 'to_dataset-attrs': "(('ok', ('Dataset', {}, {}, {}, {'a': 1, 'b': [1, 2], 'c': 'x'}, {})), [], "
                     '[])',
 'to_dataset-variables': "(('ok', ('Dataset', {'x': 3, 'y': 4}, {'a': (('x',), 'int8', {'a': 1}, "
                         "{}, True, 'ndarray', [1, 2, 3]), 'b': (('x', 'y'), 'int64', {'b': "
                         "'abc'}, {}, True, 'ndarray', [[0, 1, 2, 3], [4, 5, 6, 7], [8, 9, 10, "
                         "11]])}, {}, {'n': 1}, {})), [], [])",
 'to_dataset-coords': "(('ok', ('Dataset', {'x': 3, 'y': 4}, {'c': (('x',), 'int8', {'a': 1}, {}, "
                      "True, 'ndarray', [1, 2, 3])}, {'d': (('x', 'y'), 'int64', {'b': 'abc'}, {}, "
                      "True, 'ndarray', [[0, 1, 2, 3], [4, 5, 6, 7], [8, 9, 10, 11]]), 'e': "
                      "(('y',), 'float64', {}, {}, True, 'ndarray', [0.5, 1.5, 2.5, 3.5])}, "
                      "{'other': True}, {})), [], [])",
 'to_dataset-coords-all': "(('ok', ('Dataset', {'x': 2}, {}, {'c': (('x',), 'int64', {}, {}, True, "
                          "'ndarray', [1, 2]), 'd': (('x',), 'int64', {}, {}, True, 'ndarray', [3, "
                          '4])}, {}, {})), [], [])',
 'to_dataset-coords-empty': "(('ok', ('Dataset', {'x': 2}, {'c': (('x',), 'int64', {}, {}, True, "
                            "'ndarray', [1, 2])}, {}, {}, {})), [], [])",
 'to_dataset-coords-string': "(('ok', ('Dataset', {'x': 2}, {}, {'c': (('x',), 'int64', {}, {}, "
                             "True, 'ndarray', [1, 2])}, {}, {})), [], [])",
 'to_dataset-coords-tuple': "(('ok', ('Dataset', {'x': 2}, {}, {'c': (('x',), 'int64', {}, {}, "
                            "True, 'ndarray', [1, 2])}, {}, {})), [], [])",
 'to_dataset-coords-none': "(('raise', 'ValueError', 'These variables cannot be found in this "
                           "dataset: [None]'), [], [])",
 'to_dataset-coords-missing': '((\'raise\', \'ValueError\', "These variables cannot be found in '
                              'this dataset: [\'nope\']"), [], [])',
 'to_dataset-coords-index': "(('ok', ('Dataset', {'x': 2}, {}, {'x': (('x',), 'int64', {}, {}, "
                            "True, 'PandasIndexingAdapter', [10, 20]), 'v': (('x',), 'int64', {}, "
                            "{}, True, 'ndarray', [1, 2])}, {}, {})), [], [])",
 'to_dataset-lazy': "(('ok', ('Dataset', {'rows': 4, 'cols': 6}, {'data': (('rows', 'cols'), "
                    "'uint16', {'units': '1'}, {'preferred_chunksizes': {'rows': 3, 'cols': 6}}, "
                    "False, 'LazilyIndexedArray', [[100, 101, 102, 103, 104, 105], [106, 107, 108, "
                    '109, 110, 111], [112, 113, 114, 115, 116, 117], [118, 119, 120, 121, 122, '
                    "123]])}, {'rows': (('rows',), 'int64', {}, {}, True, 'PandasIndexingAdapter', "
                    "[0, 1, 2, 3]), 'time': (('rows',), 'timedelta64[s]', {'long_name': 't'}, {}, "
                    "True, 'ndarray', [datetime.timedelta(0), datetime.timedelta(seconds=1), "
                    "datetime.timedelta(seconds=2), datetime.timedelta(seconds=3)])}, {'title': "
                    "'lazy'}, {})), [], [])",
 'to_dataset-conflicting-sizes': '((\'raise\', \'ValueError\', "conflicting sizes for dimension '
                                 '\'x\': length 3 on \'b\' and length 2 on {\'x\': \'a\'}"), [], '
                                 '[])',
 'to_dataset-nested': "(('ok', ('Dataset', {'x': 3}, {}, {'a': (('x',), 'int8', {'a': 1}, {}, "
                      "True, 'ndarray', [1, 2, 3])}, {'level': 0}, {})), [], [])",
 'to_dataset-subgroup': "(('ok', ('Dataset', {'x': 3, 'y': 2}, {'b': (('x', 'y'), 'int64', {}, {}, "
                        "True, 'ndarray', [[0, 1], [2, 3], [4, 5]])}, {}, {'level': 1}, {})), [], "
                        '[])',
 'to_dataset-leaf': "(('ok', ('Dataset', {'z': 1}, {}, {'deep': (('z',), 'float64', {}, {}, True, "
                    "'ndarray', [1.5])}, {'level': 2}, {})), [], [])",
 'to_dataset-relative': "(('ok', ('Dataset', {'x': 1}, {'v': (('x',), 'int64', {}, {}, True, "
                        "'ndarray', [1])}, {}, {}, {})), [], [])",
 'to_dataset-chunks-attrs-none': "(('ok', ('Dataset', {}, {}, {}, {'a': 1, 'b': [1, 2], 'c': 'x'}, "
                                 '{})), [], [])',
 'to_dataset-chunks-attrs-empty': '((\'raise\', \'ImportError\', "chunk manager \'dask\' is not '
                                  "available. Please make sure 'dask' is installed and "
                                  'importable."), [], [])',
 'to_dataset-chunks-attrs-x': '((\'raise\', \'ImportError\', "chunk manager \'dask\' is not '
                              "available. Please make sure 'dask' is installed and "
                              'importable."), [], [])',
 'to_dataset-chunks-attrs-xy': '((\'raise\', \'ImportError\', "chunk manager \'dask\' is not '
                               "available. Please make sure 'dask' is installed and "
                               'importable."), [], [])',
 'to_dataset-chunks-attrs-unknown': '((\'raise\', \'ImportError\', "chunk manager \'dask\' is not '
                                    "available. Please make sure 'dask' is installed and "
                                    'importable."), [], [])',
 'to_dataset-chunks-attrs-values': '((\'raise\', \'ImportError\', "chunk manager \'dask\' is not '
                                   "available. Please make sure 'dask' is installed and "
                                   'importable."), [], [])',
 'to_dataset-chunks-attrs-int': '((\'raise\', \'AttributeError\', "\'int\' object has no attribute '
                                '\'items\'"), [], [])',
 'to_dataset-chunks-attrs-auto': '((\'raise\', \'AttributeError\', "\'str\' object has no '
                                 'attribute \'items\'"), [], [])',
 'to_dataset-chunks-attrs-list': '((\'raise\', \'AttributeError\', "\'list\' object has no '
                                 'attribute \'items\'"), [], [])',
 'to_dataset-chunks-attrs-tuple-key': '((\'raise\', \'ImportError\', "chunk manager \'dask\' is '
                                      "not available. Please make sure 'dask' is installed and "
                                      'importable."), [], [])',
 'to_dataset-chunks-variables-none': "(('ok', ('Dataset', {'x': 3, 'y': 4}, {'a': (('x',), 'int8', "
                                     "{'a': 1}, {}, True, 'ndarray', [1, 2, 3]), 'b': (('x', 'y'), "
                                     "'int64', {'b': 'abc'}, {}, True, 'ndarray', [[0, 1, 2, 3], "
                                     "[4, 5, 6, 7], [8, 9, 10, 11]])}, {}, {'n': 1}, {})), [], [])",
 'to_dataset-chunks-variables-empty': '((\'raise\', \'ImportError\', "chunk manager \'dask\' is '
                                      "not available. Please make sure 'dask' is installed and "
                                      'importable."), [], [])',
 'to_dataset-chunks-variables-x': '((\'raise\', \'ImportError\', "chunk manager \'dask\' is not '
                                  "available. Please make sure 'dask' is installed and "
                                  'importable."), [], [])',
 'to_dataset-chunks-variables-xy': '((\'raise\', \'ImportError\', "chunk manager \'dask\' is not '
                                   "available. Please make sure 'dask' is installed and "
                                   'importable."), [], [])',
 'to_dataset-chunks-variables-unknown': '((\'raise\', \'ImportError\', "chunk manager \'dask\' is '
                                        "not available. Please make sure 'dask' is installed and "
                                        'importable."), [], [])',
 'to_dataset-chunks-variables-values': '((\'raise\', \'ImportError\', "chunk manager \'dask\' is '
                                       "not available. Please make sure 'dask' is installed and "
                                       'importable."), [], [])',
 'to_dataset-chunks-variables-int': '((\'raise\', \'AttributeError\', "\'int\' object has no '
                                    'attribute \'items\'"), [], [])',
 'to_dataset-chunks-variables-auto': '((\'raise\', \'AttributeError\', "\'str\' object has no '
                                     'attribute \'items\'"), [], [])',
 'to_dataset-chunks-variables-list': '((\'raise\', \'AttributeError\', "\'list\' object has no '
                                     'attribute \'items\'"), [], [])',
 'to_dataset-chunks-variables-tuple-key': '((\'raise\', \'ImportError\', "chunk manager \'dask\' '
                                          "is not available. Please make sure 'dask' is installed "
                                          'and importable."), [], [])',
 'to_dataset-chunks-lazy-none': "(('ok', ('Dataset', {'rows': 4, 'cols': 6}, {'data': (('rows', "
                                "'cols'), 'uint16', {'units': '1'}, {'preferred_chunksizes': "
                                "{'rows': 3, 'cols': 6}}, False, 'LazilyIndexedArray', [[100, 101, "
                                '102, 103, 104, 105], [106, 107, 108, 109, 110, 111], [112, 113, '
                                "114, 115, 116, 117], [118, 119, 120, 121, 122, 123]])}, {'rows': "
                                "(('rows',), 'int64', {}, {}, True, 'PandasIndexingAdapter', [0, "
                                "1, 2, 3]), 'time': (('rows',), 'timedelta64[s]', {'long_name': "
                                "'t'}, {}, True, 'ndarray', [datetime.timedelta(0), "
                                'datetime.timedelta(seconds=1), datetime.timedelta(seconds=2), '
                                "datetime.timedelta(seconds=3)])}, {'title': 'lazy'}, {})), [], "
                                '[])',
 'to_dataset-chunks-lazy-empty': '((\'raise\', \'ImportError\', "chunk manager \'dask\' is not '
                                 "available. Please make sure 'dask' is installed and "
                                 'importable."), [], [])',
 'to_dataset-chunks-lazy-x': '((\'raise\', \'ImportError\', "chunk manager \'dask\' is not '
                             'available. Please make sure \'dask\' is installed and importable."), '
                             '[], [])',
 'to_dataset-chunks-lazy-xy': '((\'raise\', \'ImportError\', "chunk manager \'dask\' is not '
                              "available. Please make sure 'dask' is installed and "
                              'importable."), [], [])',
 'to_dataset-chunks-lazy-unknown': '((\'raise\', \'ImportError\', "chunk manager \'dask\' is not '
                                   "available. Please make sure 'dask' is installed and "
                                   'importable."), [], [])',
 'to_dataset-chunks-lazy-values': '((\'raise\', \'ImportError\', "chunk manager \'dask\' is not '
                                  "available. Please make sure 'dask' is installed and "
                                  'importable."), [], [])',
 'to_dataset-chunks-lazy-int': '((\'raise\', \'AttributeError\', "\'int\' object has no attribute '
                               '\'items\'"), [], [])',
 'to_dataset-chunks-lazy-auto': '((\'raise\', \'AttributeError\', "\'str\' object has no attribute '
                                '\'items\'"), [], [])',
 'to_dataset-chunks-lazy-list': '((\'raise\', \'AttributeError\', "\'list\' object has no '
                                'attribute \'items\'"), [], [])',
 'to_dataset-chunks-lazy-tuple-key': '((\'raise\', \'ImportError\', "chunk manager \'dask\' is not '
                                     "available. Please make sure 'dask' is installed and "
                                     'importable."), [], [])',
 'to_dataset-recorded-chunks-empty-none': "(('ok', ('Dataset', {}, {}, {}, {}, {})), [], [])",
 'to_dataset-recorded-chunks-empty-empty': "(('ok', ('Dataset', {}, {}, {}, {'chunked': '{}'}, "
                                           "{})), [('chunk', [], '{}', [], (), {})], [])",
 'to_dataset-recorded-chunks-empty-x': "(('ok', ('Dataset', {}, {}, {}, {'chunked': '{}'}, {})), "
                                       "[('chunk', [], '{}', [], (), {})], [])",
 'to_dataset-recorded-chunks-empty-xy': "(('ok', ('Dataset', {}, {}, {}, {'chunked': '{}'}, {})), "
                                        "[('chunk', [], '{}', [], (), {})], [])",
 'to_dataset-recorded-chunks-empty-unknown': "(('ok', ('Dataset', {}, {}, {}, {'chunked': '{}'}, "
                                             "{})), [('chunk', [], '{}', [], (), {})], [])",
 'to_dataset-recorded-chunks-empty-values': "(('ok', ('Dataset', {}, {}, {}, {'chunked': '{}'}, "
                                            "{})), [('chunk', [], '{}', [], (), {})], [])",
 'to_dataset-recorded-chunks-empty-int': '((\'raise\', \'AttributeError\', "\'int\' object has no '
                                         'attribute \'items\'"), [], [])',
 'to_dataset-recorded-chunks-empty-auto': '((\'raise\', \'AttributeError\', "\'str\' object has no '
                                          'attribute \'items\'"), [], [])',
 'to_dataset-recorded-chunks-empty-list': '((\'raise\', \'AttributeError\', "\'list\' object has '
                                          'no attribute \'items\'"), [], [])',
 'to_dataset-recorded-chunks-empty-tuple-key': "(('ok', ('Dataset', {}, {}, {}, {'chunked': '{}'}, "
                                               "{})), [('chunk', [], '{}', [], (), {})], [])",
 'to_dataset-recorded-chunks-variables-none': "(('ok', ('Dataset', {'x': 3, 'y': 4}, {'a': "
                                              "(('x',), 'int8', {'a': 1}, {}, True, 'ndarray', [1, "
                                              "2, 3]), 'b': (('x', 'y'), 'int64', {'b': 'abc'}, "
                                              "{}, True, 'ndarray', [[0, 1, 2, 3], [4, 5, 6, 7], "
                                              "[8, 9, 10, 11]])}, {}, {'n': 1}, {})), [], [])",
 'to_dataset-recorded-chunks-variables-empty': "(('ok', ('Dataset', {'x': 3, 'y': 4}, {'a': "
                                               "(('x',), 'int8', {'a': 1}, {}, True, 'ndarray', "
                                               "[1, 2, 3]), 'b': (('x', 'y'), 'int64', {'b': "
                                               "'abc'}, {}, True, 'ndarray', [[0, 1, 2, 3], [4, 5, "
                                               "6, 7], [8, 9, 10, 11]])}, {}, {'n': 1, 'chunked': "
                                               "'{}'}, {})), [('chunk', ['a', 'b'], '{}', [], (), "
                                               '{})], [])',
 'to_dataset-recorded-chunks-variables-x': "(('ok', ('Dataset', {'x': 3, 'y': 4}, {'a': (('x',), "
                                           "'int8', {'a': 1}, {}, True, 'ndarray', [1, 2, 3]), "
                                           "'b': (('x', 'y'), 'int64', {'b': 'abc'}, {}, True, "
                                           "'ndarray', [[0, 1, 2, 3], [4, 5, 6, 7], [8, 9, 10, "
                                           '11]])}, {}, {\'n\': 1, \'chunked\': "{\'x\': 1}"}, '
                                           '{})), [(\'chunk\', [\'a\', \'b\'], "{\'x\': 1}", '
                                           "['x'], (), {})], [])",
 'to_dataset-recorded-chunks-variables-xy': "(('ok', ('Dataset', {'x': 3, 'y': 4}, {'a': (('x',), "
                                            "'int8', {'a': 1}, {}, True, 'ndarray', [1, 2, 3]), "
                                            "'b': (('x', 'y'), 'int64', {'b': 'abc'}, {}, True, "
                                            "'ndarray', [[0, 1, 2, 3], [4, 5, 6, 7], [8, 9, 10, "
                                            '11]])}, {}, {\'n\': 1, \'chunked\': "{\'y\': 2, '
                                            '\'x\': 1}"}, {})), [(\'chunk\', [\'a\', \'b\'], '
                                            '"{\'y\': 2, \'x\': 1}", [\'y\', \'x\'], (), {})], [])',
 'to_dataset-recorded-chunks-variables-unknown': "(('ok', ('Dataset', {'x': 3, 'y': 4}, {'a': "
                                                 "(('x',), 'int8', {'a': 1}, {}, True, 'ndarray', "
                                                 "[1, 2, 3]), 'b': (('x', 'y'), 'int64', {'b': "
                                                 "'abc'}, {}, True, 'ndarray', [[0, 1, 2, 3], [4, "
                                                 "5, 6, 7], [8, 9, 10, 11]])}, {}, {'n': 1, "
                                                 "'chunked': '{}'}, {})), [('chunk', ['a', 'b'], "
                                                 "'{}', [], (), {})], [])",
 'to_dataset-recorded-chunks-variables-values': "(('ok', ('Dataset', {'x': 3, 'y': 4}, {'a': "
                                                "(('x',), 'int8', {'a': 1}, {}, True, 'ndarray', "
                                                "[1, 2, 3]), 'b': (('x', 'y'), 'int64', {'b': "
                                                "'abc'}, {}, True, 'ndarray', [[0, 1, 2, 3], [4, "
                                                "5, 6, 7], [8, 9, 10, 11]])}, {}, {'n': 1, "
                                                '\'chunked\': "{\'x\': \'auto\', \'y\': -1}"}, '
                                                '{})), [(\'chunk\', [\'a\', \'b\'], "{\'x\': '
                                                '\'auto\', \'y\': -1}", [\'x\', \'y\'], (), {})], '
                                                '[])',
 'to_dataset-recorded-chunks-variables-int': '((\'raise\', \'AttributeError\', "\'int\' object has '
                                             'no attribute \'items\'"), [], [])',
 'to_dataset-recorded-chunks-variables-auto': '((\'raise\', \'AttributeError\', "\'str\' object '
                                              'has no attribute \'items\'"), [], [])',
 'to_dataset-recorded-chunks-variables-list': '((\'raise\', \'AttributeError\', "\'list\' object '
                                              'has no attribute \'items\'"), [], [])',
 'to_dataset-recorded-chunks-variables-tuple-key': "(('ok', ('Dataset', {'x': 3, 'y': 4}, {'a': "
                                                   "(('x',), 'int8', {'a': 1}, {}, True, "
                                                   "'ndarray', [1, 2, 3]), 'b': (('x', 'y'), "
                                                   "'int64', {'b': 'abc'}, {}, True, 'ndarray', "
                                                   '[[0, 1, 2, 3], [4, 5, 6, 7], [8, 9, 10, '
                                                   '11]])}, {}, {\'n\': 1, \'chunked\': "{\'x\': '
                                                   '2}"}, {})), [(\'chunk\', [\'a\', \'b\'], '
                                                   '"{\'x\': 2}", [\'x\'], (), {})], [])',
 'to_dataset-recorded-chunks-coords-none': "(('ok', ('Dataset', {'x': 3, 'y': 4}, {'c': (('x',), "
                                           "'int8', {'a': 1}, {}, True, 'ndarray', [1, 2, 3])}, "
                                           "{'d': (('x', 'y'), 'int64', {'b': 'abc'}, {}, True, "
                                           "'ndarray', [[0, 1, 2, 3], [4, 5, 6, 7], [8, 9, 10, "
                                           "11]]), 'e': (('y',), 'float64', {}, {}, True, "
                                           "'ndarray', [0.5, 1.5, 2.5, 3.5])}, {'other': True}, "
                                           '{})), [], [])',
 'to_dataset-recorded-chunks-coords-empty': "(('ok', ('Dataset', {'x': 3, 'y': 4}, {'c': (('x',), "
                                            "'int8', {'a': 1}, {}, True, 'ndarray', [1, 2, 3])}, "
                                            "{'d': (('x', 'y'), 'int64', {'b': 'abc'}, {}, True, "
                                            "'ndarray', [[0, 1, 2, 3], [4, 5, 6, 7], [8, 9, 10, "
                                            "11]]), 'e': (('y',), 'float64', {}, {}, True, "
                                            "'ndarray', [0.5, 1.5, 2.5, 3.5])}, {'other': True, "
                                            "'chunked': '{}'}, {})), [('chunk', ['c', 'd', 'e'], "
                                            "'{}', [], (), {})], [])",
 'to_dataset-recorded-chunks-coords-x': "(('ok', ('Dataset', {'x': 3, 'y': 4}, {'c': (('x',), "
                                        "'int8', {'a': 1}, {}, True, 'ndarray', [1, 2, 3])}, {'d': "
                                        "(('x', 'y'), 'int64', {'b': 'abc'}, {}, True, 'ndarray', "
                                        "[[0, 1, 2, 3], [4, 5, 6, 7], [8, 9, 10, 11]]), 'e': "
                                        "(('y',), 'float64', {}, {}, True, 'ndarray', [0.5, 1.5, "
                                        '2.5, 3.5])}, {\'other\': True, \'chunked\': "{\'x\': '
                                        '1}"}, {})), [(\'chunk\', [\'c\', \'d\', \'e\'], "{\'x\': '
                                        '1}", [\'x\'], (), {})], [])',
 'to_dataset-recorded-chunks-coords-xy': "(('ok', ('Dataset', {'x': 3, 'y': 4}, {'c': (('x',), "
                                         "'int8', {'a': 1}, {}, True, 'ndarray', [1, 2, 3])}, "
                                         "{'d': (('x', 'y'), 'int64', {'b': 'abc'}, {}, True, "
                                         "'ndarray', [[0, 1, 2, 3], [4, 5, 6, 7], [8, 9, 10, "
                                         "11]]), 'e': (('y',), 'float64', {}, {}, True, 'ndarray', "
                                         "[0.5, 1.5, 2.5, 3.5])}, {'other': True, 'chunked': "
                                         '"{\'y\': 2, \'x\': 1}"}, {})), [(\'chunk\', [\'c\', '
                                         '\'d\', \'e\'], "{\'y\': 2, \'x\': 1}", [\'y\', \'x\'], '
                                         '(), {})], [])',
 'to_dataset-recorded-chunks-coords-unknown': "(('ok', ('Dataset', {'x': 3, 'y': 4}, {'c': "
                                              "(('x',), 'int8', {'a': 1}, {}, True, 'ndarray', [1, "
                                              "2, 3])}, {'d': (('x', 'y'), 'int64', {'b': 'abc'}, "
                                              "{}, True, 'ndarray', [[0, 1, 2, 3], [4, 5, 6, 7], "
                                              "[8, 9, 10, 11]]), 'e': (('y',), 'float64', {}, {}, "
                                              "True, 'ndarray', [0.5, 1.5, 2.5, 3.5])}, {'other': "
                                              "True, 'chunked': '{}'}, {})), [('chunk', ['c', 'd', "
                                              "'e'], '{}', [], (), {})], [])",
 'to_dataset-recorded-chunks-coords-values': "(('ok', ('Dataset', {'x': 3, 'y': 4}, {'c': (('x',), "
                                             "'int8', {'a': 1}, {}, True, 'ndarray', [1, 2, 3])}, "
                                             "{'d': (('x', 'y'), 'int64', {'b': 'abc'}, {}, True, "
                                             "'ndarray', [[0, 1, 2, 3], [4, 5, 6, 7], [8, 9, 10, "
                                             "11]]), 'e': (('y',), 'float64', {}, {}, True, "
                                             "'ndarray', [0.5, 1.5, 2.5, 3.5])}, {'other': True, "
                                             '\'chunked\': "{\'x\': \'auto\', \'y\': -1}"}, {})), '
                                             '[(\'chunk\', [\'c\', \'d\', \'e\'], "{\'x\': '
                                             '\'auto\', \'y\': -1}", [\'x\', \'y\'], (), {})], [])',
 'to_dataset-recorded-chunks-coords-int': '((\'raise\', \'AttributeError\', "\'int\' object has no '
                                          'attribute \'items\'"), [], [])',
 'to_dataset-recorded-chunks-coords-auto': '((\'raise\', \'AttributeError\', "\'str\' object has '
                                           'no attribute \'items\'"), [], [])',
 'to_dataset-recorded-chunks-coords-list': '((\'raise\', \'AttributeError\', "\'list\' object has '
                                           'no attribute \'items\'"), [], [])',
 'to_dataset-recorded-chunks-coords-tuple-key': "(('ok', ('Dataset', {'x': 3, 'y': 4}, {'c': "
                                                "(('x',), 'int8', {'a': 1}, {}, True, 'ndarray', "
                                                "[1, 2, 3])}, {'d': (('x', 'y'), 'int64', {'b': "
                                                "'abc'}, {}, True, 'ndarray', [[0, 1, 2, 3], [4, "
                                                "5, 6, 7], [8, 9, 10, 11]]), 'e': (('y',), "
                                                "'float64', {}, {}, True, 'ndarray', [0.5, 1.5, "
                                                "2.5, 3.5])}, {'other': True, 'chunked': "
                                                '"{\'x\': 2}"}, {})), [(\'chunk\', [\'c\', \'d\', '
                                                '\'e\'], "{\'x\': 2}", [\'x\'], (), {})], [])',
 'to_dataset-recorded-chunks-coords-missing-none': '((\'raise\', \'ValueError\', "These variables '
                                                   'cannot be found in this dataset: [\'nope\']"), '
                                                   '[], [])',
 'to_dataset-recorded-chunks-coords-missing-empty': '((\'raise\', \'ValueError\', "These variables '
                                                    'cannot be found in this dataset: '
                                                    '[\'nope\']"), [], [])',
 'to_dataset-recorded-chunks-coords-missing-x': '((\'raise\', \'ValueError\', "These variables '
                                                'cannot be found in this dataset: [\'nope\']"), '
                                                '[], [])',
 'to_dataset-recorded-chunks-coords-missing-xy': '((\'raise\', \'ValueError\', "These variables '
                                                 'cannot be found in this dataset: [\'nope\']"), '
                                                 '[], [])',
 'to_dataset-recorded-chunks-coords-missing-unknown': '((\'raise\', \'ValueError\', "These '
                                                      'variables cannot be found in this dataset: '
                                                      '[\'nope\']"), [], [])',
 'to_dataset-recorded-chunks-coords-missing-values': '((\'raise\', \'ValueError\', "These '
                                                     'variables cannot be found in this dataset: '
                                                     '[\'nope\']"), [], [])',
 'to_dataset-recorded-chunks-coords-missing-int': '((\'raise\', \'ValueError\', "These variables '
                                                  'cannot be found in this dataset: [\'nope\']"), '
                                                  '[], [])',
 'to_dataset-recorded-chunks-coords-missing-auto': '((\'raise\', \'ValueError\', "These variables '
                                                   'cannot be found in this dataset: [\'nope\']"), '
                                                   '[], [])',
 'to_dataset-recorded-chunks-coords-missing-list': '((\'raise\', \'ValueError\', "These variables '
                                                   'cannot be found in this dataset: [\'nope\']"), '
                                                   '[], [])',
 'to_dataset-recorded-chunks-coords-missing-tuple-key': '((\'raise\', \'ValueError\', "These '
                                                        'variables cannot be found in this '
                                                        'dataset: [\'nope\']"), [], [])',
 'to_dataset-recorded-chunks-lazy-none': "(('ok', ('Dataset', {'rows': 4, 'cols': 6}, {'data': "
                                         "(('rows', 'cols'), 'uint16', {'units': '1'}, "
                                         "{'preferred_chunksizes': {'rows': 3, 'cols': 6}}, False, "
                                         "'LazilyIndexedArray', [[100, 101, 102, 103, 104, 105], "
                                         '[106, 107, 108, 109, 110, 111], [112, 113, 114, 115, '
                                         "116, 117], [118, 119, 120, 121, 122, 123]])}, {'rows': "
                                         "(('rows',), 'int64', {}, {}, True, "
                                         "'PandasIndexingAdapter', [0, 1, 2, 3]), 'time': "
                                         "(('rows',), 'timedelta64[s]', {'long_name': 't'}, {}, "
                                         "True, 'ndarray', [datetime.timedelta(0), "
                                         'datetime.timedelta(seconds=1), '
                                         'datetime.timedelta(seconds=2), '
                                         "datetime.timedelta(seconds=3)])}, {'title': 'lazy'}, "
                                         '{})), [], [])',
 'to_dataset-recorded-chunks-lazy-empty': "(('ok', ('Dataset', {'rows': 4, 'cols': 6}, {'data': "
                                          "(('rows', 'cols'), 'uint16', {'units': '1'}, "
                                          "{'preferred_chunksizes': {'rows': 3, 'cols': 6}}, "
                                          "False, 'LazilyIndexedArray', [[100, 101, 102, 103, 104, "
                                          '105], [106, 107, 108, 109, 110, 111], [112, 113, 114, '
                                          '115, 116, 117], [118, 119, 120, 121, 122, 123]])}, '
                                          "{'rows': (('rows',), 'int64', {}, {}, True, "
                                          "'PandasIndexingAdapter', [0, 1, 2, 3]), 'time': "
                                          "(('rows',), 'timedelta64[s]', {'long_name': 't'}, {}, "
                                          "True, 'ndarray', [datetime.timedelta(0), "
                                          'datetime.timedelta(seconds=1), '
                                          'datetime.timedelta(seconds=2), '
                                          "datetime.timedelta(seconds=3)])}, {'title': 'lazy', "
                                          "'chunked': '{}'}, {})), [('chunk', ['data', 'rows', "
                                          "'time'], '{}', [], (), {})], [])",
 'to_dataset-recorded-chunks-lazy-x': "(('ok', ('Dataset', {'rows': 4, 'cols': 6}, {'data': "
                                      "(('rows', 'cols'), 'uint16', {'units': '1'}, "
                                      "{'preferred_chunksizes': {'rows': 3, 'cols': 6}}, False, "
                                      "'LazilyIndexedArray', [[100, 101, 102, 103, 104, 105], "
                                      '[106, 107, 108, 109, 110, 111], [112, 113, 114, 115, 116, '
                                      "117], [118, 119, 120, 121, 122, 123]])}, {'rows': "
                                      "(('rows',), 'int64', {}, {}, True, 'PandasIndexingAdapter', "
                                      "[0, 1, 2, 3]), 'time': (('rows',), 'timedelta64[s]', "
                                      "{'long_name': 't'}, {}, True, 'ndarray', "
                                      '[datetime.timedelta(0), datetime.timedelta(seconds=1), '
                                      'datetime.timedelta(seconds=2), '
                                      "datetime.timedelta(seconds=3)])}, {'title': 'lazy', "
                                      "'chunked': '{}'}, {})), [('chunk', ['data', 'rows', "
                                      "'time'], '{}', [], (), {})], [])",
 'to_dataset-recorded-chunks-lazy-xy': "(('ok', ('Dataset', {'rows': 4, 'cols': 6}, {'data': "
                                       "(('rows', 'cols'), 'uint16', {'units': '1'}, "
                                       "{'preferred_chunksizes': {'rows': 3, 'cols': 6}}, False, "
                                       "'LazilyIndexedArray', [[100, 101, 102, 103, 104, 105], "
                                       '[106, 107, 108, 109, 110, 111], [112, 113, 114, 115, 116, '
                                       "117], [118, 119, 120, 121, 122, 123]])}, {'rows': "
                                       "(('rows',), 'int64', {}, {}, True, "
                                       "'PandasIndexingAdapter', [0, 1, 2, 3]), 'time': "
                                       "(('rows',), 'timedelta64[s]', {'long_name': 't'}, {}, "
                                       "True, 'ndarray', [datetime.timedelta(0), "
                                       'datetime.timedelta(seconds=1), '
                                       'datetime.timedelta(seconds=2), '
                                       "datetime.timedelta(seconds=3)])}, {'title': 'lazy', "
                                       "'chunked': '{}'}, {})), [('chunk', ['data', 'rows', "
                                       "'time'], '{}', [], (), {})], [])",
 'to_dataset-recorded-chunks-lazy-unknown': "(('ok', ('Dataset', {'rows': 4, 'cols': 6}, {'data': "
                                            "(('rows', 'cols'), 'uint16', {'units': '1'}, "
                                            "{'preferred_chunksizes': {'rows': 3, 'cols': 6}}, "
                                            "False, 'LazilyIndexedArray', [[100, 101, 102, 103, "
                                            '104, 105], [106, 107, 108, 109, 110, 111], [112, 113, '
                                            '114, 115, 116, 117], [118, 119, 120, 121, 122, '
                                            "123]])}, {'rows': (('rows',), 'int64', {}, {}, True, "
                                            "'PandasIndexingAdapter', [0, 1, 2, 3]), 'time': "
                                            "(('rows',), 'timedelta64[s]', {'long_name': 't'}, {}, "
                                            "True, 'ndarray', [datetime.timedelta(0), "
                                            'datetime.timedelta(seconds=1), '
                                            'datetime.timedelta(seconds=2), '
                                            "datetime.timedelta(seconds=3)])}, {'title': 'lazy', "
                                            '\'chunked\': "{\'rows\': 2}"}, {})), [(\'chunk\', '
                                            '[\'data\', \'rows\', \'time\'], "{\'rows\': 2}", '
                                            "['rows'], (), {})], [])",
 'to_dataset-recorded-chunks-lazy-values': "(('ok', ('Dataset', {'rows': 4, 'cols': 6}, {'data': "
                                           "(('rows', 'cols'), 'uint16', {'units': '1'}, "
                                           "{'preferred_chunksizes': {'rows': 3, 'cols': 6}}, "
                                           "False, 'LazilyIndexedArray', [[100, 101, 102, 103, "
                                           '104, 105], [106, 107, 108, 109, 110, 111], [112, 113, '
                                           '114, 115, 116, 117], [118, 119, 120, 121, 122, '
                                           "123]])}, {'rows': (('rows',), 'int64', {}, {}, True, "
                                           "'PandasIndexingAdapter', [0, 1, 2, 3]), 'time': "
                                           "(('rows',), 'timedelta64[s]', {'long_name': 't'}, {}, "
                                           "True, 'ndarray', [datetime.timedelta(0), "
                                           'datetime.timedelta(seconds=1), '
                                           'datetime.timedelta(seconds=2), '
                                           "datetime.timedelta(seconds=3)])}, {'title': 'lazy', "
                                           '\'chunked\': "{\'rows\': None, \'cols\': (3, 3)}"}, '
                                           "{})), [('chunk', ['data', 'rows', 'time'], "
                                           '"{\'rows\': None, \'cols\': (3, 3)}", [\'rows\', '
                                           "'cols'], (), {})], [])",
 'to_dataset-recorded-chunks-lazy-int': '((\'raise\', \'AttributeError\', "\'int\' object has no '
                                        'attribute \'items\'"), [], [])',
 'to_dataset-recorded-chunks-lazy-auto': '((\'raise\', \'AttributeError\', "\'str\' object has no '
                                         'attribute \'items\'"), [], [])',
 'to_dataset-recorded-chunks-lazy-list': '((\'raise\', \'AttributeError\', "\'list\' object has no '
                                         'attribute \'items\'"), [], [])',
 'to_dataset-recorded-chunks-lazy-tuple-key': "(('ok', ('Dataset', {'rows': 4, 'cols': 6}, "
                                              "{'data': (('rows', 'cols'), 'uint16', {'units': "
                                              "'1'}, {'preferred_chunksizes': {'rows': 3, 'cols': "
                                              "6}}, False, 'LazilyIndexedArray', [[100, 101, 102, "
                                              '103, 104, 105], [106, 107, 108, 109, 110, 111], '
                                              '[112, 113, 114, 115, 116, 117], [118, 119, 120, '
                                              "121, 122, 123]])}, {'rows': (('rows',), 'int64', "
                                              "{}, {}, True, 'PandasIndexingAdapter', [0, 1, 2, "
                                              "3]), 'time': (('rows',), 'timedelta64[s]', "
                                              "{'long_name': 't'}, {}, True, 'ndarray', "
                                              '[datetime.timedelta(0), '
                                              'datetime.timedelta(seconds=1), '
                                              'datetime.timedelta(seconds=2), '
                                              "datetime.timedelta(seconds=3)])}, {'title': 'lazy', "
                                              "'chunked': '{}'}, {})), [('chunk', ['data', 'rows', "
                                              "'time'], '{}', [], (), {})], [])",
 'to_dataset-positional-chunks': "(('ok', ('Dataset', {'x': 3, 'y': 4}, {'a': (('x',), 'int8', "
                                 "{'a': 1}, {}, True, 'ndarray', [1, 2, 3]), 'b': (('x', 'y'), "
                                 "'int64', {'b': 'abc'}, {}, True, 'ndarray', [[0, 1, 2, 3], [4, "
                                 "5, 6, 7], [8, 9, 10, 11]])}, {}, {'n': 1, 'chunked': "
                                 '"{\'y\': 2}"}, {})), [(\'chunk\', [\'a\', \'b\'], "{\'y\': 2}", '
                                 "['y'], (), {})], [])",
 'to_dataset-attrs-untouched': "(('ok', [(True, True, ['coordinates', 'other']), (True, True, "
                               "['a', 'b', 'c']), (True, True, ['level', 'coordinates']), (True, "
                               "True, ['coordinates', 'title'])]), [], [])",
 'to_dataset-not-a-group': '((\'raise\', \'AttributeError\', "\'dict\' object has no attribute '
                           '\'variables\'"), [], [])',
 'to_dataset-variable': '((\'raise\', \'AttributeError\', "\'Variable\' object has no attribute '
                        '\'variables\'"), [], [])',
 'to_dataset-order': "(('ok', [['c', 'd', 'e'], ['data', 'rows', 'time'], ['a']]), [], [])",
 'to_datatree-empty': "(('ok', ('DataTree', [('/', None, ('Dataset', {}, {}, {}, {}, {}))])), [], "
                      '[])',
 'to_datatree-attrs': "(('ok', ('DataTree', [('/', None, ('Dataset', {}, {}, {}, {'a': 1, 'b': [1, "
                      "2], 'c': 'x'}, {}))])), [], [])",
 'to_datatree-variables': "(('ok', ('DataTree', [('/', None, ('Dataset', {'x': 3, 'y': 4}, {'a': "
                          "(('x',), 'int8', {'a': 1}, {}, True, 'ndarray', [1, 2, 3]), 'b': (('x', "
                          "'y'), 'int64', {'b': 'abc'}, {}, True, 'ndarray', [[0, 1, 2, 3], [4, 5, "
                          "6, 7], [8, 9, 10, 11]])}, {}, {'n': 1}, {}))])), [], [])",
 'to_datatree-coords': "(('ok', ('DataTree', [('/', None, ('Dataset', {'x': 3, 'y': 4}, {'c': "
                       "(('x',), 'int8', {'a': 1}, {}, True, 'ndarray', [1, 2, 3])}, {'d': (('x', "
                       "'y'), 'int64', {'b': 'abc'}, {}, True, 'ndarray', [[0, 1, 2, 3], [4, 5, 6, "
                       "7], [8, 9, 10, 11]]), 'e': (('y',), 'float64', {}, {}, True, 'ndarray', "
                       "[0.5, 1.5, 2.5, 3.5])}, {'other': True}, {}))])), [], [])",
 'to_datatree-coords-all': "(('ok', ('DataTree', [('/', None, ('Dataset', {'x': 2}, {}, {'c': "
                           "(('x',), 'int64', {}, {}, True, 'ndarray', [1, 2]), 'd': (('x',), "
                           "'int64', {}, {}, True, 'ndarray', [3, 4])}, {}, {}))])), [], [])",
 'to_datatree-coords-empty': "(('ok', ('DataTree', [('/', None, ('Dataset', {'x': 2}, {'c': "
                             "(('x',), 'int64', {}, {}, True, 'ndarray', [1, 2])}, {}, {}, "
                             '{}))])), [], [])',
 'to_datatree-coords-string': "(('ok', ('DataTree', [('/', None, ('Dataset', {'x': 2}, {}, {'c': "
                              "(('x',), 'int64', {}, {}, True, 'ndarray', [1, 2])}, {}, {}))])), "
                              '[], [])',
 'to_datatree-coords-tuple': "(('ok', ('DataTree', [('/', None, ('Dataset', {'x': 2}, {}, {'c': "
                             "(('x',), 'int64', {}, {}, True, 'ndarray', [1, 2])}, {}, {}))])), "
                             '[], [])',
 'to_datatree-coords-none': "(('raise', 'ValueError', 'These variables cannot be found in this "
                            "dataset: [None]'), [], [])",
 'to_datatree-coords-missing': '((\'raise\', \'ValueError\', "These variables cannot be found in '
                               'this dataset: [\'nope\']"), [], [])',
 'to_datatree-coords-index': "(('ok', ('DataTree', [('/', None, ('Dataset', {'x': 2}, {}, {'x': "
                             "(('x',), 'int64', {}, {}, True, 'PandasIndexingAdapter', [10, 20]), "
                             "'v': (('x',), 'int64', {}, {}, True, 'ndarray', [1, 2])}, {}, "
                             '{}))])), [], [])',
 'to_datatree-lazy': "(('ok', ('DataTree', [('/', None, ('Dataset', {'rows': 4, 'cols': 6}, "
                     "{'data': (('rows', 'cols'), 'uint16', {'units': '1'}, "
                     "{'preferred_chunksizes': {'rows': 3, 'cols': 6}}, False, "
                     "'LazilyIndexedArray', [[100, 101, 102, 103, 104, 105], [106, 107, 108, 109, "
                     '110, 111], [112, 113, 114, 115, 116, 117], [118, 119, 120, 121, 122, '
                     "123]])}, {'rows': (('rows',), 'int64', {}, {}, True, "
                     "'PandasIndexingAdapter', [0, 1, 2, 3]), 'time': (('rows',), "
                     "'timedelta64[s]', {'long_name': 't'}, {}, True, 'ndarray', "
                     '[datetime.timedelta(0), datetime.timedelta(seconds=1), '
                     "datetime.timedelta(seconds=2), datetime.timedelta(seconds=3)])}, {'title': "
                     "'lazy'}, {}))])), [], [])",
 'to_datatree-conflicting-sizes': '((\'raise\', \'ValueError\', "conflicting sizes for dimension '
                                  '\'x\': length 3 on \'b\' and length 2 on {\'x\': \'a\'}"), [], '
                                  '[])',
 'to_datatree-nested': "(('ok', ('DataTree', [('/', None, ('Dataset', {'x': 3}, {}, {'a': (('x',), "
                       "'int8', {'a': 1}, {}, True, 'ndarray', [1, 2, 3])}, {'level': 0}, {})), "
                       "('/g1', 'g1', ('Dataset', {'x': 3, 'y': 2}, {'b': (('x', 'y'), 'int64', "
                       "{}, {}, True, 'ndarray', [[0, 1], [2, 3], [4, 5]])}, {}, {'level': 1}, "
                       "{})), ('/g2', 'g2', ('Dataset', {'rows': 4, 'cols': 6}, {'lazy': (('rows', "
                       "'cols'), 'uint16', {}, {'preferred_chunksizes': {'rows': 2, 'cols': 6}}, "
                       "False, 'LazilyIndexedArray', [[100, 101, 102, 103, 104, 105], [106, 107, "
                       '108, 109, 110, 111], [112, 113, 114, 115, 116, 117], [118, 119, 120, 121, '
                       "122, 123]])}, {}, {'level': 1}, {})), ('/g1/g11', 'g11', ('Dataset', {'z': "
                       "1}, {}, {'deep': (('z',), 'float64', {}, {}, True, 'ndarray', [1.5])}, "
                       "{'level': 2}, {})), ('/g1/g12', 'g12', ('Dataset', {}, {}, {}, {'empty': "
                       'True}, {}))])), [], [])',
 'to_datatree-subgroup': "(('ok', ('DataTree', [('/', None, ('Dataset', {'x': 3, 'y': 2}, {'b': "
                         "(('x', 'y'), 'int64', {}, {}, True, 'ndarray', [[0, 1], [2, 3], [4, "
                         "5]])}, {}, {'level': 1}, {})), ('/g1', 'g1', ('Dataset', {'x': 3, 'y': "
                         "2}, {'b': (('x', 'y'), 'int64', {}, {}, True, 'ndarray', [[0, 1], [2, "
                         "3], [4, 5]])}, {}, {'level': 1}, {})), ('/g1/g11', 'g11', ('Dataset', "
                         "{'z': 1}, {}, {'deep': (('z',), 'float64', {}, {}, True, 'ndarray', "
                         "[1.5])}, {'level': 2}, {})), ('/g1/g12', 'g12', ('Dataset', {}, {}, {}, "
                         "{'empty': True}, {}))])), [], [])",
 'to_datatree-leaf': "(('ok', ('DataTree', [('/', None, ('Dataset', {'z': 1}, {}, {'deep': "
                     "(('z',), 'float64', {}, {}, True, 'ndarray', [1.5])}, {'level': 2}, {})), "
                     "('/g1', 'g1', ('Dataset', {}, {}, {}, {}, {})), ('/g1/g11', 'g11', "
                     "('Dataset', {'z': 1}, {}, {'deep': (('z',), 'float64', {}, {}, True, "
                     "'ndarray', [1.5])}, {'level': 2}, {}))])), [], [])",
 'to_datatree-relative': "(('ok', ('DataTree', [('/', None, ('Dataset', {'x': 1}, {'v': (('x',), "
                         "'int64', {}, {}, True, 'ndarray', [1])}, {}, {}, {})), ('/rel', 'rel', "
                         "('Dataset', {'x': 1}, {'v': (('x',), 'int64', {}, {}, True, 'ndarray', "
                         "[1])}, {}, {}, {})), ('/rel/sub', 'sub', ('Dataset', {'x': 1}, {'w': "
                         "(('x',), 'int64', {}, {}, True, 'ndarray', [2])}, {}, {}, {}))])), [], "
                         '[])',
 'to_datatree-chunks-attrs-none': "(('ok', ('DataTree', [('/', None, ('Dataset', {}, {}, {}, {'a': "
                                  "1, 'b': [1, 2], 'c': 'x'}, {}))])), [], [])",
 'to_datatree-chunks-attrs-empty': '((\'raise\', \'ImportError\', "chunk manager \'dask\' is not '
                                   "available. Please make sure 'dask' is installed and "
                                   'importable."), [], [])',
 'to_datatree-chunks-attrs-x': '((\'raise\', \'ImportError\', "chunk manager \'dask\' is not '
                               "available. Please make sure 'dask' is installed and "
                               'importable."), [], [])',
 'to_datatree-chunks-attrs-xy': '((\'raise\', \'ImportError\', "chunk manager \'dask\' is not '
                                "available. Please make sure 'dask' is installed and "
                                'importable."), [], [])',
 'to_datatree-chunks-attrs-unknown': '((\'raise\', \'ImportError\', "chunk manager \'dask\' is not '
                                     "available. Please make sure 'dask' is installed and "
                                     'importable."), [], [])',
 'to_datatree-chunks-attrs-values': '((\'raise\', \'ImportError\', "chunk manager \'dask\' is not '
                                    "available. Please make sure 'dask' is installed and "
                                    'importable."), [], [])',
 'to_datatree-chunks-attrs-int': '((\'raise\', \'AttributeError\', "\'int\' object has no '
                                 'attribute \'items\'"), [], [])',
 'to_datatree-chunks-attrs-auto': '((\'raise\', \'AttributeError\', "\'str\' object has no '
                                  'attribute \'items\'"), [], [])',
 'to_datatree-chunks-attrs-list': '((\'raise\', \'AttributeError\', "\'list\' object has no '
                                  'attribute \'items\'"), [], [])',
 'to_datatree-chunks-attrs-tuple-key': '((\'raise\', \'ImportError\', "chunk manager \'dask\' is '
                                       "not available. Please make sure 'dask' is installed and "
                                       'importable."), [], [])',
 'to_datatree-chunks-nested-none': "(('ok', ('DataTree', [('/', None, ('Dataset', {'x': 3}, {}, "
                                   "{'a': (('x',), 'int8', {'a': 1}, {}, True, 'ndarray', [1, 2, "
                                   "3])}, {'level': 0}, {})), ('/g1', 'g1', ('Dataset', {'x': 3, "
                                   "'y': 2}, {'b': (('x', 'y'), 'int64', {}, {}, True, 'ndarray', "
                                   "[[0, 1], [2, 3], [4, 5]])}, {}, {'level': 1}, {})), ('/g2', "
                                   "'g2', ('Dataset', {'rows': 4, 'cols': 6}, {'lazy': (('rows', "
                                   "'cols'), 'uint16', {}, {'preferred_chunksizes': {'rows': 2, "
                                   "'cols': 6}}, False, 'LazilyIndexedArray', [[100, 101, 102, "
                                   '103, 104, 105], [106, 107, 108, 109, 110, 111], [112, 113, '
                                   '114, 115, 116, 117], [118, 119, 120, 121, 122, 123]])}, {}, '
                                   "{'level': 1}, {})), ('/g1/g11', 'g11', ('Dataset', {'z': 1}, "
                                   "{}, {'deep': (('z',), 'float64', {}, {}, True, 'ndarray', "
                                   "[1.5])}, {'level': 2}, {})), ('/g1/g12', 'g12', ('Dataset', "
                                   "{}, {}, {}, {'empty': True}, {}))])), [], [])",
 'to_datatree-chunks-nested-empty': '((\'raise\', \'ImportError\', "chunk manager \'dask\' is not '
                                    "available. Please make sure 'dask' is installed and "
                                    'importable."), [], [])',
 'to_datatree-chunks-nested-x': '((\'raise\', \'ImportError\', "chunk manager \'dask\' is not '
                                "available. Please make sure 'dask' is installed and "
                                'importable."), [], [])',
 'to_datatree-chunks-nested-xy': '((\'raise\', \'ImportError\', "chunk manager \'dask\' is not '
                                 "available. Please make sure 'dask' is installed and "
                                 'importable."), [], [])',
 'to_datatree-chunks-nested-unknown': '((\'raise\', \'ImportError\', "chunk manager \'dask\' is '
                                      "not available. Please make sure 'dask' is installed and "
                                      'importable."), [], [])',
 'to_datatree-chunks-nested-values': '((\'raise\', \'ImportError\', "chunk manager \'dask\' is not '
                                     "available. Please make sure 'dask' is installed and "
                                     'importable."), [], [])',
 'to_datatree-chunks-nested-int': '((\'raise\', \'AttributeError\', "\'int\' object has no '
                                  'attribute \'items\'"), [], [])',
 'to_datatree-chunks-nested-auto': '((\'raise\', \'AttributeError\', "\'str\' object has no '
                                   'attribute \'items\'"), [], [])',
 'to_datatree-chunks-nested-list': '((\'raise\', \'AttributeError\', "\'list\' object has no '
                                   'attribute \'items\'"), [], [])',
 'to_datatree-chunks-nested-tuple-key': '((\'raise\', \'ImportError\', "chunk manager \'dask\' is '
                                        "not available. Please make sure 'dask' is installed and "
                                        'importable."), [], [])',
 'to_datatree-recorded-chunks-lazy-none': "(('ok', ('DataTree', [('/', None, ('Dataset', {'rows': "
                                          "4, 'cols': 6}, {'data': (('rows', 'cols'), 'uint16', "
                                          "{'units': '1'}, {'preferred_chunksizes': {'rows': 3, "
                                          "'cols': 6}}, False, 'LazilyIndexedArray', [[100, 101, "
                                          '102, 103, 104, 105], [106, 107, 108, 109, 110, 111], '
                                          '[112, 113, 114, 115, 116, 117], [118, 119, 120, 121, '
                                          "122, 123]])}, {'rows': (('rows',), 'int64', {}, {}, "
                                          "True, 'PandasIndexingAdapter', [0, 1, 2, 3]), 'time': "
                                          "(('rows',), 'timedelta64[s]', {'long_name': 't'}, {}, "
                                          "True, 'ndarray', [datetime.timedelta(0), "
                                          'datetime.timedelta(seconds=1), '
                                          'datetime.timedelta(seconds=2), '
                                          "datetime.timedelta(seconds=3)])}, {'title': 'lazy'}, "
                                          '{}))])), [], [])',
 'to_datatree-recorded-chunks-lazy-empty': "(('ok', ('DataTree', [('/', None, ('Dataset', {'rows': "
                                           "4, 'cols': 6}, {'data': (('rows', 'cols'), 'uint16', "
                                           "{'units': '1'}, {'preferred_chunksizes': {'rows': 3, "
                                           "'cols': 6}}, False, 'LazilyIndexedArray', [[100, 101, "
                                           '102, 103, 104, 105], [106, 107, 108, 109, 110, 111], '
                                           '[112, 113, 114, 115, 116, 117], [118, 119, 120, 121, '
                                           "122, 123]])}, {'rows': (('rows',), 'int64', {}, {}, "
                                           "True, 'PandasIndexingAdapter', [0, 1, 2, 3]), 'time': "
                                           "(('rows',), 'timedelta64[s]', {'long_name': 't'}, {}, "
                                           "True, 'ndarray', [datetime.timedelta(0), "
                                           'datetime.timedelta(seconds=1), '
                                           'datetime.timedelta(seconds=2), '
                                           "datetime.timedelta(seconds=3)])}, {'title': 'lazy', "
                                           "'chunked': '{}'}, {}))])), [('chunk', ['data', 'rows', "
                                           "'time'], '{}', [], (), {}), ('chunk', ['data', 'rows', "
                                           "'time'], '{}', [], (), {})], [])",
 'to_datatree-recorded-chunks-lazy-x': "(('ok', ('DataTree', [('/', None, ('Dataset', {'rows': 4, "
                                       "'cols': 6}, {'data': (('rows', 'cols'), 'uint16', "
                                       "{'units': '1'}, {'preferred_chunksizes': {'rows': 3, "
                                       "'cols': 6}}, False, 'LazilyIndexedArray', [[100, 101, 102, "
                                       '103, 104, 105], [106, 107, 108, 109, 110, 111], [112, 113, '
                                       '114, 115, 116, 117], [118, 119, 120, 121, 122, 123]])}, '
                                       "{'rows': (('rows',), 'int64', {}, {}, True, "
                                       "'PandasIndexingAdapter', [0, 1, 2, 3]), 'time': "
                                       "(('rows',), 'timedelta64[s]', {'long_name': 't'}, {}, "
                                       "True, 'ndarray', [datetime.timedelta(0), "
                                       'datetime.timedelta(seconds=1), '
                                       'datetime.timedelta(seconds=2), '
                                       "datetime.timedelta(seconds=3)])}, {'title': 'lazy', "
                                       "'chunked': '{}'}, {}))])), [('chunk', ['data', 'rows', "
                                       "'time'], '{}', [], (), {}), ('chunk', ['data', 'rows', "
                                       "'time'], '{}', [], (), {})], [])",
 'to_datatree-recorded-chunks-lazy-xy': "(('ok', ('DataTree', [('/', None, ('Dataset', {'rows': 4, "
                                        "'cols': 6}, {'data': (('rows', 'cols'), 'uint16', "
                                        "{'units': '1'}, {'preferred_chunksizes': {'rows': 3, "
                                        "'cols': 6}}, False, 'LazilyIndexedArray', [[100, 101, "
                                        '102, 103, 104, 105], [106, 107, 108, 109, 110, 111], '
                                        '[112, 113, 114, 115, 116, 117], [118, 119, 120, 121, 122, '
                                        "123]])}, {'rows': (('rows',), 'int64', {}, {}, True, "
                                        "'PandasIndexingAdapter', [0, 1, 2, 3]), 'time': "
                                        "(('rows',), 'timedelta64[s]', {'long_name': 't'}, {}, "
                                        "True, 'ndarray', [datetime.timedelta(0), "
                                        'datetime.timedelta(seconds=1), '
                                        'datetime.timedelta(seconds=2), '
                                        "datetime.timedelta(seconds=3)])}, {'title': 'lazy', "
                                        "'chunked': '{}'}, {}))])), [('chunk', ['data', 'rows', "
                                        "'time'], '{}', [], (), {}), ('chunk', ['data', 'rows', "
                                        "'time'], '{}', [], (), {})], [])",
 'to_datatree-recorded-chunks-lazy-unknown': "(('ok', ('DataTree', [('/', None, ('Dataset', "
                                             "{'rows': 4, 'cols': 6}, {'data': (('rows', 'cols'), "
                                             "'uint16', {'units': '1'}, {'preferred_chunksizes': "
                                             "{'rows': 3, 'cols': 6}}, False, "
                                             "'LazilyIndexedArray', [[100, 101, 102, 103, 104, "
                                             '105], [106, 107, 108, 109, 110, 111], [112, 113, '
                                             '114, 115, 116, 117], [118, 119, 120, 121, 122, '
                                             "123]])}, {'rows': (('rows',), 'int64', {}, {}, True, "
                                             "'PandasIndexingAdapter', [0, 1, 2, 3]), 'time': "
                                             "(('rows',), 'timedelta64[s]', {'long_name': 't'}, "
                                             "{}, True, 'ndarray', [datetime.timedelta(0), "
                                             'datetime.timedelta(seconds=1), '
                                             'datetime.timedelta(seconds=2), '
                                             "datetime.timedelta(seconds=3)])}, {'title': 'lazy', "
                                             '\'chunked\': "{\'rows\': 2}"}, {}))])), [(\'chunk\', '
                                             '[\'data\', \'rows\', \'time\'], "{\'rows\': 2}", '
                                             "['rows'], (), {}), ('chunk', ['data', 'rows', "
                                             '\'time\'], "{\'rows\': 2}", [\'rows\'], (), {})], '
                                             '[])',
 'to_datatree-recorded-chunks-lazy-values': "(('ok', ('DataTree', [('/', None, ('Dataset', "
                                            "{'rows': 4, 'cols': 6}, {'data': (('rows', 'cols'), "
                                            "'uint16', {'units': '1'}, {'preferred_chunksizes': "
                                            "{'rows': 3, 'cols': 6}}, False, 'LazilyIndexedArray', "
                                            '[[100, 101, 102, 103, 104, 105], [106, 107, 108, 109, '
                                            '110, 111], [112, 113, 114, 115, 116, 117], [118, 119, '
                                            "120, 121, 122, 123]])}, {'rows': (('rows',), 'int64', "
                                            "{}, {}, True, 'PandasIndexingAdapter', [0, 1, 2, 3]), "
                                            "'time': (('rows',), 'timedelta64[s]', {'long_name': "
                                            "'t'}, {}, True, 'ndarray', [datetime.timedelta(0), "
                                            'datetime.timedelta(seconds=1), '
                                            'datetime.timedelta(seconds=2), '
                                            "datetime.timedelta(seconds=3)])}, {'title': 'lazy', "
                                            '\'chunked\': "{\'rows\': None, \'cols\': (3, 3)}"}, '
                                            "{}))])), [('chunk', ['data', 'rows', 'time'], "
                                            '"{\'rows\': None, \'cols\': (3, 3)}", [\'rows\', '
                                            "'cols'], (), {}), ('chunk', ['data', 'rows', 'time'], "
                                            '"{\'rows\': None, \'cols\': (3, 3)}", [\'rows\', '
                                            "'cols'], (), {})], [])",
 'to_datatree-recorded-chunks-lazy-int': '((\'raise\', \'AttributeError\', "\'int\' object has no '
                                         'attribute \'items\'"), [], [])',
 'to_datatree-recorded-chunks-lazy-auto': '((\'raise\', \'AttributeError\', "\'str\' object has no '
                                          'attribute \'items\'"), [], [])',
 'to_datatree-recorded-chunks-lazy-list': '((\'raise\', \'AttributeError\', "\'list\' object has '
                                          'no attribute \'items\'"), [], [])',
 'to_datatree-recorded-chunks-lazy-tuple-key': "(('ok', ('DataTree', [('/', None, ('Dataset', "
                                               "{'rows': 4, 'cols': 6}, {'data': (('rows', "
                                               "'cols'), 'uint16', {'units': '1'}, "
                                               "{'preferred_chunksizes': {'rows': 3, 'cols': 6}}, "
                                               "False, 'LazilyIndexedArray', [[100, 101, 102, 103, "
                                               '104, 105], [106, 107, 108, 109, 110, 111], [112, '
                                               '113, 114, 115, 116, 117], [118, 119, 120, 121, '
                                               "122, 123]])}, {'rows': (('rows',), 'int64', {}, "
                                               "{}, True, 'PandasIndexingAdapter', [0, 1, 2, 3]), "
                                               "'time': (('rows',), 'timedelta64[s]', "
                                               "{'long_name': 't'}, {}, True, 'ndarray', "
                                               '[datetime.timedelta(0), '
                                               'datetime.timedelta(seconds=1), '
                                               'datetime.timedelta(seconds=2), '
                                               "datetime.timedelta(seconds=3)])}, {'title': "
                                               "'lazy', 'chunked': '{}'}, {}))])), [('chunk', "
                                               "['data', 'rows', 'time'], '{}', [], (), {}), "
                                               "('chunk', ['data', 'rows', 'time'], '{}', [], (), "
                                               '{})], [])',
 'to_datatree-recorded-chunks-nested-none': "(('ok', ('DataTree', [('/', None, ('Dataset', {'x': "
                                            "3}, {}, {'a': (('x',), 'int8', {'a': 1}, {}, True, "
                                            "'ndarray', [1, 2, 3])}, {'level': 0}, {})), ('/g1', "
                                            "'g1', ('Dataset', {'x': 3, 'y': 2}, {'b': (('x', "
                                            "'y'), 'int64', {}, {}, True, 'ndarray', [[0, 1], [2, "
                                            "3], [4, 5]])}, {}, {'level': 1}, {})), ('/g2', 'g2', "
                                            "('Dataset', {'rows': 4, 'cols': 6}, {'lazy': "
                                            "(('rows', 'cols'), 'uint16', {}, "
                                            "{'preferred_chunksizes': {'rows': 2, 'cols': 6}}, "
                                            "False, 'LazilyIndexedArray', [[100, 101, 102, 103, "
                                            '104, 105], [106, 107, 108, 109, 110, 111], [112, 113, '
                                            '114, 115, 116, 117], [118, 119, 120, 121, 122, '
                                            "123]])}, {}, {'level': 1}, {})), ('/g1/g11', 'g11', "
                                            "('Dataset', {'z': 1}, {}, {'deep': (('z',), "
                                            "'float64', {}, {}, True, 'ndarray', [1.5])}, "
                                            "{'level': 2}, {})), ('/g1/g12', 'g12', ('Dataset', "
                                            "{}, {}, {}, {'empty': True}, {}))])), [], [])",
 'to_datatree-recorded-chunks-nested-empty': "(('ok', ('DataTree', [('/', None, ('Dataset', {'x': "
                                             "3}, {}, {'a': (('x',), 'int8', {'a': 1}, {}, True, "
                                             "'ndarray', [1, 2, 3])}, {'level': 0, 'chunked': "
                                             "'{}'}, {})), ('/g1', 'g1', ('Dataset', {'x': 3, 'y': "
                                             "2}, {'b': (('x', 'y'), 'int64', {}, {}, True, "
                                             "'ndarray', [[0, 1], [2, 3], [4, 5]])}, {}, {'level': "
                                             "1, 'chunked': '{}'}, {})), ('/g2', 'g2', ('Dataset', "
                                             "{'rows': 4, 'cols': 6}, {'lazy': (('rows', 'cols'), "
                                             "'uint16', {}, {'preferred_chunksizes': {'rows': 2, "
                                             "'cols': 6}}, False, 'LazilyIndexedArray', [[100, "
                                             '101, 102, 103, 104, 105], [106, 107, 108, 109, 110, '
                                             '111], [112, 113, 114, 115, 116, 117], [118, 119, '
                                             "120, 121, 122, 123]])}, {}, {'level': 1, 'chunked': "
                                             "'{}'}, {})), ('/g1/g11', 'g11', ('Dataset', {'z': "
                                             "1}, {}, {'deep': (('z',), 'float64', {}, {}, True, "
                                             "'ndarray', [1.5])}, {'level': 2, 'chunked': '{}'}, "
                                             "{})), ('/g1/g12', 'g12', ('Dataset', {}, {}, {}, "
                                             "{'empty': True, 'chunked': '{}'}, {}))])), "
                                             "[('chunk', ['a'], '{}', [], (), {}), ('chunk', "
                                             "['a'], '{}', [], (), {}), ('chunk', ['b'], '{}', [], "
                                             "(), {}), ('chunk', ['deep'], '{}', [], (), {}), "
                                             "('chunk', [], '{}', [], (), {}), ('chunk', ['lazy'], "
                                             "'{}', [], (), {})], [])",
 'to_datatree-recorded-chunks-nested-x': "(('ok', ('DataTree', [('/', None, ('Dataset', {'x': 3}, "
                                         "{}, {'a': (('x',), 'int8', {'a': 1}, {}, True, "
                                         "'ndarray', [1, 2, 3])}, {'level': 0, 'chunked': "
                                         '"{\'x\': 1}"}, {})), (\'/g1\', \'g1\', (\'Dataset\', '
                                         "{'x': 3, 'y': 2}, {'b': (('x', 'y'), 'int64', {}, {}, "
                                         "True, 'ndarray', [[0, 1], [2, 3], [4, 5]])}, {}, "
                                         '{\'level\': 1, \'chunked\': "{\'x\': 1}"}, {})), '
                                         "('/g2', 'g2', ('Dataset', {'rows': 4, 'cols': 6}, "
                                         "{'lazy': (('rows', 'cols'), 'uint16', {}, "
                                         "{'preferred_chunksizes': {'rows': 2, 'cols': 6}}, False, "
                                         "'LazilyIndexedArray', [[100, 101, 102, 103, 104, 105], "
                                         '[106, 107, 108, 109, 110, 111], [112, 113, 114, 115, '
                                         '116, 117], [118, 119, 120, 121, 122, 123]])}, {}, '
                                         "{'level': 1, 'chunked': '{}'}, {})), ('/g1/g11', 'g11', "
                                         "('Dataset', {'z': 1}, {}, {'deep': (('z',), 'float64', "
                                         "{}, {}, True, 'ndarray', [1.5])}, {'level': 2, "
                                         "'chunked': '{}'}, {})), ('/g1/g12', 'g12', ('Dataset', "
                                         "{}, {}, {}, {'empty': True, 'chunked': '{}'}, {}))])), "
                                         '[(\'chunk\', [\'a\'], "{\'x\': 1}", [\'x\'], (), {}), '
                                         '(\'chunk\', [\'a\'], "{\'x\': 1}", [\'x\'], (), {}), '
                                         '(\'chunk\', [\'b\'], "{\'x\': 1}", [\'x\'], (), {}), '
                                         "('chunk', ['deep'], '{}', [], (), {}), ('chunk', [], "
                                         "'{}', [], (), {}), ('chunk', ['lazy'], '{}', [], (), "
                                         '{})], [])',
 'to_datatree-recorded-chunks-nested-xy': "(('ok', ('DataTree', [('/', None, ('Dataset', {'x': 3}, "
                                          "{}, {'a': (('x',), 'int8', {'a': 1}, {}, True, "
                                          "'ndarray', [1, 2, 3])}, {'level': 0, 'chunked': "
                                          '"{\'x\': 1}"}, {})), (\'/g1\', \'g1\', (\'Dataset\', '
                                          "{'x': 3, 'y': 2}, {'b': (('x', 'y'), 'int64', {}, {}, "
                                          "True, 'ndarray', [[0, 1], [2, 3], [4, 5]])}, {}, "
                                          '{\'level\': 1, \'chunked\': "{\'y\': 2, \'x\': 1}"}, '
                                          "{})), ('/g2', 'g2', ('Dataset', {'rows': 4, 'cols': 6}, "
                                          "{'lazy': (('rows', 'cols'), 'uint16', {}, "
                                          "{'preferred_chunksizes': {'rows': 2, 'cols': 6}}, "
                                          "False, 'LazilyIndexedArray', [[100, 101, 102, 103, 104, "
                                          '105], [106, 107, 108, 109, 110, 111], [112, 113, 114, '
                                          '115, 116, 117], [118, 119, 120, 121, 122, 123]])}, {}, '
                                          "{'level': 1, 'chunked': '{}'}, {})), ('/g1/g11', 'g11', "
                                          "('Dataset', {'z': 1}, {}, {'deep': (('z',), 'float64', "
                                          "{}, {}, True, 'ndarray', [1.5])}, {'level': 2, "
                                          "'chunked': '{}'}, {})), ('/g1/g12', 'g12', ('Dataset', "
                                          "{}, {}, {}, {'empty': True, 'chunked': '{}'}, {}))])), "
                                          '[(\'chunk\', [\'a\'], "{\'x\': 1}", [\'x\'], (), {}), '
                                          '(\'chunk\', [\'a\'], "{\'x\': 1}", [\'x\'], (), {}), '
                                          '(\'chunk\', [\'b\'], "{\'y\': 2, \'x\': 1}", [\'y\', '
                                          "'x'], (), {}), ('chunk', ['deep'], '{}', [], (), {}), "
                                          "('chunk', [], '{}', [], (), {}), ('chunk', ['lazy'], "
                                          "'{}', [], (), {})], [])",
 'to_datatree-recorded-chunks-nested-unknown': "(('ok', ('DataTree', [('/', None, ('Dataset', "
                                               "{'x': 3}, {}, {'a': (('x',), 'int8', {'a': 1}, {}, "
                                               "True, 'ndarray', [1, 2, 3])}, {'level': 0, "
                                               "'chunked': '{}'}, {})), ('/g1', 'g1', ('Dataset', "
                                               "{'x': 3, 'y': 2}, {'b': (('x', 'y'), 'int64', {}, "
                                               "{}, True, 'ndarray', [[0, 1], [2, 3], [4, 5]])}, "
                                               "{}, {'level': 1, 'chunked': '{}'}, {})), ('/g2', "
                                               "'g2', ('Dataset', {'rows': 4, 'cols': 6}, {'lazy': "
                                               "(('rows', 'cols'), 'uint16', {}, "
                                               "{'preferred_chunksizes': {'rows': 2, 'cols': 6}}, "
                                               "False, 'LazilyIndexedArray', [[100, 101, 102, 103, "
                                               '104, 105], [106, 107, 108, 109, 110, 111], [112, '
                                               '113, 114, 115, 116, 117], [118, 119, 120, 121, '
                                               "122, 123]])}, {}, {'level': 1, 'chunked': "
                                               '"{\'rows\': 2}"}, {})), (\'/g1/g11\', \'g11\', '
                                               "('Dataset', {'z': 1}, {}, {'deep': (('z',), "
                                               "'float64', {}, {}, True, 'ndarray', [1.5])}, "
                                               '{\'level\': 2, \'chunked\': "{\'z\': -1}"}, {})), '
                                               "('/g1/g12', 'g12', ('Dataset', {}, {}, {}, "
                                               "{'empty': True, 'chunked': '{}'}, {}))])), "
                                               "[('chunk', ['a'], '{}', [], (), {}), ('chunk', "
                                               "['a'], '{}', [], (), {}), ('chunk', ['b'], '{}', "
                                               '[], (), {}), (\'chunk\', [\'deep\'], "{\'z\': '
                                               '-1}", [\'z\'], (), {}), (\'chunk\', [], \'{}\', '
                                               '[], (), {}), (\'chunk\', [\'lazy\'], "{\'rows\': '
                                               '2}", [\'rows\'], (), {})], [])',
 'to_datatree-recorded-chunks-nested-values': "(('ok', ('DataTree', [('/', None, ('Dataset', {'x': "
                                              "3}, {}, {'a': (('x',), 'int8', {'a': 1}, {}, True, "
                                              "'ndarray', [1, 2, 3])}, {'level': 0, 'chunked': "
                                              '"{\'x\': \'auto\'}"}, {})), (\'/g1\', \'g1\', '
                                              "('Dataset', {'x': 3, 'y': 2}, {'b': (('x', 'y'), "
                                              "'int64', {}, {}, True, 'ndarray', [[0, 1], [2, 3], "
                                              '[4, 5]])}, {}, {\'level\': 1, \'chunked\': "{\'x\': '
                                              '\'auto\', \'y\': -1}"}, {})), (\'/g2\', \'g2\', '
                                              "('Dataset', {'rows': 4, 'cols': 6}, {'lazy': "
                                              "(('rows', 'cols'), 'uint16', {}, "
                                              "{'preferred_chunksizes': {'rows': 2, 'cols': 6}}, "
                                              "False, 'LazilyIndexedArray', [[100, 101, 102, 103, "
                                              '104, 105], [106, 107, 108, 109, 110, 111], [112, '
                                              '113, 114, 115, 116, 117], [118, 119, 120, 121, 122, '
                                              "123]])}, {}, {'level': 1, 'chunked': "
                                              '"{\'rows\': None, \'cols\': (3, 3)}"}, {})), '
                                              "('/g1/g11', 'g11', ('Dataset', {'z': 1}, {}, "
                                              "{'deep': (('z',), 'float64', {}, {}, True, "
                                              "'ndarray', [1.5])}, {'level': 2, 'chunked': '{}'}, "
                                              "{})), ('/g1/g12', 'g12', ('Dataset', {}, {}, {}, "
                                              "{'empty': True, 'chunked': '{}'}, {}))])), "
                                              '[(\'chunk\', [\'a\'], "{\'x\': \'auto\'}", [\'x\'], '
                                              '(), {}), (\'chunk\', [\'a\'], "{\'x\': \'auto\'}", '
                                              '[\'x\'], (), {}), (\'chunk\', [\'b\'], "{\'x\': '
                                              '\'auto\', \'y\': -1}", [\'x\', \'y\'], (), {}), '
                                              "('chunk', ['deep'], '{}', [], (), {}), ('chunk', "
                                              "[], '{}', [], (), {}), ('chunk', ['lazy'], "
                                              '"{\'rows\': None, \'cols\': (3, 3)}", [\'rows\', '
                                              "'cols'], (), {})], [])",
 'to_datatree-recorded-chunks-nested-int': '((\'raise\', \'AttributeError\', "\'int\' object has '
                                           'no attribute \'items\'"), [], [])',
 'to_datatree-recorded-chunks-nested-auto': '((\'raise\', \'AttributeError\', "\'str\' object has '
                                            'no attribute \'items\'"), [], [])',
 'to_datatree-recorded-chunks-nested-list': '((\'raise\', \'AttributeError\', "\'list\' object has '
                                            'no attribute \'items\'"), [], [])',
 'to_datatree-recorded-chunks-nested-tuple-key': "(('ok', ('DataTree', [('/', None, ('Dataset', "
                                                 "{'x': 3}, {}, {'a': (('x',), 'int8', {'a': 1}, "
                                                 "{}, True, 'ndarray', [1, 2, 3])}, {'level': 0, "
                                                 '\'chunked\': "{\'x\': 2}"}, {})), (\'/g1\', '
                                                 "'g1', ('Dataset', {'x': 3, 'y': 2}, {'b': (('x', "
                                                 "'y'), 'int64', {}, {}, True, 'ndarray', [[0, 1], "
                                                 "[2, 3], [4, 5]])}, {}, {'level': 1, 'chunked': "
                                                 '"{\'x\': 2}"}, {})), (\'/g2\', \'g2\', '
                                                 "('Dataset', {'rows': 4, 'cols': 6}, {'lazy': "
                                                 "(('rows', 'cols'), 'uint16', {}, "
                                                 "{'preferred_chunksizes': {'rows': 2, 'cols': "
                                                 "6}}, False, 'LazilyIndexedArray', [[100, 101, "
                                                 '102, 103, 104, 105], [106, 107, 108, 109, 110, '
                                                 '111], [112, 113, 114, 115, 116, 117], [118, 119, '
                                                 "120, 121, 122, 123]])}, {}, {'level': 1, "
                                                 "'chunked': '{}'}, {})), ('/g1/g11', 'g11', "
                                                 "('Dataset', {'z': 1}, {}, {'deep': (('z',), "
                                                 "'float64', {}, {}, True, 'ndarray', [1.5])}, "
                                                 "{'level': 2, 'chunked': '{}'}, {})), ('/g1/g12', "
                                                 "'g12', ('Dataset', {}, {}, {}, {'empty': True, "
                                                 "'chunked': '{}'}, {}))])), [('chunk', ['a'], "
                                                 '"{\'x\': 2}", [\'x\'], (), {}), (\'chunk\', '
                                                 '[\'a\'], "{\'x\': 2}", [\'x\'], (), {}), '
                                                 '(\'chunk\', [\'b\'], "{\'x\': 2}", [\'x\'], (), '
                                                 "{}), ('chunk', ['deep'], '{}', [], (), {}), "
                                                 "('chunk', [], '{}', [], (), {}), ('chunk', "
                                                 "['lazy'], '{}', [], (), {})], [])",
 'to_datatree-recorded-chunks-subgroup-none': "(('ok', ('DataTree', [('/', None, ('Dataset', {'x': "
                                              "3, 'y': 2}, {'b': (('x', 'y'), 'int64', {}, {}, "
                                              "True, 'ndarray', [[0, 1], [2, 3], [4, 5]])}, {}, "
                                              "{'level': 1}, {})), ('/g1', 'g1', ('Dataset', {'x': "
                                              "3, 'y': 2}, {'b': (('x', 'y'), 'int64', {}, {}, "
                                              "True, 'ndarray', [[0, 1], [2, 3], [4, 5]])}, {}, "
                                              "{'level': 1}, {})), ('/g1/g11', 'g11', ('Dataset', "
                                              "{'z': 1}, {}, {'deep': (('z',), 'float64', {}, {}, "
                                              "True, 'ndarray', [1.5])}, {'level': 2}, {})), "
                                              "('/g1/g12', 'g12', ('Dataset', {}, {}, {}, "
                                              "{'empty': True}, {}))])), [], [])",
 'to_datatree-recorded-chunks-subgroup-empty': "(('ok', ('DataTree', [('/', None, ('Dataset', "
                                               "{'x': 3, 'y': 2}, {'b': (('x', 'y'), 'int64', {}, "
                                               "{}, True, 'ndarray', [[0, 1], [2, 3], [4, 5]])}, "
                                               "{}, {'level': 1, 'chunked': '{}'}, {})), ('/g1', "
                                               "'g1', ('Dataset', {'x': 3, 'y': 2}, {'b': (('x', "
                                               "'y'), 'int64', {}, {}, True, 'ndarray', [[0, 1], "
                                               "[2, 3], [4, 5]])}, {}, {'level': 1, 'chunked': "
                                               "'{}'}, {})), ('/g1/g11', 'g11', ('Dataset', {'z': "
                                               "1}, {}, {'deep': (('z',), 'float64', {}, {}, True, "
                                               "'ndarray', [1.5])}, {'level': 2, 'chunked': '{}'}, "
                                               "{})), ('/g1/g12', 'g12', ('Dataset', {}, {}, {}, "
                                               "{'empty': True, 'chunked': '{}'}, {}))])), "
                                               "[('chunk', ['b'], '{}', [], (), {}), ('chunk', "
                                               "['b'], '{}', [], (), {}), ('chunk', ['deep'], "
                                               "'{}', [], (), {}), ('chunk', [], '{}', [], (), "
                                               '{})], [])',
 'to_datatree-recorded-chunks-subgroup-x': "(('ok', ('DataTree', [('/', None, ('Dataset', {'x': 3, "
                                           "'y': 2}, {'b': (('x', 'y'), 'int64', {}, {}, True, "
                                           "'ndarray', [[0, 1], [2, 3], [4, 5]])}, {}, {'level': "
                                           '1, \'chunked\': "{\'x\': 1}"}, {})), (\'/g1\', \'g1\', '
                                           "('Dataset', {'x': 3, 'y': 2}, {'b': (('x', 'y'), "
                                           "'int64', {}, {}, True, 'ndarray', [[0, 1], [2, 3], [4, "
                                           '5]])}, {}, {\'level\': 1, \'chunked\': "{\'x\': 1}"}, '
                                           "{})), ('/g1/g11', 'g11', ('Dataset', {'z': 1}, {}, "
                                           "{'deep': (('z',), 'float64', {}, {}, True, 'ndarray', "
                                           "[1.5])}, {'level': 2, 'chunked': '{}'}, {})), "
                                           "('/g1/g12', 'g12', ('Dataset', {}, {}, {}, {'empty': "
                                           "True, 'chunked': '{}'}, {}))])), [('chunk', ['b'], "
                                           '"{\'x\': 1}", [\'x\'], (), {}), (\'chunk\', [\'b\'], '
                                           '"{\'x\': 1}", [\'x\'], (), {}), (\'chunk\', '
                                           "['deep'], '{}', [], (), {}), ('chunk', [], '{}', [], "
                                           '(), {})], [])',
 'to_datatree-recorded-chunks-subgroup-xy': "(('ok', ('DataTree', [('/', None, ('Dataset', {'x': "
                                            "3, 'y': 2}, {'b': (('x', 'y'), 'int64', {}, {}, True, "
                                            "'ndarray', [[0, 1], [2, 3], [4, 5]])}, {}, {'level': "
                                            '1, \'chunked\': "{\'y\': 2, \'x\': 1}"}, {})), '
                                            "('/g1', 'g1', ('Dataset', {'x': 3, 'y': 2}, {'b': "
                                            "(('x', 'y'), 'int64', {}, {}, True, 'ndarray', [[0, "
                                            "1], [2, 3], [4, 5]])}, {}, {'level': 1, 'chunked': "
                                            '"{\'y\': 2, \'x\': 1}"}, {})), (\'/g1/g11\', \'g11\', '
                                            "('Dataset', {'z': 1}, {}, {'deep': (('z',), "
                                            "'float64', {}, {}, True, 'ndarray', [1.5])}, "
                                            "{'level': 2, 'chunked': '{}'}, {})), ('/g1/g12', "
                                            "'g12', ('Dataset', {}, {}, {}, {'empty': True, "
                                            "'chunked': '{}'}, {}))])), [('chunk', ['b'], "
                                            '"{\'y\': 2, \'x\': 1}", [\'y\', \'x\'], (), {}), '
                                            '(\'chunk\', [\'b\'], "{\'y\': 2, \'x\': 1}", [\'y\', '
                                            "'x'], (), {}), ('chunk', ['deep'], '{}', [], (), {}), "
                                            "('chunk', [], '{}', [], (), {})], [])",
 'to_datatree-recorded-chunks-subgroup-unknown': "(('ok', ('DataTree', [('/', None, ('Dataset', "
                                                 "{'x': 3, 'y': 2}, {'b': (('x', 'y'), 'int64', "
                                                 "{}, {}, True, 'ndarray', [[0, 1], [2, 3], [4, "
                                                 "5]])}, {}, {'level': 1, 'chunked': '{}'}, {})), "
                                                 "('/g1', 'g1', ('Dataset', {'x': 3, 'y': 2}, "
                                                 "{'b': (('x', 'y'), 'int64', {}, {}, True, "
                                                 "'ndarray', [[0, 1], [2, 3], [4, 5]])}, {}, "
                                                 "{'level': 1, 'chunked': '{}'}, {})), ('/g1/g11', "
                                                 "'g11', ('Dataset', {'z': 1}, {}, {'deep': "
                                                 "(('z',), 'float64', {}, {}, True, 'ndarray', "
                                                 '[1.5])}, {\'level\': 2, \'chunked\': "{\'z\': '
                                                 '-1}"}, {})), (\'/g1/g12\', \'g12\', '
                                                 "('Dataset', {}, {}, {}, {'empty': True, "
                                                 "'chunked': '{}'}, {}))])), [('chunk', ['b'], "
                                                 "'{}', [], (), {}), ('chunk', ['b'], '{}', [], "
                                                 '(), {}), (\'chunk\', [\'deep\'], "{\'z\': -1}", '
                                                 "['z'], (), {}), ('chunk', [], '{}', [], (), "
                                                 '{})], [])',
 'to_datatree-recorded-chunks-subgroup-values': "(('ok', ('DataTree', [('/', None, ('Dataset', "
                                                "{'x': 3, 'y': 2}, {'b': (('x', 'y'), 'int64', {}, "
                                                "{}, True, 'ndarray', [[0, 1], [2, 3], [4, 5]])}, "
                                                '{}, {\'level\': 1, \'chunked\': "{\'x\': '
                                                '\'auto\', \'y\': -1}"}, {})), (\'/g1\', \'g1\', '
                                                "('Dataset', {'x': 3, 'y': 2}, {'b': (('x', 'y'), "
                                                "'int64', {}, {}, True, 'ndarray', [[0, 1], [2, "
                                                "3], [4, 5]])}, {}, {'level': 1, 'chunked': "
                                                '"{\'x\': \'auto\', \'y\': -1}"}, {})), '
                                                "('/g1/g11', 'g11', ('Dataset', {'z': 1}, {}, "
                                                "{'deep': (('z',), 'float64', {}, {}, True, "
                                                "'ndarray', [1.5])}, {'level': 2, 'chunked': "
                                                "'{}'}, {})), ('/g1/g12', 'g12', ('Dataset', {}, "
                                                "{}, {}, {'empty': True, 'chunked': '{}'}, "
                                                '{}))])), [(\'chunk\', [\'b\'], "{\'x\': \'auto\', '
                                                '\'y\': -1}", [\'x\', \'y\'], (), {}), (\'chunk\', '
                                                '[\'b\'], "{\'x\': \'auto\', \'y\': -1}", [\'x\', '
                                                "'y'], (), {}), ('chunk', ['deep'], '{}', [], (), "
                                                "{}), ('chunk', [], '{}', [], (), {})], [])",
 'to_datatree-recorded-chunks-subgroup-int': '((\'raise\', \'AttributeError\', "\'int\' object has '
                                             'no attribute \'items\'"), [], [])',
 'to_datatree-recorded-chunks-subgroup-auto': '((\'raise\', \'AttributeError\', "\'str\' object '
                                              'has no attribute \'items\'"), [], [])',
 'to_datatree-recorded-chunks-subgroup-list': '((\'raise\', \'AttributeError\', "\'list\' object '
                                              'has no attribute \'items\'"), [], [])',
 'to_datatree-recorded-chunks-subgroup-tuple-key': "(('ok', ('DataTree', [('/', None, ('Dataset', "
                                                   "{'x': 3, 'y': 2}, {'b': (('x', 'y'), 'int64', "
                                                   "{}, {}, True, 'ndarray', [[0, 1], [2, 3], [4, "
                                                   "5]])}, {}, {'level': 1, 'chunked': "
                                                   '"{\'x\': 2}"}, {})), (\'/g1\', \'g1\', '
                                                   "('Dataset', {'x': 3, 'y': 2}, {'b': (('x', "
                                                   "'y'), 'int64', {}, {}, True, 'ndarray', [[0, "
                                                   "1], [2, 3], [4, 5]])}, {}, {'level': 1, "
                                                   '\'chunked\': "{\'x\': 2}"}, {})), '
                                                   "('/g1/g11', 'g11', ('Dataset', {'z': 1}, {}, "
                                                   "{'deep': (('z',), 'float64', {}, {}, True, "
                                                   "'ndarray', [1.5])}, {'level': 2, 'chunked': "
                                                   "'{}'}, {})), ('/g1/g12', 'g12', ('Dataset', "
                                                   "{}, {}, {}, {'empty': True, 'chunked': '{}'}, "
                                                   '{}))])), [(\'chunk\', [\'b\'], "{\'x\': 2}", '
                                                   "['x'], (), {}), ('chunk', ['b'], "
                                                   '"{\'x\': 2}", [\'x\'], (), {}), (\'chunk\', '
                                                   "['deep'], '{}', [], (), {}), ('chunk', [], "
                                                   "'{}', [], (), {})], [])",
 'to_datatree-recorded-chunks-relative-none': "(('ok', ('DataTree', [('/', None, ('Dataset', {'x': "
                                              "1}, {'v': (('x',), 'int64', {}, {}, True, "
                                              "'ndarray', [1])}, {}, {}, {})), ('/rel', 'rel', "
                                              "('Dataset', {'x': 1}, {'v': (('x',), 'int64', {}, "
                                              "{}, True, 'ndarray', [1])}, {}, {}, {})), "
                                              "('/rel/sub', 'sub', ('Dataset', {'x': 1}, {'w': "
                                              "(('x',), 'int64', {}, {}, True, 'ndarray', [2])}, "
                                              '{}, {}, {}))])), [], [])',
 'to_datatree-recorded-chunks-relative-empty': "(('ok', ('DataTree', [('/', None, ('Dataset', "
                                               "{'x': 1}, {'v': (('x',), 'int64', {}, {}, True, "
                                               "'ndarray', [1])}, {}, {'chunked': '{}'}, {})), "
                                               "('/rel', 'rel', ('Dataset', {'x': 1}, {'v': "
                                               "(('x',), 'int64', {}, {}, True, 'ndarray', [1])}, "
                                               "{}, {'chunked': '{}'}, {})), ('/rel/sub', 'sub', "
                                               "('Dataset', {'x': 1}, {'w': (('x',), 'int64', {}, "
                                               "{}, True, 'ndarray', [2])}, {}, {'chunked': '{}'}, "
                                               "{}))])), [('chunk', ['v'], '{}', [], (), {}), "
                                               "('chunk', ['v'], '{}', [], (), {}), ('chunk', "
                                               "['w'], '{}', [], (), {})], [])",
 'to_datatree-recorded-chunks-relative-x': "(('ok', ('DataTree', [('/', None, ('Dataset', {'x': "
                                           "1}, {'v': (('x',), 'int64', {}, {}, True, 'ndarray', "
                                           '[1])}, {}, {\'chunked\': "{\'x\': 1}"}, {})), '
                                           "('/rel', 'rel', ('Dataset', {'x': 1}, {'v': (('x',), "
                                           "'int64', {}, {}, True, 'ndarray', [1])}, {}, "
                                           '{\'chunked\': "{\'x\': 1}"}, {})), (\'/rel/sub\', '
                                           "'sub', ('Dataset', {'x': 1}, {'w': (('x',), 'int64', "
                                           "{}, {}, True, 'ndarray', [2])}, {}, {'chunked': "
                                           '"{\'x\': 1}"}, {}))])), [(\'chunk\', [\'v\'], "{\'x\': '
                                           '1}", [\'x\'], (), {}), (\'chunk\', [\'v\'], "{\'x\': '
                                           '1}", [\'x\'], (), {}), (\'chunk\', [\'w\'], "{\'x\': '
                                           '1}", [\'x\'], (), {})], [])',
 'to_datatree-recorded-chunks-relative-xy': "(('ok', ('DataTree', [('/', None, ('Dataset', {'x': "
                                            "1}, {'v': (('x',), 'int64', {}, {}, True, 'ndarray', "
                                            '[1])}, {}, {\'chunked\': "{\'x\': 1}"}, {})), '
                                            "('/rel', 'rel', ('Dataset', {'x': 1}, {'v': (('x',), "
                                            "'int64', {}, {}, True, 'ndarray', [1])}, {}, "
                                            '{\'chunked\': "{\'x\': 1}"}, {})), (\'/rel/sub\', '
                                            "'sub', ('Dataset', {'x': 1}, {'w': (('x',), 'int64', "
                                            "{}, {}, True, 'ndarray', [2])}, {}, {'chunked': "
                                            '"{\'x\': 1}"}, {}))])), [(\'chunk\', [\'v\'], '
                                            '"{\'x\': 1}", [\'x\'], (), {}), (\'chunk\', [\'v\'], '
                                            '"{\'x\': 1}", [\'x\'], (), {}), (\'chunk\', [\'w\'], '
                                            '"{\'x\': 1}", [\'x\'], (), {})], [])',
 'to_datatree-recorded-chunks-relative-unknown': "(('ok', ('DataTree', [('/', None, ('Dataset', "
                                                 "{'x': 1}, {'v': (('x',), 'int64', {}, {}, True, "
                                                 "'ndarray', [1])}, {}, {'chunked': '{}'}, {})), "
                                                 "('/rel', 'rel', ('Dataset', {'x': 1}, {'v': "
                                                 "(('x',), 'int64', {}, {}, True, 'ndarray', "
                                                 "[1])}, {}, {'chunked': '{}'}, {})), ('/rel/sub', "
                                                 "'sub', ('Dataset', {'x': 1}, {'w': (('x',), "
                                                 "'int64', {}, {}, True, 'ndarray', [2])}, {}, "
                                                 "{'chunked': '{}'}, {}))])), [('chunk', ['v'], "
                                                 "'{}', [], (), {}), ('chunk', ['v'], '{}', [], "
                                                 "(), {}), ('chunk', ['w'], '{}', [], (), {})], "
                                                 '[])',
 'to_datatree-recorded-chunks-relative-values': "(('ok', ('DataTree', [('/', None, ('Dataset', "
                                                "{'x': 1}, {'v': (('x',), 'int64', {}, {}, True, "
                                                '\'ndarray\', [1])}, {}, {\'chunked\': "{\'x\': '
                                                '\'auto\'}"}, {})), (\'/rel\', \'rel\', '
                                                "('Dataset', {'x': 1}, {'v': (('x',), 'int64', {}, "
                                                "{}, True, 'ndarray', [1])}, {}, {'chunked': "
                                                '"{\'x\': \'auto\'}"}, {})), (\'/rel/sub\', '
                                                "'sub', ('Dataset', {'x': 1}, {'w': (('x',), "
                                                "'int64', {}, {}, True, 'ndarray', [2])}, {}, "
                                                '{\'chunked\': "{\'x\': \'auto\'}"}, {}))])), '
                                                '[(\'chunk\', [\'v\'], "{\'x\': \'auto\'}", '
                                                '[\'x\'], (), {}), (\'chunk\', [\'v\'], "{\'x\': '
                                                '\'auto\'}", [\'x\'], (), {}), (\'chunk\', '
                                                '[\'w\'], "{\'x\': \'auto\'}", [\'x\'], (), {})], '
                                                '[])',
 'to_datatree-recorded-chunks-relative-int': '((\'raise\', \'AttributeError\', "\'int\' object has '
                                             'no attribute \'items\'"), [], [])',
 'to_datatree-recorded-chunks-relative-auto': '((\'raise\', \'AttributeError\', "\'str\' object '
                                              'has no attribute \'items\'"), [], [])',
 'to_datatree-recorded-chunks-relative-list': '((\'raise\', \'AttributeError\', "\'list\' object '
                                              'has no attribute \'items\'"), [], [])',
 'to_datatree-recorded-chunks-relative-tuple-key': "(('ok', ('DataTree', [('/', None, ('Dataset', "
                                                   "{'x': 1}, {'v': (('x',), 'int64', {}, {}, "
                                                   "True, 'ndarray', [1])}, {}, {'chunked': "
                                                   '"{\'x\': 2}"}, {})), (\'/rel\', \'rel\', '
                                                   "('Dataset', {'x': 1}, {'v': (('x',), 'int64', "
                                                   "{}, {}, True, 'ndarray', [1])}, {}, "
                                                   '{\'chunked\': "{\'x\': 2}"}, {})), '
                                                   "('/rel/sub', 'sub', ('Dataset', {'x': 1}, "
                                                   "{'w': (('x',), 'int64', {}, {}, True, "
                                                   '\'ndarray\', [2])}, {}, {\'chunked\': "{\'x\': '
                                                   '2}"}, {}))])), [(\'chunk\', [\'v\'], "{\'x\': '
                                                   '2}", [\'x\'], (), {}), (\'chunk\', [\'v\'], '
                                                   '"{\'x\': 2}", [\'x\'], (), {}), (\'chunk\', '
                                                   '[\'w\'], "{\'x\': 2}", [\'x\'], (), {})], [])',
 'to_datatree-attrs-untouched': "(('ok', [(True, True, ['coordinates', 'other']), (True, True, "
                                "['level', 'coordinates']), (True, True, ['level'])]), [], [])",
 'to_datatree-conversion-order-nested': "(('ok', None), [('to_variable', ['x'], 'ndarray'), "
                                        "('to_variable', ['x'], 'ndarray'), ('to_variable', ['x', "
                                        "'y'], 'ndarray'), ('to_variable', ['z'], 'ndarray'), "
                                        "('to_variable', ['rows', 'cols'], 'Array')], [])",
 'to_datatree-conversion-order-subgroup': "(('ok', None), [('to_variable', ['x', 'y'], 'ndarray'), "
                                          "('to_variable', ['x', 'y'], 'ndarray'), ('to_variable', "
                                          "['z'], 'ndarray')], [])",
 'to_datatree-conversion-order-relative': "(('ok', None), [('to_variable', ['x'], 'ndarray'), "
                                          "('to_variable', ['x'], 'ndarray'), ('to_variable', "
                                          "['x'], 'ndarray')], [])",
 'to_datatree-conversion-order-failing': '((\'raise\', \'AttributeError\', "\'int\' object has no '
                                         'attribute \'items\'"), [(\'to_variable\', [\'x\'], '
                                         "'ndarray')], [])",
 'to_datatree-keys-nested': "(('ok', (['/', '/g1', '/g2', '/g1/g11', '/g1/g12'], ['g1', 'g2'], "
                            "'DataTree')), [], [])",
 'to_datatree-keys-subgroup': "(('ok', (['/', '/g1', '/g1/g11', '/g1/g12'], ['g1'], 'DataTree')), "
                              '[], [])',
 'to_datatree-keys-leaf': "(('ok', (['/', '/g1', '/g1/g11'], ['g1'], 'DataTree')), [], [])",
 'to_datatree-not-a-group': '((\'raise\', \'AttributeError\', "\'dict\' object has no attribute '
                            '\'variables\'"), [], [])',
 'open_alos2': "(('ok', ('DataTree', [('/', None, ('Dataset', {'x': 3}, {}, {'a': (('x',), 'int8', "
               "{'a': 1}, {}, True, 'ndarray', [1, 2, 3])}, {'level': 0}, {})), ('/g1', 'g1', "
               "('Dataset', {'x': 3, 'y': 2}, {'b': (('x', 'y'), 'int64', {}, {}, True, 'ndarray', "
               "[[0, 1], [2, 3], [4, 5]])}, {}, {'level': 1}, {})), ('/g2', 'g2', ('Dataset', "
               "{'rows': 4, 'cols': 6}, {'lazy': (('rows', 'cols'), 'uint16', {}, "
               "{'preferred_chunksizes': {'rows': 2, 'cols': 6}}, False, 'LazilyIndexedArray', "
               '[[100, 101, 102, 103, 104, 105], [106, 107, 108, 109, 110, 111], [112, 113, 114, '
               "115, 116, 117], [118, 119, 120, 121, 122, 123]])}, {}, {'level': 1}, {})), "
               "('/g1/g11', 'g11', ('Dataset', {'z': 1}, {}, {'deep': (('z',), 'float64', {}, {}, "
               "True, 'ndarray', [1.5])}, {'level': 2}, {})), ('/g1/g12', 'g12', ('Dataset', {}, "
               "{}, {}, {'empty': True}, {}))])), [('io.open', ('path/to/product',), {})], [])",
 'open_alos2-options': "(('ok', ('DataTree', [('/', None, ('Dataset', {'x': 3}, {}, {'a': (('x',), "
                       "'int8', {'a': 1}, {}, True, 'ndarray', [1, 2, 3])}, {'level': 0}, {})), "
                       "('/g1', 'g1', ('Dataset', {'x': 3, 'y': 2}, {'b': (('x', 'y'), 'int64', "
                       "{}, {}, True, 'ndarray', [[0, 1], [2, 3], [4, 5]])}, {}, {'level': 1}, "
                       "{})), ('/g2', 'g2', ('Dataset', {'rows': 4, 'cols': 6}, {'lazy': (('rows', "
                       "'cols'), 'uint16', {}, {'preferred_chunksizes': {'rows': 2, 'cols': 6}}, "
                       "False, 'LazilyIndexedArray', [[100, 101, 102, 103, 104, 105], [106, 107, "
                       '108, 109, 110, 111], [112, 113, 114, 115, 116, 117], [118, 119, 120, 121, '
                       "122, 123]])}, {}, {'level': 1}, {})), ('/g1/g11', 'g11', ('Dataset', {'z': "
                       "1}, {}, {'deep': (('z',), 'float64', {}, {}, True, 'ndarray', [1.5])}, "
                       "{'level': 2}, {})), ('/g1/g12', 'g12', ('Dataset', {}, {}, {}, {'empty': "
                       "True}, {}))])), [('io.open', ('s3://bucket/product',), {'storage_options': "
                       "{'anon': True}, 'records_per_chunk': 10})], [])",
 'open_alos2-chunks': "(('ok', ('DataTree', [('/', None, ('Dataset', {'x': 3}, {}, {'a': (('x',), "
                      "'int8', {'a': 1}, {}, True, 'ndarray', [1, 2, 3])}, {'level': 0, 'chunked': "
                      '"{\'x\': 2}"}, {})), (\'/g1\', \'g1\', (\'Dataset\', {\'x\': 3, \'y\': 2}, '
                      "{'b': (('x', 'y'), 'int64', {}, {}, True, 'ndarray', [[0, 1], [2, 3], [4, "
                      '5]])}, {}, {\'level\': 1, \'chunked\': "{\'x\': 2}"}, {})), (\'/g2\', '
                      "'g2', ('Dataset', {'rows': 4, 'cols': 6}, {'lazy': (('rows', 'cols'), "
                      "'uint16', {}, {'preferred_chunksizes': {'rows': 2, 'cols': 6}}, False, "
                      "'LazilyIndexedArray', [[100, 101, 102, 103, 104, 105], [106, 107, 108, 109, "
                      '110, 111], [112, 113, 114, 115, 116, 117], [118, 119, 120, 121, 122, '
                      "123]])}, {}, {'level': 1, 'chunked': '{}'}, {})), ('/g1/g11', 'g11', "
                      "('Dataset', {'z': 1}, {}, {'deep': (('z',), 'float64', {}, {}, True, "
                      "'ndarray', [1.5])}, {'level': 2, 'chunked': '{}'}, {})), ('/g1/g12', 'g12', "
                      "('Dataset', {}, {}, {}, {'empty': True, 'chunked': '{}'}, {}))])), "
                      "[('io.open', ('path',), {'use_cache': False}), ('chunk', ['a'], "
                      '"{\'x\': 2}", [\'x\'], (), {}), (\'chunk\', [\'a\'], "{\'x\': 2}", [\'x\'], '
                      '(), {}), (\'chunk\', [\'b\'], "{\'x\': 2}", [\'x\'], (), {}), (\'chunk\', '
                      "['deep'], '{}', [], (), {}), ('chunk', [], '{}', [], (), {}), ('chunk', "
                      "['lazy'], '{}', [], (), {})], [])",
 'open_alos2-chunks-real': '((\'raise\', \'ImportError\', "chunk manager \'dask\' is not '
                           'available. Please make sure \'dask\' is installed and importable."), '
                           "[('io.open', ('path',), {})], [])",
 'open_alos2-bad-options': "(('raise', 'TypeError', '__main__.open_alos2.<locals>.fake_open() "
                           "argument after ** must be a mapping, not NoneType'), [], [])",
 'open_alos2-failing': "(('raise', 'FileNotFoundError', 'no such product'), [('io.open', "
                       "('path',), {})], [])",
 'open_alos2-no-path': '((\'raise\', \'TypeError\', "open_alos2() missing 1 required positional '
                       'argument: \'path\'"), [], [])'}


def main(argv):
    results = {name: outcome(func) for name, func in CASES.items()}
    if "--record" in argv:
        pprint.pprint(results, width=100, sort_dicts=False, compact=True)
        return 0

    failures = []
    for name, actual in results.items():
        if name not in EXPECTED:
            failures.append(f"{name}: no expectation recorded")
        elif actual != EXPECTED[name]:
            failures.append(f"{name}:\n  expected {EXPECTED[name]!r}\n  actual   {actual!r}")

    # independent check against a hand-written tree
    tree = cxr.to_datatree(groups["nested"]())
    np.testing.assert_array_equal(tree["g2"]["lazy"].values, image)
    xr.testing.assert_identical(
        tree["g1/g11"].to_dataset(),
        xr.Dataset(coords={"deep": ("z", np.array([1.5]))}, attrs={"level": 2}),
    )

    if failures:
        print("\n".join(failures))
        print(f"FAILED: {len(failures)} of {len(results)} cases differ")
        return 1

    print(f"OK: {len(results)} cases identical to the recorded behaviour")
    return 0


if __name__ == "__main__":
    sys.exit(main(sys.argv[1:]))
