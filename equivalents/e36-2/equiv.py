import json
import math
import sys


def outcome(func, *args, **kwargs):
    """run func and describe the result (or the exception) as plain JSON data"""
    try:
        value = func(*args, **kwargs)
    except BaseException as exc:  # noqa: BLE001 - we compare every failure mode
        return ["raise", type(exc).__module__ + "." + type(exc).__qualname__, str(exc)]
    return ["return", describe(value)]


def describe(value):
    name = type(value).__module__ + "." + type(value).__qualname__
    if isinstance(value, float):
        return [name, "nan" if math.isnan(value) else repr(value)]
    if isinstance(value, complex):
        return [name, describe(value.real), describe(value.imag)]
    if isinstance(value, dict):
        return [
            name,
            [[describe(k), describe(v)] for k, v in value.items() if k != "_io"],
        ]
    if isinstance(value, (list, tuple)):
        return [name, [describe(v) for v in value]]
    return [name, repr(value)]


# --------------------------------------------------------------------------
# refactoring 2: DatetimeYdms._decode / DatetimeYdus._decode
#
# EXPECTED (below) was recorded with `equiv.py --record` on the unchanged
# HEAD (343c5cf); running the file (or pytest on it) replays every case and
# compares result types, values and exception types/messages.
# --------------------------------------------------------------------------
def make_line_record(year, day_of_year, milliseconds, microseconds, length=720, seed=0):
    """bytes of one fake signal / processed data record"""
    import random
    import struct

    rng = random.Random(seed)
    body = bytearray(rng.randrange(256) for _ in range(length))
    body[0:12] = struct.pack(">IBBBBI", 1 + seed, 50, 10, 18, 20, length)
    body[36:48] = struct.pack(">III", year, day_of_year, milliseconds)
    body[84:92] = struct.pack(">Q", microseconds)
    return bytes(body)


def collect():
    import datetime
    import struct

    from construct import Int8ub, Int32sb, Int32ub, Int64sb, Int64ub, Struct, this

    from ceos_alos2 import datatypes

    results = {}

    # --- DatetimeYdms through a struct of unsigned / signed integers
    ydms_values = [
        (1990, 270, 52032102), (2059, 1, 0), (2019, 365, 86399999), (2020, 366, 0),
        (2019, 366, 0), (2019, 0, 0), (2019, 1, 86400000), (2019, 1, 4294967295),
        (1, 1, 0), (0, 1, 0), (9999, 365, 86399999), (9999, 366, 0), (10000, 1, 0),
        (4294967295, 1, 0), (2019, 4294967295, 0), (2019, 1000000, 999), (1, 0, 0),
        (2014, 144, 1), (2100, 60, 43200000),
    ]
    unsigned = datatypes.DatetimeYdms(
        Struct("year" / Int32ub, "day_of_year" / Int32ub, "milliseconds" / Int32ub)
    )
    signed = datatypes.DatetimeYdms(
        Struct("year" / Int32sb, "day_of_year" / Int32sb, "milliseconds" / Int32sb)
    )
    for values in ydms_values:
        data = struct.pack(">III", *values)
        results[f"ydms-unsigned.parse{values}"] = outcome(unsigned.parse, data)
        results[f"ydms-signed.parse{values}"] = outcome(signed.parse, data)
    results["ydms.parse-short"] = outcome(unsigned.parse, b"\x00" * 11)
    results["ydms.build"] = outcome(unsigned.build, datetime.datetime(2019, 1, 1))
    results["ydms.sizeof"] = outcome(unsigned.sizeof)

    # --- DatetimeYdms._decode called directly with unusual field values
    objects = {
        "plain": {"year": 2019, "day_of_year": 32, "milliseconds": 1500},
        "extra": {"year": 2019, "day_of_year": 32, "milliseconds": 1500, "seconds": 7},
        "float-ms": {"year": 2019, "day_of_year": 32, "milliseconds": 1500.75},
        "float-day": {"year": 2019, "day_of_year": 1.5, "milliseconds": 0},
        "float-year": {"year": 2019.0, "day_of_year": 1, "milliseconds": 0},
        "str-year": {"year": "2019", "day_of_year": 1, "milliseconds": 0},
        "none-year": {"year": None, "day_of_year": 1, "milliseconds": 0},
        "str-day": {"year": 2019, "day_of_year": "1", "milliseconds": 0},
        "none-ms": {"year": 2019, "day_of_year": 1, "milliseconds": None},
        "negative": {"year": 2019, "day_of_year": -10, "milliseconds": -5},
        "bool": {"year": True, "day_of_year": True, "milliseconds": True},
        "huge-days": {"year": 2019, "day_of_year": 10**10, "milliseconds": 0},
        "huge-ms": {"year": 2019, "day_of_year": 1, "milliseconds": 10**30},
        "no-year": {"day_of_year": 1, "milliseconds": 0},
        "no-day": {"year": 2019, "milliseconds": 0},
        "no-ms": {"year": 2019, "day_of_year": 1},
        "empty": {},
        # which failure wins when several fields are bad
        "bad-year+no-day": {"year": 0, "milliseconds": 0},
        "no-year+str-day": {"day_of_year": "1", "milliseconds": 0},
        "bad-year+str-day": {"year": 10000, "day_of_year": "1", "milliseconds": 0},
        "str-day+no-ms": {"year": 2019, "day_of_year": "1"},
        "not-a-mapping": None,
        "list": [2019, 1, 0],
    }
    for label, obj in objects.items():
        results[f"ydms._decode[{label}]"] = outcome(unsigned._decode, obj, {}, "(path)")

    # --- DatetimeYdus: fixed references, callables and context expressions
    class Calls:
        def __init__(self, value):
            self.value = value
            self.seen = []

        def __call__(self, context):
            self.seen.append(
                {k: v for k, v in context.items() if not k.startswith("_")}
                if isinstance(context, dict)
                else context
            )
            if isinstance(self.value, BaseException):
                raise self.value
            return self.value

    class Aware(datetime.tzinfo):
        def utcoffset(self, dt):
            return datetime.timedelta(hours=9)

        def dst(self, dt):
            return None

        def tzname(self, dt):
            return "JST"

    class SubDatetime(datetime.datetime):
        pass

    reference = datetime.datetime(2019, 1, 1, 21, 37, 52, 107000)
    references = {
        "datetime": lambda: reference,
        "midnight": lambda: datetime.datetime(2020, 2, 29),
        "aware": lambda: reference.replace(tzinfo=Aware()),
        "subclass": lambda: SubDatetime(2021, 12, 31, 23, 59, 59, 999999),
        "min": lambda: datetime.datetime.min,
        "max": lambda: datetime.datetime.max,
        "date": lambda: datetime.date(2019, 1, 1),
        "none": lambda: None,
        "string": lambda: "2019-01-01",
        "callable": lambda: Calls(reference),
        "callable-none": lambda: Calls(None),
        "callable-date": lambda: Calls(datetime.date(2019, 5, 5)),
        "callable-raises": lambda: Calls(LookupError("no reference")),
        "lambda-context": lambda: (lambda ctx: ctx["ref"]),
        "this": lambda: this.ref,
        "this-nested": lambda: this._.ref,
        "type": lambda: datetime.datetime,
    }
    offsets = [0, 1, 40669000000, 86399999999, 86400000000, 10**15, 2**63 - 1, 2**63, 2**64 - 1]
    for label, make in references.items():
        for offset in offsets:
            ref = make()
            parser = datatypes.DatetimeYdus(Int64ub, ref)
            key = f"ydus[{label}].parse({offset})"
            results[key] = outcome(parser.parse, struct.pack(">Q", offset), ref=reference)
            if isinstance(ref, Calls):
                results[key + ".calls"] = describe(ref.seen)
        for offset in (-1, -86400000000, -(2**63)):
            parser = datatypes.DatetimeYdus(Int64sb, make())
            results[f"ydus[{label}].parse({offset})"] = outcome(
                parser.parse, struct.pack(">q", offset), ref=reference
            )
        for obj in (1.5, True, None, "12", [1], float("nan"), float("inf"), 10**40):
            parser = datatypes.DatetimeYdus(Int64ub, make())
            results[f"ydus[{label}]._decode({obj!r})"] = outcome(
                parser._decode, obj, {"ref": reference, "_": {"ref": reference}}, "(path)"
            )

    parser = datatypes.DatetimeYdus(Int64ub, reference)
    results["ydus.attrs"] = describe(
        [sorted(k for k in vars(parser) if not k.startswith("_")), parser.reference_date]
    )
    results["ydus.build"] = outcome(parser.build, reference)
    results["ydus.sizeof"] = outcome(parser.sizeof)
    results["ydus.parse-short"] = outcome(parser.parse, b"\x00" * 7)
    results["ydus.positional-only"] = outcome(datatypes.DatetimeYdus, Int64ub)
    results["ydus.keywords"] = outcome(
        lambda: datatypes.DatetimeYdus(base=Int64ub, reference_date=reference).parse(b"\x00" * 8)
    )
    # the attribute is looked up at parse time
    parser = datatypes.DatetimeYdus(Int64ub, reference)
    parser.reference_date = Calls(datetime.datetime(2000, 6, 15, 12))
    results["ydus.reassigned"] = outcome(parser.parse, struct.pack(">Q", 61000001))
    results["ydus.reassigned.calls"] = describe(parser.reference_date.seen)

    # --- in a struct, referring to an earlier member (how signal_data uses it)
    record = Struct(
        "n" / Int8ub,
        "date" / unsigned,
        "exact" / datatypes.DatetimeYdus(Int64ub, this.date),
        "nested" / Struct("again" / datatypes.DatetimeYdus(Int64ub, this._.date)),
    )
    for values in [(2019, 32, 1500), (2020, 366, 86399999), (9999, 365, 0), (0, 1, 0)]:
        for offset in (0, 3723000004, 86400000000 * 3):
            data = b"\x07" + struct.pack(">IIIQQ", *values, offset, offset + 1)
            results[f"struct.parse{values}+{offset}"] = outcome(record.parse, data)
    bad = Struct("exact" / datatypes.DatetimeYdus(Int64ub, this.date))
    results["struct.parse-missing-reference"] = outcome(bad.parse, b"\x00" * 8)

    # --- the real line records
    from ceos_alos2.sar_image import io
    from ceos_alos2.sar_image.processed_data import processed_data_record
    from ceos_alos2.sar_image.signal_data import signal_data_record

    def summary(record):
        return [
            record["sensor_acquisition_date"],
            record.get("sensor_acquisition_date_microseconds"),
            record["data"]["start"],
            record["data"]["size"],
            record["data"]["stop"],
        ]

    lines = [
        (2019, 32, 1500, 1500123),
        (2020, 366, 86399999, 86399999999),
        (2014, 144, 0, 0),
        (9999, 365, 86399999, 2**40),
        (2019, 1, 0, 2**64 - 1),
        (0, 1, 0, 0),
        (2019, 0, 0, 5),
    ]
    for index, line in enumerate(lines):
        data = make_line_record(*line, seed=index)
        results[f"signal.parse{line}"] = outcome(lambda: summary(signal_data_record.parse(data)))
        results[f"processed.parse{line}"] = outcome(
            lambda: summary(processed_data_record.parse(data))
        )
    chunk = b"".join(make_line_record(*line, seed=index) for index, line in enumerate(lines[:3]))
    results["parse_chunk"] = outcome(lambda: [summary(r) for r in io.parse_chunk(chunk, 720)])
    full = signal_data_record.parse(make_line_record(*lines[0], seed=11))
    results["signal.parse-full"] = describe(full)

    return results


EXPECTED = r"""
{
"parse_chunk": ["return", ["builtins.list", [["builtins.list", [["datetime.datetime", "datetime.datetime(2019, 2, 1, 0, 0, 1, 500000)"], ["datetime.datetime", "datetime.datetime(2019, 2, 1, 0, 0, 1, 500123)"], ["builtins.int", "544"], ["builtins.int", "176"], ["builtins.int", "720"]]], ["builtins.list", [["datetime.datetime", "datetime.datetime(2020, 12, 31, 23, 59, 59, 999000)"], ["datetime.datetime", "datetime.datetime(2020, 12, 31, 23, 59, 59, 999999)"], ["builtins.int", "1264"], ["builtins.int", "176"], ["builtins.int", "1440"]]], ["builtins.list", [["datetime.datetime", "datetime.datetime(2014, 5, 24, 0, 0)"], ["datetime.datetime", "datetime.datetime(2014, 5, 24, 0, 0)"], ["builtins.int", "1984"], ["builtins.int", "176"], ["builtins.int", "2160"]]]]]],
"processed.parse(0, 1, 0, 0)": ["raise", "builtins.ValueError", "year 0 is out of range"],
"processed.parse(2014, 144, 0, 0)": ["return", ["builtins.list", [["datetime.datetime", "datetime.datetime(2014, 5, 24, 0, 0)"], ["builtins.NoneType", "None"], ["builtins.int", "192"], ["builtins.int", "528"], ["builtins.int", "720"]]]],
"processed.parse(2019, 0, 0, 5)": ["return", ["builtins.list", [["datetime.datetime", "datetime.datetime(2018, 12, 31, 0, 0)"], ["builtins.NoneType", "None"], ["builtins.int", "192"], ["builtins.int", "528"], ["builtins.int", "720"]]]],
"processed.parse(2019, 1, 0, 18446744073709551615)": ["return", ["builtins.list", [["datetime.datetime", "datetime.datetime(2019, 1, 1, 0, 0)"], ["builtins.NoneType", "None"], ["builtins.int", "192"], ["builtins.int", "528"], ["builtins.int", "720"]]]],
"processed.parse(2019, 32, 1500, 1500123)": ["return", ["builtins.list", [["datetime.datetime", "datetime.datetime(2019, 2, 1, 0, 0, 1, 500000)"], ["builtins.NoneType", "None"], ["builtins.int", "192"], ["builtins.int", "528"], ["builtins.int", "720"]]]],
"processed.parse(2020, 366, 86399999, 86399999999)": ["return", ["builtins.list", [["datetime.datetime", "datetime.datetime(2020, 12, 31, 23, 59, 59, 999000)"], ["builtins.NoneType", "None"], ["builtins.int", "192"], ["builtins.int", "528"], ["builtins.int", "720"]]]],
"processed.parse(9999, 365, 86399999, 1099511627776)": ["return", ["builtins.list", [["datetime.datetime", "datetime.datetime(9999, 12, 31, 23, 59, 59, 999000)"], ["builtins.NoneType", "None"], ["builtins.int", "192"], ["builtins.int", "528"], ["builtins.int", "720"]]]],
"signal.parse(0, 1, 0, 0)": ["raise", "builtins.ValueError", "year 0 is out of range"],
"signal.parse(2014, 144, 0, 0)": ["return", ["builtins.list", [["datetime.datetime", "datetime.datetime(2014, 5, 24, 0, 0)"], ["datetime.datetime", "datetime.datetime(2014, 5, 24, 0, 0)"], ["builtins.int", "544"], ["builtins.int", "176"], ["builtins.int", "720"]]]],
"signal.parse(2019, 0, 0, 5)": ["return", ["builtins.list", [["datetime.datetime", "datetime.datetime(2018, 12, 31, 0, 0)"], ["datetime.datetime", "datetime.datetime(2018, 12, 31, 0, 0, 0, 5)"], ["builtins.int", "544"], ["builtins.int", "176"], ["builtins.int", "720"]]]],
"signal.parse(2019, 1, 0, 18446744073709551615)": ["raise", "builtins.OverflowError", "date value out of range"],
"signal.parse(2019, 32, 1500, 1500123)": ["return", ["builtins.list", [["datetime.datetime", "datetime.datetime(2019, 2, 1, 0, 0, 1, 500000)"], ["datetime.datetime", "datetime.datetime(2019, 2, 1, 0, 0, 1, 500123)"], ["builtins.int", "544"], ["builtins.int", "176"], ["builtins.int", "720"]]]],
"signal.parse(2020, 366, 86399999, 86399999999)": ["return", ["builtins.list", [["datetime.datetime", "datetime.datetime(2020, 12, 31, 23, 59, 59, 999000)"], ["datetime.datetime", "datetime.datetime(2020, 12, 31, 23, 59, 59, 999999)"], ["builtins.int", "544"], ["builtins.int", "176"], ["builtins.int", "720"]]]],
"signal.parse(9999, 365, 86399999, 1099511627776)": ["raise", "builtins.OverflowError", "date value out of range"],
"signal.parse-full": ["construct.lib.containers.Container", [[["builtins.str", "'record_start'"], ["builtins.int", "0"]], [["builtins.str", "'preamble'"], ["construct.lib.containers.Container", [[["builtins.str", "'record_sequence_number'"], ["builtins.int", "12"]], [["builtins.str", "'first_record_subtype'"], ["builtins.int", "50"]], [["builtins.str", "'record_type'"], ["builtins.int", "10"]], [["builtins.str", "'second_record_subtype'"], ["builtins.int", "18"]], [["builtins.str", "'third_record_subtype'"], ["builtins.int", "20"]], [["builtins.str", "'record_length'"], ["builtins.int", "720"]]]]], [["builtins.str", "'sar_image_data_line_number'"], ["builtins.int", "365619024"]], [["builtins.str", "'sar_image_data_record_index'"], ["builtins.int", "119545362"]], [["builtins.str", "'actual_count_of_left_fill_pixels'"], ["builtins.int", "1635454957"]], [["builtins.str", "'actual_count_of_data_pixels'"], ["builtins.int", "2816566391"]], [["builtins.str", "'actual_count_of_right_fill_pixels'"], ["builtins.int", "2533294635"]], [["builtins.str", "'sensor_parameters_update_flag'"], ["builtins.int", "3935227946"]], [["builtins.str", "'sensor_acquisition_date'"], ["datetime.datetime", "datetime.datetime(2019, 2, 1, 0, 0, 1, 500000)"]], [["builtins.str", "'sar_channel_id'"], ["construct.core.EnumInteger", "2048"]], [["builtins.str", "'sar_channel_code'"], ["construct.core.EnumInteger", "28011"]], [["builtins.str", "'transmitted_pulse_polarization'"], ["construct.core.EnumInteger", "6896"]], [["builtins.str", "'received_pulse_polarization'"], ["construct.core.EnumInteger", "49355"]], [["builtins.str", "'prf'"], ["builtins.tuple", [["builtins.int", "3592775050"], ["builtins.dict", [[["builtins.str", "'units'"], ["builtins.str", "'mHz'"]]]]]]], [["builtins.str", "'scan_id'"], ["builtins.int", "2888605610"]], [["builtins.str", "'onboard_range_compressed_flag'"], ["builtins.bool", "True"]], [["builtins.str", "'chirp_type_designator'"], ["construct.core.EnumInteger", "15428"]], [["builtins.str", "'chirp_length'"], ["builtins.tuple", [["builtins.int", "2117272862"], ["builtins.dict", [[["builtins.str", "'units'"], ["builtins.str", "'ns'"]]]]]]], [["builtins.str", "'chirp_constant_coefficient'"], ["builtins.tuple", [["builtins.int", "4009319008"], ["builtins.dict", [[["builtins.str", "'units'"], ["builtins.str", "'Hz'"]]]]]]], [["builtins.str", "'chirp_linear_coefficient'"], ["builtins.tuple", [["builtins.int", "3848356822"], ["builtins.dict", [[["builtins.str", "'units'"], ["builtins.str", "'Hz/\u00b5s'"]]]]]]], [["builtins.str", "'chirp_quadratic_coefficient'"], ["builtins.tuple", [["builtins.int", "3292252887"], ["builtins.dict", [[["builtins.str", "'units'"], ["builtins.str", "'Hz/\u00b5s^2'"]]]]]]], [["builtins.str", "'sensor_acquisition_date_microseconds'"], ["datetime.datetime", "datetime.datetime(2019, 2, 1, 0, 0, 1, 500123)"]], [["builtins.str", "'receiver_gain'"], ["builtins.tuple", [["builtins.int", "857033325"], ["builtins.dict", [[["builtins.str", "'units'"], ["builtins.str", "'dB'"]]]]]]], [["builtins.str", "'invalid_line_flag'"], ["builtins.bool", "True"]], [["builtins.str", "'elevation_angle_at_nadir_of_antenna'"], ["construct.lib.containers.Container", [[["builtins.str", "'electronic'"], ["builtins.tuple", [["builtins.int", "2546279718"], ["builtins.dict", [[["builtins.str", "'units'"], ["builtins.str", "'deg'"]]]]]]], [["builtins.str", "'mechanic'"], ["builtins.tuple", [["builtins.int", "778730503"], ["builtins.dict", [[["builtins.str", "'units'"], ["builtins.str", "'deg'"]]]]]]]]]], [["builtins.str", "'antenna_squint_angle'"], ["construct.lib.containers.Container", [[["builtins.str", "'electronic'"], ["builtins.tuple", [["builtins.int", "3166627905"], ["builtins.dict", [[["builtins.str", "'units'"], ["builtins.str", "'deg'"]]]]]]], [["builtins.str", "'mechanic'"], ["builtins.tuple", [["builtins.int", "4148544861"], ["builtins.dict", [[["builtins.str", "'units'"], ["builtins.str", "'deg'"]]]]]]]]]], [["builtins.str", "'slant_range_to_first_data_sample'"], ["builtins.tuple", [["builtins.int", "1319072895"], ["builtins.dict", [[["builtins.str", "'units'"], ["builtins.str", "'m'"]]]]]]], [["builtins.str", "'data_record_window_position'"], ["builtins.tuple", [["builtins.int", "1632724166"], ["builtins.dict", [[["builtins.str", "'units'"], ["builtins.str", "'ns'"]]]]]]], [["builtins.str", "'blanks1'"], ["builtins.int", "4146648856"]], [["builtins.str", "'platform_position_parameters_update_flag'"], ["construct.core.EnumInteger", "892801922"]], [["builtins.str", "'platform_latitude'"], ["builtins.tuple", [["builtins.float", "2059.961303"], ["builtins.dict", [[["builtins.str", "'units'"], ["builtins.str", "'deg'"]]]]]]], [["builtins.str", "'platform_longitude'"], ["builtins.tuple", [["builtins.float", "4220.934435"], ["builtins.dict", [[["builtins.str", "'units'"], ["builtins.str", "'deg'"]]]]]]], [["builtins.str", "'platform_altitude'"], ["builtins.tuple", [["builtins.int", "1081406757"], ["builtins.dict", [[["builtins.str", "'units'"], ["builtins.str", "'deg'"]]]]]]], [["builtins.str", "'platform_ground_speed'"], ["builtins.tuple", [["builtins.int", "2406246408"], ["builtins.dict", [[["builtins.str", "'units'"], ["builtins.str", "'cm/s'"]]]]]]], [["builtins.str", "'platform_velocity'"], ["construct.lib.containers.Container", [[["builtins.str", "'x'"], ["builtins.tuple", [["builtins.int", "596234980"], ["builtins.dict", [[["builtins.str", "'units'"], ["builtins.str", "'cm/s'"]]]]]]], [["builtins.str", "'y'"], ["builtins.tuple", [["builtins.int", "2132678490"], ["builtins.dict", [[["builtins.str", "'units'"], ["builtins.str", "'cm/s'"]]]]]]], [["builtins.str", "'z'"], ["builtins.tuple", [["builtins.int", "2428257071"], ["builtins.dict", [[["builtins.str", "'units'"], ["builtins.str", "'cm/s'"]]]]]]]]]], [["builtins.str", "'platform_acceleration'"], ["construct.lib.containers.Container", [[["builtins.str", "'x'"], ["builtins.tuple", [["builtins.int", "3108431529"], ["builtins.dict", [[["builtins.str", "'units'"], ["builtins.str", "'cm/s^2'"]]]]]]], [["builtins.str", "'y'"], ["builtins.tuple", [["builtins.int", "1192298995"], ["builtins.dict", [[["builtins.str", "'units'"], ["builtins.str", "'cm/s^2'"]]]]]]], [["builtins.str", "'z'"], ["builtins.tuple", [["builtins.int", "3080655114"], ["builtins.dict", [[["builtins.str", "'units'"], ["builtins.str", "'cm/s^2'"]]]]]]]]]], [["builtins.str", "'platform_track_angle'"], ["builtins.tuple", [["builtins.float", "653.6649269999999"], ["builtins.dict", [[["builtins.str", "'units'"], ["builtins.str", "'deg'"]]]]]]], [["builtins.str", "'platform_true_track_angle'"], ["builtins.tuple", [["builtins.float", "2739.217702"], ["builtins.dict", [[["builtins.str", "'units'"], ["builtins.str", "'deg'"]]]]]]], [["builtins.str", "'platform_attitude'"], ["construct.lib.containers.Container", [[["builtins.str", "'pitch'"], ["builtins.tuple", [["builtins.float", "3887.8633619999996"], ["builtins.dict", [[["builtins.str", "'units'"], ["builtins.str", "'deg'"]]]]]]], [["builtins.str", "'roll'"], ["builtins.tuple", [["builtins.float", "2931.043314"], ["builtins.dict", [[["builtins.str", "'units'"], ["builtins.str", "'deg'"]]]]]]], [["builtins.str", "'yaw'"], ["builtins.tuple", [["builtins.float", "668.274687"], ["builtins.dict", [[["builtins.str", "'units'"], ["builtins.str", "'deg'"]]]]]]]]]], [["builtins.str", "'latitude_of_first_pixel'"], ["builtins.tuple", [["builtins.float", "130.269702"], ["builtins.dict", [[["builtins.str", "'units'"], ["builtins.str", "'deg'"]]]]]]], [["builtins.str", "'latitude_of_center_pixel'"], ["builtins.tuple", [["builtins.float", "606.678587"], ["builtins.dict", [[["builtins.str", "'units'"], ["builtins.str", "'deg'"]]]]]]], [["builtins.str", "'latitude_of_last_pixel'"], ["builtins.tuple", [["builtins.float", "2211.8179259999997"], ["builtins.dict", [[["builtins.str", "'units'"], ["builtins.str", "'deg'"]]]]]]], [["builtins.str", "'longitude_of_first_pixel'"], ["builtins.tuple", [["builtins.float", "3940.6746019999996"], ["builtins.dict", [[["builtins.str", "'units'"], ["builtins.str", "'deg'"]]]]]]], [["builtins.str", "'longitude_of_center_pixel'"], ["builtins.tuple", [["builtins.float", "262.024438"], ["builtins.dict", [[["builtins.str", "'units'"], ["builtins.str", "'deg'"]]]]]]], [["builtins.str", "'longitude_of_last_pixel'"], ["builtins.tuple", [["builtins.float", "192.231934"], ["builtins.dict", [[["builtins.str", "'units'"], ["builtins.str", "'deg'"]]]]]]], [["builtins.str", "'burst_number'"], ["builtins.int", "4169270716"]], [["builtins.str", "'line_number_in_this_burst'"], ["builtins.int", "2588501846"]], [["builtins.str", "'blanks2'"], ["builtins.bytes", "b\"\\xaf\\xe2\\xff{\\xa7\\xcf\\x80e\\xdcfm\\xc4p\\xa2kED\\xfe\\xb3\\x14 \\x8dV9\\xe6\\xf1\\x8cm\\xd3\\xc3\\xfc\\xa1\\xe7\\xa4&\\x10\\x8e\\x15\\x8f\\xb5\\x9e\\tE\\xcf\\xe8a\\x0c\\x88yH\\x18;\\xe47\\xbc'ef\\xf3\\x83\""]], [["builtins.str", "'alos2_frame_number'"], ["builtins.int", "1527116050"]], [["builtins.str", "'palsar_auxiliary_data'"], ["builtins.bytes", "b\"[s\\x8b\\xb1Q\\xc9r,\\xd2\\xc6B\\xe6\\xe8d\\x03\\xc0\\xaf\\xed\\xa7h2?m|\\xc7,\\x9e\\xa4\\x86\\x08\\xb2*\\x13\\xe1\\xaf\\xd7\\x8c\\xf9\\x0eo \\xdb\\x11X\\xabG\\xf0L\\xe1\\xfc,q\\xe0\\x94T\\x83\\x9f\\xc3j\\x9bH\\x8b\\xfef\\xd2:\\x02\\xc1\\x0e\\x16\\xcd>\\xfb/U!\\xea\\xd3\\xce\\x89~\\xf2\\xfcA\\xad\\xde\\xf3\\xa27b\\xd6\\x0f\\x85B\\x0b\\x12cOt\\x06\\x91\\xa4\\xb5}\\xff5\\xff>\\x80e\\xdf\\x0b\\xc0\\xd3QhonEw\\xb1\\\\\\xa1\\xa1coc1DzC-\\x84\\xc61\\xde\\xd7@f\\xce\\t1f\\xb7\\xb8;\\xaf`$\\xf66\\x0c\\x13\\xf6Ka^:hXP\\x900\\x1fD\\xec'1\\xa7\\xc8\\xef\\xda\\xb5\\xdck\\xbf\\x06\\x14f\\\\\\xd0\\xe8\\xb8\\xbd\\xcfcT0\\x07\\xa5+\\xcfa\\xae\\x84\\x8f;Q\\xcfD\\xa8\\xbd\\xdd\\\\\\xcfi^$\\xae\\x9a\\xf03\\x05\\xb6\\x19v\\x8b\\x99\\xacn\\xcf]'\\xc7\\xfem=\\xca\\x0b:7y\\x83\\xe3\\xcd\\x19d\\xc0\\x052\\x84\\x80\\x8d\\xae\\xd43\\xe3'\\x17\\xc5Q\\xc5\\xf1V\\xfd\\x1d\""]], [["builtins.str", "'data'"], ["construct.lib.containers.Container", [[["builtins.str", "'start'"], ["builtins.int", "544"]], [["builtins.str", "'size'"], ["builtins.int", "176"]], [["builtins.str", "'stop'"], ["builtins.int", "720"]]]]]]],
"struct.parse(0, 1, 0)+0": ["raise", "builtins.ValueError", "year 0 is out of range"],
"struct.parse(0, 1, 0)+259200000000": ["raise", "builtins.ValueError", "year 0 is out of range"],
"struct.parse(0, 1, 0)+3723000004": ["raise", "builtins.ValueError", "year 0 is out of range"],
"struct.parse(2019, 32, 1500)+0": ["return", ["construct.lib.containers.Container", [[["builtins.str", "'n'"], ["builtins.int", "7"]], [["builtins.str", "'date'"], ["datetime.datetime", "datetime.datetime(2019, 2, 1, 0, 0, 1, 500000)"]], [["builtins.str", "'exact'"], ["datetime.datetime", "datetime.datetime(2019, 2, 1, 0, 0)"]], [["builtins.str", "'nested'"], ["construct.lib.containers.Container", [[["builtins.str", "'again'"], ["datetime.datetime", "datetime.datetime(2019, 2, 1, 0, 0, 0, 1)"]]]]]]]],
"struct.parse(2019, 32, 1500)+259200000000": ["return", ["construct.lib.containers.Container", [[["builtins.str", "'n'"], ["builtins.int", "7"]], [["builtins.str", "'date'"], ["datetime.datetime", "datetime.datetime(2019, 2, 1, 0, 0, 1, 500000)"]], [["builtins.str", "'exact'"], ["datetime.datetime", "datetime.datetime(2019, 2, 4, 0, 0)"]], [["builtins.str", "'nested'"], ["construct.lib.containers.Container", [[["builtins.str", "'again'"], ["datetime.datetime", "datetime.datetime(2019, 2, 4, 0, 0, 0, 1)"]]]]]]]],
"struct.parse(2019, 32, 1500)+3723000004": ["return", ["construct.lib.containers.Container", [[["builtins.str", "'n'"], ["builtins.int", "7"]], [["builtins.str", "'date'"], ["datetime.datetime", "datetime.datetime(2019, 2, 1, 0, 0, 1, 500000)"]], [["builtins.str", "'exact'"], ["datetime.datetime", "datetime.datetime(2019, 2, 1, 1, 2, 3, 4)"]], [["builtins.str", "'nested'"], ["construct.lib.containers.Container", [[["builtins.str", "'again'"], ["datetime.datetime", "datetime.datetime(2019, 2, 1, 1, 2, 3, 5)"]]]]]]]],
"struct.parse(2020, 366, 86399999)+0": ["return", ["construct.lib.containers.Container", [[["builtins.str", "'n'"], ["builtins.int", "7"]], [["builtins.str", "'date'"], ["datetime.datetime", "datetime.datetime(2020, 12, 31, 23, 59, 59, 999000)"]], [["builtins.str", "'exact'"], ["datetime.datetime", "datetime.datetime(2020, 12, 31, 0, 0)"]], [["builtins.str", "'nested'"], ["construct.lib.containers.Container", [[["builtins.str", "'again'"], ["datetime.datetime", "datetime.datetime(2020, 12, 31, 0, 0, 0, 1)"]]]]]]]],
"struct.parse(2020, 366, 86399999)+259200000000": ["return", ["construct.lib.containers.Container", [[["builtins.str", "'n'"], ["builtins.int", "7"]], [["builtins.str", "'date'"], ["datetime.datetime", "datetime.datetime(2020, 12, 31, 23, 59, 59, 999000)"]], [["builtins.str", "'exact'"], ["datetime.datetime", "datetime.datetime(2021, 1, 3, 0, 0)"]], [["builtins.str", "'nested'"], ["construct.lib.containers.Container", [[["builtins.str", "'again'"], ["datetime.datetime", "datetime.datetime(2021, 1, 3, 0, 0, 0, 1)"]]]]]]]],
"struct.parse(2020, 366, 86399999)+3723000004": ["return", ["construct.lib.containers.Container", [[["builtins.str", "'n'"], ["builtins.int", "7"]], [["builtins.str", "'date'"], ["datetime.datetime", "datetime.datetime(2020, 12, 31, 23, 59, 59, 999000)"]], [["builtins.str", "'exact'"], ["datetime.datetime", "datetime.datetime(2020, 12, 31, 1, 2, 3, 4)"]], [["builtins.str", "'nested'"], ["construct.lib.containers.Container", [[["builtins.str", "'again'"], ["datetime.datetime", "datetime.datetime(2020, 12, 31, 1, 2, 3, 5)"]]]]]]]],
"struct.parse(9999, 365, 0)+0": ["return", ["construct.lib.containers.Container", [[["builtins.str", "'n'"], ["builtins.int", "7"]], [["builtins.str", "'date'"], ["datetime.datetime", "datetime.datetime(9999, 12, 31, 0, 0)"]], [["builtins.str", "'exact'"], ["datetime.datetime", "datetime.datetime(9999, 12, 31, 0, 0)"]], [["builtins.str", "'nested'"], ["construct.lib.containers.Container", [[["builtins.str", "'again'"], ["datetime.datetime", "datetime.datetime(9999, 12, 31, 0, 0, 0, 1)"]]]]]]]],
"struct.parse(9999, 365, 0)+259200000000": ["raise", "builtins.OverflowError", "date value out of range"],
"struct.parse(9999, 365, 0)+3723000004": ["return", ["construct.lib.containers.Container", [[["builtins.str", "'n'"], ["builtins.int", "7"]], [["builtins.str", "'date'"], ["datetime.datetime", "datetime.datetime(9999, 12, 31, 0, 0)"]], [["builtins.str", "'exact'"], ["datetime.datetime", "datetime.datetime(9999, 12, 31, 1, 2, 3, 4)"]], [["builtins.str", "'nested'"], ["construct.lib.containers.Container", [[["builtins.str", "'again'"], ["datetime.datetime", "datetime.datetime(9999, 12, 31, 1, 2, 3, 5)"]]]]]]]],
"struct.parse-missing-reference": ["raise", "builtins.KeyError", "'date'"],
"ydms-signed.parse(0, 1, 0)": ["raise", "builtins.ValueError", "year 0 is out of range"],
"ydms-signed.parse(1, 0, 0)": ["raise", "builtins.OverflowError", "date value out of range"],
"ydms-signed.parse(1, 1, 0)": ["return", ["datetime.datetime", "datetime.datetime(1, 1, 1, 0, 0)"]],
"ydms-signed.parse(10000, 1, 0)": ["raise", "builtins.ValueError", "year 10000 is out of range"],
"ydms-signed.parse(1990, 270, 52032102)": ["return", ["datetime.datetime", "datetime.datetime(1990, 9, 27, 14, 27, 12, 102000)"]],
"ydms-signed.parse(2014, 144, 1)": ["return", ["datetime.datetime", "datetime.datetime(2014, 5, 24, 0, 0, 0, 1000)"]],
"ydms-signed.parse(2019, 0, 0)": ["return", ["datetime.datetime", "datetime.datetime(2018, 12, 31, 0, 0)"]],
"ydms-signed.parse(2019, 1, 4294967295)": ["return", ["datetime.datetime", "datetime.datetime(2018, 12, 31, 23, 59, 59, 999000)"]],
"ydms-signed.parse(2019, 1, 86400000)": ["return", ["datetime.datetime", "datetime.datetime(2019, 1, 2, 0, 0)"]],
"ydms-signed.parse(2019, 1000000, 999)": ["return", ["datetime.datetime", "datetime.datetime(4756, 11, 27, 0, 0, 0, 999000)"]],
"ydms-signed.parse(2019, 365, 86399999)": ["return", ["datetime.datetime", "datetime.datetime(2019, 12, 31, 23, 59, 59, 999000)"]],
"ydms-signed.parse(2019, 366, 0)": ["return", ["datetime.datetime", "datetime.datetime(2020, 1, 1, 0, 0)"]],
"ydms-signed.parse(2019, 4294967295, 0)": ["return", ["datetime.datetime", "datetime.datetime(2018, 12, 30, 0, 0)"]],
"ydms-signed.parse(2020, 366, 0)": ["return", ["datetime.datetime", "datetime.datetime(2020, 12, 31, 0, 0)"]],
"ydms-signed.parse(2059, 1, 0)": ["return", ["datetime.datetime", "datetime.datetime(2059, 1, 1, 0, 0)"]],
"ydms-signed.parse(2100, 60, 43200000)": ["return", ["datetime.datetime", "datetime.datetime(2100, 3, 1, 12, 0)"]],
"ydms-signed.parse(4294967295, 1, 0)": ["raise", "builtins.ValueError", "year -1 is out of range"],
"ydms-signed.parse(9999, 365, 86399999)": ["return", ["datetime.datetime", "datetime.datetime(9999, 12, 31, 23, 59, 59, 999000)"]],
"ydms-signed.parse(9999, 366, 0)": ["raise", "builtins.OverflowError", "date value out of range"],
"ydms-unsigned.parse(0, 1, 0)": ["raise", "builtins.ValueError", "year 0 is out of range"],
"ydms-unsigned.parse(1, 0, 0)": ["raise", "builtins.OverflowError", "date value out of range"],
"ydms-unsigned.parse(1, 1, 0)": ["return", ["datetime.datetime", "datetime.datetime(1, 1, 1, 0, 0)"]],
"ydms-unsigned.parse(10000, 1, 0)": ["raise", "builtins.ValueError", "year 10000 is out of range"],
"ydms-unsigned.parse(1990, 270, 52032102)": ["return", ["datetime.datetime", "datetime.datetime(1990, 9, 27, 14, 27, 12, 102000)"]],
"ydms-unsigned.parse(2014, 144, 1)": ["return", ["datetime.datetime", "datetime.datetime(2014, 5, 24, 0, 0, 0, 1000)"]],
"ydms-unsigned.parse(2019, 0, 0)": ["return", ["datetime.datetime", "datetime.datetime(2018, 12, 31, 0, 0)"]],
"ydms-unsigned.parse(2019, 1, 4294967295)": ["return", ["datetime.datetime", "datetime.datetime(2019, 2, 19, 17, 2, 47, 295000)"]],
"ydms-unsigned.parse(2019, 1, 86400000)": ["return", ["datetime.datetime", "datetime.datetime(2019, 1, 2, 0, 0)"]],
"ydms-unsigned.parse(2019, 1000000, 999)": ["return", ["datetime.datetime", "datetime.datetime(4756, 11, 27, 0, 0, 0, 999000)"]],
"ydms-unsigned.parse(2019, 365, 86399999)": ["return", ["datetime.datetime", "datetime.datetime(2019, 12, 31, 23, 59, 59, 999000)"]],
"ydms-unsigned.parse(2019, 366, 0)": ["return", ["datetime.datetime", "datetime.datetime(2020, 1, 1, 0, 0)"]],
"ydms-unsigned.parse(2019, 4294967295, 0)": ["raise", "builtins.OverflowError", "Python int too large to convert to C int"],
"ydms-unsigned.parse(2020, 366, 0)": ["return", ["datetime.datetime", "datetime.datetime(2020, 12, 31, 0, 0)"]],
"ydms-unsigned.parse(2059, 1, 0)": ["return", ["datetime.datetime", "datetime.datetime(2059, 1, 1, 0, 0)"]],
"ydms-unsigned.parse(2100, 60, 43200000)": ["return", ["datetime.datetime", "datetime.datetime(2100, 3, 1, 12, 0)"]],
"ydms-unsigned.parse(4294967295, 1, 0)": ["raise", "builtins.OverflowError", "signed integer is greater than maximum"],
"ydms-unsigned.parse(9999, 365, 86399999)": ["return", ["datetime.datetime", "datetime.datetime(9999, 12, 31, 23, 59, 59, 999000)"]],
"ydms-unsigned.parse(9999, 366, 0)": ["raise", "builtins.OverflowError", "date value out of range"],
"ydms._decode[bad-year+no-day]": ["raise", "builtins.ValueError", "year 0 is out of range"],
"ydms._decode[bad-year+str-day]": ["raise", "builtins.ValueError", "year 10000 is out of range"],
"ydms._decode[bool]": ["return", ["datetime.datetime", "datetime.datetime(1, 1, 1, 0, 0, 0, 1000)"]],
"ydms._decode[empty]": ["raise", "builtins.KeyError", "'year'"],
"ydms._decode[extra]": ["return", ["datetime.datetime", "datetime.datetime(2019, 2, 1, 0, 0, 1, 500000)"]],
"ydms._decode[float-day]": ["return", ["datetime.datetime", "datetime.datetime(2019, 1, 1, 12, 0)"]],
"ydms._decode[float-ms]": ["return", ["datetime.datetime", "datetime.datetime(2019, 2, 1, 0, 0, 1, 500750)"]],
"ydms._decode[float-year]": ["raise", "builtins.TypeError", "'float' object cannot be interpreted as an integer"],
"ydms._decode[huge-days]": ["raise", "builtins.OverflowError", "Python int too large to convert to C int"],
"ydms._decode[huge-ms]": ["raise", "builtins.OverflowError", "Python int too large to convert to C int"],
"ydms._decode[list]": ["raise", "builtins.TypeError", "list indices must be integers or slices, not str"],
"ydms._decode[negative]": ["return", ["datetime.datetime", "datetime.datetime(2018, 12, 20, 23, 59, 59, 995000)"]],
"ydms._decode[no-day]": ["raise", "builtins.KeyError", "'day_of_year'"],
"ydms._decode[no-ms]": ["raise", "builtins.KeyError", "'milliseconds'"],
"ydms._decode[no-year+str-day]": ["raise", "builtins.KeyError", "'year'"],
"ydms._decode[no-year]": ["raise", "builtins.KeyError", "'year'"],
"ydms._decode[none-ms]": ["raise", "builtins.TypeError", "unsupported type for timedelta milliseconds component: NoneType"],
"ydms._decode[none-year]": ["raise", "builtins.TypeError", "'NoneType' object cannot be interpreted as an integer"],
"ydms._decode[not-a-mapping]": ["raise", "builtins.TypeError", "'NoneType' object is not subscriptable"],
"ydms._decode[plain]": ["return", ["datetime.datetime", "datetime.datetime(2019, 2, 1, 0, 0, 1, 500000)"]],
"ydms._decode[str-day+no-ms]": ["raise", "builtins.TypeError", "unsupported operand type(s) for -: 'str' and 'int'"],
"ydms._decode[str-day]": ["raise", "builtins.TypeError", "unsupported operand type(s) for -: 'str' and 'int'"],
"ydms._decode[str-year]": ["raise", "builtins.TypeError", "'str' object cannot be interpreted as an integer"],
"ydms.build": ["raise", "builtins.NotImplementedError", ""],
"ydms.parse-short": ["raise", "construct.core.StreamError", "Error in path (parsing) -> milliseconds\nstream read less than specified amount, expected 4, found 3"],
"ydms.sizeof": ["return", ["builtins.int", "12"]],
"ydus.attrs": ["builtins.list", [["builtins.list", [["builtins.str", "'docs'"], ["builtins.str", "'flagbuildnone'"], ["builtins.str", "'name'"], ["builtins.str", "'parsed'"], ["builtins.str", "'reference_date'"], ["builtins.str", "'subcon'"]]], ["datetime.datetime", "datetime.datetime(2019, 1, 1, 21, 37, 52, 107000)"]]],
"ydus.build": ["raise", "builtins.NotImplementedError", ""],
"ydus.keywords": ["return", ["datetime.datetime", "datetime.datetime(2019, 1, 1, 0, 0)"]],
"ydus.parse-short": ["raise", "construct.core.StreamError", "Error in path (parsing)\nstream read less than specified amount, expected 8, found 7"],
"ydus.positional-only": ["raise", "builtins.TypeError", "DatetimeYdus.__init__() missing 1 required positional argument: 'reference_date'"],
"ydus.reassigned": ["return", ["datetime.datetime", "datetime.datetime(2000, 6, 15, 0, 1, 1, 1)"]],
"ydus.reassigned.calls": ["builtins.list", [["builtins.dict", []]]],
"ydus.sizeof": ["return", ["builtins.int", "8"]],
"ydus[aware]._decode('12')": ["raise", "builtins.TypeError", "unsupported type for timedelta microseconds component: str"],
"ydus[aware]._decode(1.5)": ["return", ["datetime.datetime", "datetime.datetime(2019, 1, 1, 0, 0, 0, 2)"]],
"ydus[aware]._decode(10000000000000000000000000000000000000000)": ["raise", "builtins.OverflowError", "Python int too large to convert to C int"],
"ydus[aware]._decode(None)": ["raise", "builtins.TypeError", "unsupported type for timedelta microseconds component: NoneType"],
"ydus[aware]._decode(True)": ["return", ["datetime.datetime", "datetime.datetime(2019, 1, 1, 0, 0, 0, 1)"]],
"ydus[aware]._decode([1])": ["raise", "builtins.TypeError", "unsupported type for timedelta microseconds component: list"],
"ydus[aware]._decode(inf)": ["raise", "builtins.OverflowError", "cannot convert float infinity to integer"],
"ydus[aware]._decode(nan)": ["raise", "builtins.ValueError", "cannot convert float NaN to integer"],
"ydus[aware].parse(-1)": ["return", ["datetime.datetime", "datetime.datetime(2018, 12, 31, 23, 59, 59, 999999)"]],
"ydus[aware].parse(-86400000000)": ["return", ["datetime.datetime", "datetime.datetime(2018, 12, 31, 0, 0)"]],
"ydus[aware].parse(-9223372036854775808)": ["raise", "builtins.OverflowError", "date value out of range"],
"ydus[aware].parse(0)": ["return", ["datetime.datetime", "datetime.datetime(2019, 1, 1, 0, 0)"]],
"ydus[aware].parse(1)": ["return", ["datetime.datetime", "datetime.datetime(2019, 1, 1, 0, 0, 0, 1)"]],
"ydus[aware].parse(1000000000000000)": ["return", ["datetime.datetime", "datetime.datetime(2050, 9, 9, 1, 46, 40)"]],
"ydus[aware].parse(18446744073709551615)": ["raise", "builtins.OverflowError", "date value out of range"],
"ydus[aware].parse(40669000000)": ["return", ["datetime.datetime", "datetime.datetime(2019, 1, 1, 11, 17, 49)"]],
"ydus[aware].parse(86399999999)": ["return", ["datetime.datetime", "datetime.datetime(2019, 1, 1, 23, 59, 59, 999999)"]],
"ydus[aware].parse(86400000000)": ["return", ["datetime.datetime", "datetime.datetime(2019, 1, 2, 0, 0)"]],
"ydus[aware].parse(9223372036854775807)": ["raise", "builtins.OverflowError", "date value out of range"],
"ydus[aware].parse(9223372036854775808)": ["raise", "builtins.OverflowError", "date value out of range"],
"ydus[callable-date]._decode('12')": ["raise", "builtins.AttributeError", "'datetime.date' object has no attribute 'date'"],
"ydus[callable-date]._decode(1.5)": ["raise", "builtins.AttributeError", "'datetime.date' object has no attribute 'date'"],
"ydus[callable-date]._decode(10000000000000000000000000000000000000000)": ["raise", "builtins.AttributeError", "'datetime.date' object has no attribute 'date'"],
"ydus[callable-date]._decode(None)": ["raise", "builtins.AttributeError", "'datetime.date' object has no attribute 'date'"],
"ydus[callable-date]._decode(True)": ["raise", "builtins.AttributeError", "'datetime.date' object has no attribute 'date'"],
"ydus[callable-date]._decode([1])": ["raise", "builtins.AttributeError", "'datetime.date' object has no attribute 'date'"],
"ydus[callable-date]._decode(inf)": ["raise", "builtins.AttributeError", "'datetime.date' object has no attribute 'date'"],
"ydus[callable-date]._decode(nan)": ["raise", "builtins.AttributeError", "'datetime.date' object has no attribute 'date'"],
"ydus[callable-date].parse(-1)": ["raise", "builtins.AttributeError", "'datetime.date' object has no attribute 'date'"],
"ydus[callable-date].parse(-86400000000)": ["raise", "builtins.AttributeError", "'datetime.date' object has no attribute 'date'"],
"ydus[callable-date].parse(-9223372036854775808)": ["raise", "builtins.AttributeError", "'datetime.date' object has no attribute 'date'"],
"ydus[callable-date].parse(0)": ["raise", "builtins.AttributeError", "'datetime.date' object has no attribute 'date'"],
"ydus[callable-date].parse(0).calls": ["builtins.list", [["builtins.dict", [[["builtins.str", "'ref'"], ["datetime.datetime", "datetime.datetime(2019, 1, 1, 21, 37, 52, 107000)"]]]]]],
"ydus[callable-date].parse(1)": ["raise", "builtins.AttributeError", "'datetime.date' object has no attribute 'date'"],
"ydus[callable-date].parse(1).calls": ["builtins.list", [["builtins.dict", [[["builtins.str", "'ref'"], ["datetime.datetime", "datetime.datetime(2019, 1, 1, 21, 37, 52, 107000)"]]]]]],
"ydus[callable-date].parse(1000000000000000)": ["raise", "builtins.AttributeError", "'datetime.date' object has no attribute 'date'"],
"ydus[callable-date].parse(1000000000000000).calls": ["builtins.list", [["builtins.dict", [[["builtins.str", "'ref'"], ["datetime.datetime", "datetime.datetime(2019, 1, 1, 21, 37, 52, 107000)"]]]]]],
"ydus[callable-date].parse(18446744073709551615)": ["raise", "builtins.AttributeError", "'datetime.date' object has no attribute 'date'"],
"ydus[callable-date].parse(18446744073709551615).calls": ["builtins.list", [["builtins.dict", [[["builtins.str", "'ref'"], ["datetime.datetime", "datetime.datetime(2019, 1, 1, 21, 37, 52, 107000)"]]]]]],
"ydus[callable-date].parse(40669000000)": ["raise", "builtins.AttributeError", "'datetime.date' object has no attribute 'date'"],
"ydus[callable-date].parse(40669000000).calls": ["builtins.list", [["builtins.dict", [[["builtins.str", "'ref'"], ["datetime.datetime", "datetime.datetime(2019, 1, 1, 21, 37, 52, 107000)"]]]]]],
"ydus[callable-date].parse(86399999999)": ["raise", "builtins.AttributeError", "'datetime.date' object has no attribute 'date'"],
"ydus[callable-date].parse(86399999999).calls": ["builtins.list", [["builtins.dict", [[["builtins.str", "'ref'"], ["datetime.datetime", "datetime.datetime(2019, 1, 1, 21, 37, 52, 107000)"]]]]]],
"ydus[callable-date].parse(86400000000)": ["raise", "builtins.AttributeError", "'datetime.date' object has no attribute 'date'"],
"ydus[callable-date].parse(86400000000).calls": ["builtins.list", [["builtins.dict", [[["builtins.str", "'ref'"], ["datetime.datetime", "datetime.datetime(2019, 1, 1, 21, 37, 52, 107000)"]]]]]],
"ydus[callable-date].parse(9223372036854775807)": ["raise", "builtins.AttributeError", "'datetime.date' object has no attribute 'date'"],
"ydus[callable-date].parse(9223372036854775807).calls": ["builtins.list", [["builtins.dict", [[["builtins.str", "'ref'"], ["datetime.datetime", "datetime.datetime(2019, 1, 1, 21, 37, 52, 107000)"]]]]]],
"ydus[callable-date].parse(9223372036854775808)": ["raise", "builtins.AttributeError", "'datetime.date' object has no attribute 'date'"],
"ydus[callable-date].parse(9223372036854775808).calls": ["builtins.list", [["builtins.dict", [[["builtins.str", "'ref'"], ["datetime.datetime", "datetime.datetime(2019, 1, 1, 21, 37, 52, 107000)"]]]]]],
"ydus[callable-none]._decode('12')": ["raise", "builtins.AttributeError", "'NoneType' object has no attribute 'date'"],
"ydus[callable-none]._decode(1.5)": ["raise", "builtins.AttributeError", "'NoneType' object has no attribute 'date'"],
"ydus[callable-none]._decode(10000000000000000000000000000000000000000)": ["raise", "builtins.AttributeError", "'NoneType' object has no attribute 'date'"],
"ydus[callable-none]._decode(None)": ["raise", "builtins.AttributeError", "'NoneType' object has no attribute 'date'"],
"ydus[callable-none]._decode(True)": ["raise", "builtins.AttributeError", "'NoneType' object has no attribute 'date'"],
"ydus[callable-none]._decode([1])": ["raise", "builtins.AttributeError", "'NoneType' object has no attribute 'date'"],
"ydus[callable-none]._decode(inf)": ["raise", "builtins.AttributeError", "'NoneType' object has no attribute 'date'"],
"ydus[callable-none]._decode(nan)": ["raise", "builtins.AttributeError", "'NoneType' object has no attribute 'date'"],
"ydus[callable-none].parse(-1)": ["raise", "builtins.AttributeError", "'NoneType' object has no attribute 'date'"],
"ydus[callable-none].parse(-86400000000)": ["raise", "builtins.AttributeError", "'NoneType' object has no attribute 'date'"],
"ydus[callable-none].parse(-9223372036854775808)": ["raise", "builtins.AttributeError", "'NoneType' object has no attribute 'date'"],
"ydus[callable-none].parse(0)": ["raise", "builtins.AttributeError", "'NoneType' object has no attribute 'date'"],
"ydus[callable-none].parse(0).calls": ["builtins.list", [["builtins.dict", [[["builtins.str", "'ref'"], ["datetime.datetime", "datetime.datetime(2019, 1, 1, 21, 37, 52, 107000)"]]]]]],
"ydus[callable-none].parse(1)": ["raise", "builtins.AttributeError", "'NoneType' object has no attribute 'date'"],
"ydus[callable-none].parse(1).calls": ["builtins.list", [["builtins.dict", [[["builtins.str", "'ref'"], ["datetime.datetime", "datetime.datetime(2019, 1, 1, 21, 37, 52, 107000)"]]]]]],
"ydus[callable-none].parse(1000000000000000)": ["raise", "builtins.AttributeError", "'NoneType' object has no attribute 'date'"],
"ydus[callable-none].parse(1000000000000000).calls": ["builtins.list", [["builtins.dict", [[["builtins.str", "'ref'"], ["datetime.datetime", "datetime.datetime(2019, 1, 1, 21, 37, 52, 107000)"]]]]]],
"ydus[callable-none].parse(18446744073709551615)": ["raise", "builtins.AttributeError", "'NoneType' object has no attribute 'date'"],
"ydus[callable-none].parse(18446744073709551615).calls": ["builtins.list", [["builtins.dict", [[["builtins.str", "'ref'"], ["datetime.datetime", "datetime.datetime(2019, 1, 1, 21, 37, 52, 107000)"]]]]]],
"ydus[callable-none].parse(40669000000)": ["raise", "builtins.AttributeError", "'NoneType' object has no attribute 'date'"],
"ydus[callable-none].parse(40669000000).calls": ["builtins.list", [["builtins.dict", [[["builtins.str", "'ref'"], ["datetime.datetime", "datetime.datetime(2019, 1, 1, 21, 37, 52, 107000)"]]]]]],
"ydus[callable-none].parse(86399999999)": ["raise", "builtins.AttributeError", "'NoneType' object has no attribute 'date'"],
"ydus[callable-none].parse(86399999999).calls": ["builtins.list", [["builtins.dict", [[["builtins.str", "'ref'"], ["datetime.datetime", "datetime.datetime(2019, 1, 1, 21, 37, 52, 107000)"]]]]]],
"ydus[callable-none].parse(86400000000)": ["raise", "builtins.AttributeError", "'NoneType' object has no attribute 'date'"],
"ydus[callable-none].parse(86400000000).calls": ["builtins.list", [["builtins.dict", [[["builtins.str", "'ref'"], ["datetime.datetime", "datetime.datetime(2019, 1, 1, 21, 37, 52, 107000)"]]]]]],
"ydus[callable-none].parse(9223372036854775807)": ["raise", "builtins.AttributeError", "'NoneType' object has no attribute 'date'"],
"ydus[callable-none].parse(9223372036854775807).calls": ["builtins.list", [["builtins.dict", [[["builtins.str", "'ref'"], ["datetime.datetime", "datetime.datetime(2019, 1, 1, 21, 37, 52, 107000)"]]]]]],
"ydus[callable-none].parse(9223372036854775808)": ["raise", "builtins.AttributeError", "'NoneType' object has no attribute 'date'"],
"ydus[callable-none].parse(9223372036854775808).calls": ["builtins.list", [["builtins.dict", [[["builtins.str", "'ref'"], ["datetime.datetime", "datetime.datetime(2019, 1, 1, 21, 37, 52, 107000)"]]]]]],
"ydus[callable-raises]._decode('12')": ["raise", "builtins.LookupError", "no reference"],
"ydus[callable-raises]._decode(1.5)": ["raise", "builtins.LookupError", "no reference"],
"ydus[callable-raises]._decode(10000000000000000000000000000000000000000)": ["raise", "builtins.LookupError", "no reference"],
"ydus[callable-raises]._decode(None)": ["raise", "builtins.LookupError", "no reference"],
"ydus[callable-raises]._decode(True)": ["raise", "builtins.LookupError", "no reference"],
"ydus[callable-raises]._decode([1])": ["raise", "builtins.LookupError", "no reference"],
"ydus[callable-raises]._decode(inf)": ["raise", "builtins.LookupError", "no reference"],
"ydus[callable-raises]._decode(nan)": ["raise", "builtins.LookupError", "no reference"],
"ydus[callable-raises].parse(-1)": ["raise", "builtins.LookupError", "no reference"],
"ydus[callable-raises].parse(-86400000000)": ["raise", "builtins.LookupError", "no reference"],
"ydus[callable-raises].parse(-9223372036854775808)": ["raise", "builtins.LookupError", "no reference"],
"ydus[callable-raises].parse(0)": ["raise", "builtins.LookupError", "no reference"],
"ydus[callable-raises].parse(0).calls": ["builtins.list", [["builtins.dict", [[["builtins.str", "'ref'"], ["datetime.datetime", "datetime.datetime(2019, 1, 1, 21, 37, 52, 107000)"]]]]]],
"ydus[callable-raises].parse(1)": ["raise", "builtins.LookupError", "no reference"],
"ydus[callable-raises].parse(1).calls": ["builtins.list", [["builtins.dict", [[["builtins.str", "'ref'"], ["datetime.datetime", "datetime.datetime(2019, 1, 1, 21, 37, 52, 107000)"]]]]]],
"ydus[callable-raises].parse(1000000000000000)": ["raise", "builtins.LookupError", "no reference"],
"ydus[callable-raises].parse(1000000000000000).calls": ["builtins.list", [["builtins.dict", [[["builtins.str", "'ref'"], ["datetime.datetime", "datetime.datetime(2019, 1, 1, 21, 37, 52, 107000)"]]]]]],
"ydus[callable-raises].parse(18446744073709551615)": ["raise", "builtins.LookupError", "no reference"],
"ydus[callable-raises].parse(18446744073709551615).calls": ["builtins.list", [["builtins.dict", [[["builtins.str", "'ref'"], ["datetime.datetime", "datetime.datetime(2019, 1, 1, 21, 37, 52, 107000)"]]]]]],
"ydus[callable-raises].parse(40669000000)": ["raise", "builtins.LookupError", "no reference"],
"ydus[callable-raises].parse(40669000000).calls": ["builtins.list", [["builtins.dict", [[["builtins.str", "'ref'"], ["datetime.datetime", "datetime.datetime(2019, 1, 1, 21, 37, 52, 107000)"]]]]]],
"ydus[callable-raises].parse(86399999999)": ["raise", "builtins.LookupError", "no reference"],
"ydus[callable-raises].parse(86399999999).calls": ["builtins.list", [["builtins.dict", [[["builtins.str", "'ref'"], ["datetime.datetime", "datetime.datetime(2019, 1, 1, 21, 37, 52, 107000)"]]]]]],
"ydus[callable-raises].parse(86400000000)": ["raise", "builtins.LookupError", "no reference"],
"ydus[callable-raises].parse(86400000000).calls": ["builtins.list", [["builtins.dict", [[["builtins.str", "'ref'"], ["datetime.datetime", "datetime.datetime(2019, 1, 1, 21, 37, 52, 107000)"]]]]]],
"ydus[callable-raises].parse(9223372036854775807)": ["raise", "builtins.LookupError", "no reference"],
"ydus[callable-raises].parse(9223372036854775807).calls": ["builtins.list", [["builtins.dict", [[["builtins.str", "'ref'"], ["datetime.datetime", "datetime.datetime(2019, 1, 1, 21, 37, 52, 107000)"]]]]]],
"ydus[callable-raises].parse(9223372036854775808)": ["raise", "builtins.LookupError", "no reference"],
"ydus[callable-raises].parse(9223372036854775808).calls": ["builtins.list", [["builtins.dict", [[["builtins.str", "'ref'"], ["datetime.datetime", "datetime.datetime(2019, 1, 1, 21, 37, 52, 107000)"]]]]]],
"ydus[callable]._decode('12')": ["raise", "builtins.TypeError", "unsupported type for timedelta microseconds component: str"],
"ydus[callable]._decode(1.5)": ["return", ["datetime.datetime", "datetime.datetime(2019, 1, 1, 0, 0, 0, 2)"]],
"ydus[callable]._decode(10000000000000000000000000000000000000000)": ["raise", "builtins.OverflowError", "Python int too large to convert to C int"],
"ydus[callable]._decode(None)": ["raise", "builtins.TypeError", "unsupported type for timedelta microseconds component: NoneType"],
"ydus[callable]._decode(True)": ["return", ["datetime.datetime", "datetime.datetime(2019, 1, 1, 0, 0, 0, 1)"]],
"ydus[callable]._decode([1])": ["raise", "builtins.TypeError", "unsupported type for timedelta microseconds component: list"],
"ydus[callable]._decode(inf)": ["raise", "builtins.OverflowError", "cannot convert float infinity to integer"],
"ydus[callable]._decode(nan)": ["raise", "builtins.ValueError", "cannot convert float NaN to integer"],
"ydus[callable].parse(-1)": ["return", ["datetime.datetime", "datetime.datetime(2018, 12, 31, 23, 59, 59, 999999)"]],
"ydus[callable].parse(-86400000000)": ["return", ["datetime.datetime", "datetime.datetime(2018, 12, 31, 0, 0)"]],
"ydus[callable].parse(-9223372036854775808)": ["raise", "builtins.OverflowError", "date value out of range"],
"ydus[callable].parse(0)": ["return", ["datetime.datetime", "datetime.datetime(2019, 1, 1, 0, 0)"]],
"ydus[callable].parse(0).calls": ["builtins.list", [["builtins.dict", [[["builtins.str", "'ref'"], ["datetime.datetime", "datetime.datetime(2019, 1, 1, 21, 37, 52, 107000)"]]]]]],
"ydus[callable].parse(1)": ["return", ["datetime.datetime", "datetime.datetime(2019, 1, 1, 0, 0, 0, 1)"]],
"ydus[callable].parse(1).calls": ["builtins.list", [["builtins.dict", [[["builtins.str", "'ref'"], ["datetime.datetime", "datetime.datetime(2019, 1, 1, 21, 37, 52, 107000)"]]]]]],
"ydus[callable].parse(1000000000000000)": ["return", ["datetime.datetime", "datetime.datetime(2050, 9, 9, 1, 46, 40)"]],
"ydus[callable].parse(1000000000000000).calls": ["builtins.list", [["builtins.dict", [[["builtins.str", "'ref'"], ["datetime.datetime", "datetime.datetime(2019, 1, 1, 21, 37, 52, 107000)"]]]]]],
"ydus[callable].parse(18446744073709551615)": ["raise", "builtins.OverflowError", "date value out of range"],
"ydus[callable].parse(18446744073709551615).calls": ["builtins.list", [["builtins.dict", [[["builtins.str", "'ref'"], ["datetime.datetime", "datetime.datetime(2019, 1, 1, 21, 37, 52, 107000)"]]]]]],
"ydus[callable].parse(40669000000)": ["return", ["datetime.datetime", "datetime.datetime(2019, 1, 1, 11, 17, 49)"]],
"ydus[callable].parse(40669000000).calls": ["builtins.list", [["builtins.dict", [[["builtins.str", "'ref'"], ["datetime.datetime", "datetime.datetime(2019, 1, 1, 21, 37, 52, 107000)"]]]]]],
"ydus[callable].parse(86399999999)": ["return", ["datetime.datetime", "datetime.datetime(2019, 1, 1, 23, 59, 59, 999999)"]],
"ydus[callable].parse(86399999999).calls": ["builtins.list", [["builtins.dict", [[["builtins.str", "'ref'"], ["datetime.datetime", "datetime.datetime(2019, 1, 1, 21, 37, 52, 107000)"]]]]]],
"ydus[callable].parse(86400000000)": ["return", ["datetime.datetime", "datetime.datetime(2019, 1, 2, 0, 0)"]],
"ydus[callable].parse(86400000000).calls": ["builtins.list", [["builtins.dict", [[["builtins.str", "'ref'"], ["datetime.datetime", "datetime.datetime(2019, 1, 1, 21, 37, 52, 107000)"]]]]]],
"ydus[callable].parse(9223372036854775807)": ["raise", "builtins.OverflowError", "date value out of range"],
"ydus[callable].parse(9223372036854775807).calls": ["builtins.list", [["builtins.dict", [[["builtins.str", "'ref'"], ["datetime.datetime", "datetime.datetime(2019, 1, 1, 21, 37, 52, 107000)"]]]]]],
"ydus[callable].parse(9223372036854775808)": ["raise", "builtins.OverflowError", "date value out of range"],
"ydus[callable].parse(9223372036854775808).calls": ["builtins.list", [["builtins.dict", [[["builtins.str", "'ref'"], ["datetime.datetime", "datetime.datetime(2019, 1, 1, 21, 37, 52, 107000)"]]]]]],
"ydus[date]._decode('12')": ["raise", "builtins.AttributeError", "'datetime.date' object has no attribute 'date'"],
"ydus[date]._decode(1.5)": ["raise", "builtins.AttributeError", "'datetime.date' object has no attribute 'date'"],
"ydus[date]._decode(10000000000000000000000000000000000000000)": ["raise", "builtins.AttributeError", "'datetime.date' object has no attribute 'date'"],
"ydus[date]._decode(None)": ["raise", "builtins.AttributeError", "'datetime.date' object has no attribute 'date'"],
"ydus[date]._decode(True)": ["raise", "builtins.AttributeError", "'datetime.date' object has no attribute 'date'"],
"ydus[date]._decode([1])": ["raise", "builtins.AttributeError", "'datetime.date' object has no attribute 'date'"],
"ydus[date]._decode(inf)": ["raise", "builtins.AttributeError", "'datetime.date' object has no attribute 'date'"],
"ydus[date]._decode(nan)": ["raise", "builtins.AttributeError", "'datetime.date' object has no attribute 'date'"],
"ydus[date].parse(-1)": ["raise", "builtins.AttributeError", "'datetime.date' object has no attribute 'date'"],
"ydus[date].parse(-86400000000)": ["raise", "builtins.AttributeError", "'datetime.date' object has no attribute 'date'"],
"ydus[date].parse(-9223372036854775808)": ["raise", "builtins.AttributeError", "'datetime.date' object has no attribute 'date'"],
"ydus[date].parse(0)": ["raise", "builtins.AttributeError", "'datetime.date' object has no attribute 'date'"],
"ydus[date].parse(1)": ["raise", "builtins.AttributeError", "'datetime.date' object has no attribute 'date'"],
"ydus[date].parse(1000000000000000)": ["raise", "builtins.AttributeError", "'datetime.date' object has no attribute 'date'"],
"ydus[date].parse(18446744073709551615)": ["raise", "builtins.AttributeError", "'datetime.date' object has no attribute 'date'"],
"ydus[date].parse(40669000000)": ["raise", "builtins.AttributeError", "'datetime.date' object has no attribute 'date'"],
"ydus[date].parse(86399999999)": ["raise", "builtins.AttributeError", "'datetime.date' object has no attribute 'date'"],
"ydus[date].parse(86400000000)": ["raise", "builtins.AttributeError", "'datetime.date' object has no attribute 'date'"],
"ydus[date].parse(9223372036854775807)": ["raise", "builtins.AttributeError", "'datetime.date' object has no attribute 'date'"],
"ydus[date].parse(9223372036854775808)": ["raise", "builtins.AttributeError", "'datetime.date' object has no attribute 'date'"],
"ydus[datetime]._decode('12')": ["raise", "builtins.TypeError", "unsupported type for timedelta microseconds component: str"],
"ydus[datetime]._decode(1.5)": ["return", ["datetime.datetime", "datetime.datetime(2019, 1, 1, 0, 0, 0, 2)"]],
"ydus[datetime]._decode(10000000000000000000000000000000000000000)": ["raise", "builtins.OverflowError", "Python int too large to convert to C int"],
"ydus[datetime]._decode(None)": ["raise", "builtins.TypeError", "unsupported type for timedelta microseconds component: NoneType"],
"ydus[datetime]._decode(True)": ["return", ["datetime.datetime", "datetime.datetime(2019, 1, 1, 0, 0, 0, 1)"]],
"ydus[datetime]._decode([1])": ["raise", "builtins.TypeError", "unsupported type for timedelta microseconds component: list"],
"ydus[datetime]._decode(inf)": ["raise", "builtins.OverflowError", "cannot convert float infinity to integer"],
"ydus[datetime]._decode(nan)": ["raise", "builtins.ValueError", "cannot convert float NaN to integer"],
"ydus[datetime].parse(-1)": ["return", ["datetime.datetime", "datetime.datetime(2018, 12, 31, 23, 59, 59, 999999)"]],
"ydus[datetime].parse(-86400000000)": ["return", ["datetime.datetime", "datetime.datetime(2018, 12, 31, 0, 0)"]],
"ydus[datetime].parse(-9223372036854775808)": ["raise", "builtins.OverflowError", "date value out of range"],
"ydus[datetime].parse(0)": ["return", ["datetime.datetime", "datetime.datetime(2019, 1, 1, 0, 0)"]],
"ydus[datetime].parse(1)": ["return", ["datetime.datetime", "datetime.datetime(2019, 1, 1, 0, 0, 0, 1)"]],
"ydus[datetime].parse(1000000000000000)": ["return", ["datetime.datetime", "datetime.datetime(2050, 9, 9, 1, 46, 40)"]],
"ydus[datetime].parse(18446744073709551615)": ["raise", "builtins.OverflowError", "date value out of range"],
"ydus[datetime].parse(40669000000)": ["return", ["datetime.datetime", "datetime.datetime(2019, 1, 1, 11, 17, 49)"]],
"ydus[datetime].parse(86399999999)": ["return", ["datetime.datetime", "datetime.datetime(2019, 1, 1, 23, 59, 59, 999999)"]],
"ydus[datetime].parse(86400000000)": ["return", ["datetime.datetime", "datetime.datetime(2019, 1, 2, 0, 0)"]],
"ydus[datetime].parse(9223372036854775807)": ["raise", "builtins.OverflowError", "date value out of range"],
"ydus[datetime].parse(9223372036854775808)": ["raise", "builtins.OverflowError", "date value out of range"],
"ydus[lambda-context]._decode('12')": ["raise", "builtins.TypeError", "unsupported type for timedelta microseconds component: str"],
"ydus[lambda-context]._decode(1.5)": ["return", ["datetime.datetime", "datetime.datetime(2019, 1, 1, 0, 0, 0, 2)"]],
"ydus[lambda-context]._decode(10000000000000000000000000000000000000000)": ["raise", "builtins.OverflowError", "Python int too large to convert to C int"],
"ydus[lambda-context]._decode(None)": ["raise", "builtins.TypeError", "unsupported type for timedelta microseconds component: NoneType"],
"ydus[lambda-context]._decode(True)": ["return", ["datetime.datetime", "datetime.datetime(2019, 1, 1, 0, 0, 0, 1)"]],
"ydus[lambda-context]._decode([1])": ["raise", "builtins.TypeError", "unsupported type for timedelta microseconds component: list"],
"ydus[lambda-context]._decode(inf)": ["raise", "builtins.OverflowError", "cannot convert float infinity to integer"],
"ydus[lambda-context]._decode(nan)": ["raise", "builtins.ValueError", "cannot convert float NaN to integer"],
"ydus[lambda-context].parse(-1)": ["return", ["datetime.datetime", "datetime.datetime(2018, 12, 31, 23, 59, 59, 999999)"]],
"ydus[lambda-context].parse(-86400000000)": ["return", ["datetime.datetime", "datetime.datetime(2018, 12, 31, 0, 0)"]],
"ydus[lambda-context].parse(-9223372036854775808)": ["raise", "builtins.OverflowError", "date value out of range"],
"ydus[lambda-context].parse(0)": ["return", ["datetime.datetime", "datetime.datetime(2019, 1, 1, 0, 0)"]],
"ydus[lambda-context].parse(1)": ["return", ["datetime.datetime", "datetime.datetime(2019, 1, 1, 0, 0, 0, 1)"]],
"ydus[lambda-context].parse(1000000000000000)": ["return", ["datetime.datetime", "datetime.datetime(2050, 9, 9, 1, 46, 40)"]],
"ydus[lambda-context].parse(18446744073709551615)": ["raise", "builtins.OverflowError", "date value out of range"],
"ydus[lambda-context].parse(40669000000)": ["return", ["datetime.datetime", "datetime.datetime(2019, 1, 1, 11, 17, 49)"]],
"ydus[lambda-context].parse(86399999999)": ["return", ["datetime.datetime", "datetime.datetime(2019, 1, 1, 23, 59, 59, 999999)"]],
"ydus[lambda-context].parse(86400000000)": ["return", ["datetime.datetime", "datetime.datetime(2019, 1, 2, 0, 0)"]],
"ydus[lambda-context].parse(9223372036854775807)": ["raise", "builtins.OverflowError", "date value out of range"],
"ydus[lambda-context].parse(9223372036854775808)": ["raise", "builtins.OverflowError", "date value out of range"],
"ydus[max]._decode('12')": ["raise", "builtins.TypeError", "unsupported type for timedelta microseconds component: str"],
"ydus[max]._decode(1.5)": ["return", ["datetime.datetime", "datetime.datetime(9999, 12, 31, 0, 0, 0, 2)"]],
"ydus[max]._decode(10000000000000000000000000000000000000000)": ["raise", "builtins.OverflowError", "Python int too large to convert to C int"],
"ydus[max]._decode(None)": ["raise", "builtins.TypeError", "unsupported type for timedelta microseconds component: NoneType"],
"ydus[max]._decode(True)": ["return", ["datetime.datetime", "datetime.datetime(9999, 12, 31, 0, 0, 0, 1)"]],
"ydus[max]._decode([1])": ["raise", "builtins.TypeError", "unsupported type for timedelta microseconds component: list"],
"ydus[max]._decode(inf)": ["raise", "builtins.OverflowError", "cannot convert float infinity to integer"],
"ydus[max]._decode(nan)": ["raise", "builtins.ValueError", "cannot convert float NaN to integer"],
"ydus[max].parse(-1)": ["return", ["datetime.datetime", "datetime.datetime(9999, 12, 30, 23, 59, 59, 999999)"]],
"ydus[max].parse(-86400000000)": ["return", ["datetime.datetime", "datetime.datetime(9999, 12, 30, 0, 0)"]],
"ydus[max].parse(-9223372036854775808)": ["raise", "builtins.OverflowError", "date value out of range"],
"ydus[max].parse(0)": ["return", ["datetime.datetime", "datetime.datetime(9999, 12, 31, 0, 0)"]],
"ydus[max].parse(1)": ["return", ["datetime.datetime", "datetime.datetime(9999, 12, 31, 0, 0, 0, 1)"]],
"ydus[max].parse(1000000000000000)": ["raise", "builtins.OverflowError", "date value out of range"],
"ydus[max].parse(18446744073709551615)": ["raise", "builtins.OverflowError", "date value out of range"],
"ydus[max].parse(40669000000)": ["return", ["datetime.datetime", "datetime.datetime(9999, 12, 31, 11, 17, 49)"]],
"ydus[max].parse(86399999999)": ["return", ["datetime.datetime", "datetime.datetime(9999, 12, 31, 23, 59, 59, 999999)"]],
"ydus[max].parse(86400000000)": ["raise", "builtins.OverflowError", "date value out of range"],
"ydus[max].parse(9223372036854775807)": ["raise", "builtins.OverflowError", "date value out of range"],
"ydus[max].parse(9223372036854775808)": ["raise", "builtins.OverflowError", "date value out of range"],
"ydus[midnight]._decode('12')": ["raise", "builtins.TypeError", "unsupported type for timedelta microseconds component: str"],
"ydus[midnight]._decode(1.5)": ["return", ["datetime.datetime", "datetime.datetime(2020, 2, 29, 0, 0, 0, 2)"]],
"ydus[midnight]._decode(10000000000000000000000000000000000000000)": ["raise", "builtins.OverflowError", "Python int too large to convert to C int"],
"ydus[midnight]._decode(None)": ["raise", "builtins.TypeError", "unsupported type for timedelta microseconds component: NoneType"],
"ydus[midnight]._decode(True)": ["return", ["datetime.datetime", "datetime.datetime(2020, 2, 29, 0, 0, 0, 1)"]],
"ydus[midnight]._decode([1])": ["raise", "builtins.TypeError", "unsupported type for timedelta microseconds component: list"],
"ydus[midnight]._decode(inf)": ["raise", "builtins.OverflowError", "cannot convert float infinity to integer"],
"ydus[midnight]._decode(nan)": ["raise", "builtins.ValueError", "cannot convert float NaN to integer"],
"ydus[midnight].parse(-1)": ["return", ["datetime.datetime", "datetime.datetime(2020, 2, 28, 23, 59, 59, 999999)"]],
"ydus[midnight].parse(-86400000000)": ["return", ["datetime.datetime", "datetime.datetime(2020, 2, 28, 0, 0)"]],
"ydus[midnight].parse(-9223372036854775808)": ["raise", "builtins.OverflowError", "date value out of range"],
"ydus[midnight].parse(0)": ["return", ["datetime.datetime", "datetime.datetime(2020, 2, 29, 0, 0)"]],
"ydus[midnight].parse(1)": ["return", ["datetime.datetime", "datetime.datetime(2020, 2, 29, 0, 0, 0, 1)"]],
"ydus[midnight].parse(1000000000000000)": ["return", ["datetime.datetime", "datetime.datetime(2051, 11, 7, 1, 46, 40)"]],
"ydus[midnight].parse(18446744073709551615)": ["raise", "builtins.OverflowError", "date value out of range"],
"ydus[midnight].parse(40669000000)": ["return", ["datetime.datetime", "datetime.datetime(2020, 2, 29, 11, 17, 49)"]],
"ydus[midnight].parse(86399999999)": ["return", ["datetime.datetime", "datetime.datetime(2020, 2, 29, 23, 59, 59, 999999)"]],
"ydus[midnight].parse(86400000000)": ["return", ["datetime.datetime", "datetime.datetime(2020, 3, 1, 0, 0)"]],
"ydus[midnight].parse(9223372036854775807)": ["raise", "builtins.OverflowError", "date value out of range"],
"ydus[midnight].parse(9223372036854775808)": ["raise", "builtins.OverflowError", "date value out of range"],
"ydus[min]._decode('12')": ["raise", "builtins.TypeError", "unsupported type for timedelta microseconds component: str"],
"ydus[min]._decode(1.5)": ["return", ["datetime.datetime", "datetime.datetime(1, 1, 1, 0, 0, 0, 2)"]],
"ydus[min]._decode(10000000000000000000000000000000000000000)": ["raise", "builtins.OverflowError", "Python int too large to convert to C int"],
"ydus[min]._decode(None)": ["raise", "builtins.TypeError", "unsupported type for timedelta microseconds component: NoneType"],
"ydus[min]._decode(True)": ["return", ["datetime.datetime", "datetime.datetime(1, 1, 1, 0, 0, 0, 1)"]],
"ydus[min]._decode([1])": ["raise", "builtins.TypeError", "unsupported type for timedelta microseconds component: list"],
"ydus[min]._decode(inf)": ["raise", "builtins.OverflowError", "cannot convert float infinity to integer"],
"ydus[min]._decode(nan)": ["raise", "builtins.ValueError", "cannot convert float NaN to integer"],
"ydus[min].parse(-1)": ["raise", "builtins.OverflowError", "date value out of range"],
"ydus[min].parse(-86400000000)": ["raise", "builtins.OverflowError", "date value out of range"],
"ydus[min].parse(-9223372036854775808)": ["raise", "builtins.OverflowError", "date value out of range"],
"ydus[min].parse(0)": ["return", ["datetime.datetime", "datetime.datetime(1, 1, 1, 0, 0)"]],
"ydus[min].parse(1)": ["return", ["datetime.datetime", "datetime.datetime(1, 1, 1, 0, 0, 0, 1)"]],
"ydus[min].parse(1000000000000000)": ["return", ["datetime.datetime", "datetime.datetime(32, 9, 9, 1, 46, 40)"]],
"ydus[min].parse(18446744073709551615)": ["raise", "builtins.OverflowError", "date value out of range"],
"ydus[min].parse(40669000000)": ["return", ["datetime.datetime", "datetime.datetime(1, 1, 1, 11, 17, 49)"]],
"ydus[min].parse(86399999999)": ["return", ["datetime.datetime", "datetime.datetime(1, 1, 1, 23, 59, 59, 999999)"]],
"ydus[min].parse(86400000000)": ["return", ["datetime.datetime", "datetime.datetime(1, 1, 2, 0, 0)"]],
"ydus[min].parse(9223372036854775807)": ["raise", "builtins.OverflowError", "date value out of range"],
"ydus[min].parse(9223372036854775808)": ["raise", "builtins.OverflowError", "date value out of range"],
"ydus[none]._decode('12')": ["raise", "builtins.AttributeError", "'NoneType' object has no attribute 'date'"],
"ydus[none]._decode(1.5)": ["raise", "builtins.AttributeError", "'NoneType' object has no attribute 'date'"],
"ydus[none]._decode(10000000000000000000000000000000000000000)": ["raise", "builtins.AttributeError", "'NoneType' object has no attribute 'date'"],
"ydus[none]._decode(None)": ["raise", "builtins.AttributeError", "'NoneType' object has no attribute 'date'"],
"ydus[none]._decode(True)": ["raise", "builtins.AttributeError", "'NoneType' object has no attribute 'date'"],
"ydus[none]._decode([1])": ["raise", "builtins.AttributeError", "'NoneType' object has no attribute 'date'"],
"ydus[none]._decode(inf)": ["raise", "builtins.AttributeError", "'NoneType' object has no attribute 'date'"],
"ydus[none]._decode(nan)": ["raise", "builtins.AttributeError", "'NoneType' object has no attribute 'date'"],
"ydus[none].parse(-1)": ["raise", "builtins.AttributeError", "'NoneType' object has no attribute 'date'"],
"ydus[none].parse(-86400000000)": ["raise", "builtins.AttributeError", "'NoneType' object has no attribute 'date'"],
"ydus[none].parse(-9223372036854775808)": ["raise", "builtins.AttributeError", "'NoneType' object has no attribute 'date'"],
"ydus[none].parse(0)": ["raise", "builtins.AttributeError", "'NoneType' object has no attribute 'date'"],
"ydus[none].parse(1)": ["raise", "builtins.AttributeError", "'NoneType' object has no attribute 'date'"],
"ydus[none].parse(1000000000000000)": ["raise", "builtins.AttributeError", "'NoneType' object has no attribute 'date'"],
"ydus[none].parse(18446744073709551615)": ["raise", "builtins.AttributeError", "'NoneType' object has no attribute 'date'"],
"ydus[none].parse(40669000000)": ["raise", "builtins.AttributeError", "'NoneType' object has no attribute 'date'"],
"ydus[none].parse(86399999999)": ["raise", "builtins.AttributeError", "'NoneType' object has no attribute 'date'"],
"ydus[none].parse(86400000000)": ["raise", "builtins.AttributeError", "'NoneType' object has no attribute 'date'"],
"ydus[none].parse(9223372036854775807)": ["raise", "builtins.AttributeError", "'NoneType' object has no attribute 'date'"],
"ydus[none].parse(9223372036854775808)": ["raise", "builtins.AttributeError", "'NoneType' object has no attribute 'date'"],
"ydus[string]._decode('12')": ["raise", "builtins.AttributeError", "'str' object has no attribute 'date'"],
"ydus[string]._decode(1.5)": ["raise", "builtins.AttributeError", "'str' object has no attribute 'date'"],
"ydus[string]._decode(10000000000000000000000000000000000000000)": ["raise", "builtins.AttributeError", "'str' object has no attribute 'date'"],
"ydus[string]._decode(None)": ["raise", "builtins.AttributeError", "'str' object has no attribute 'date'"],
"ydus[string]._decode(True)": ["raise", "builtins.AttributeError", "'str' object has no attribute 'date'"],
"ydus[string]._decode([1])": ["raise", "builtins.AttributeError", "'str' object has no attribute 'date'"],
"ydus[string]._decode(inf)": ["raise", "builtins.AttributeError", "'str' object has no attribute 'date'"],
"ydus[string]._decode(nan)": ["raise", "builtins.AttributeError", "'str' object has no attribute 'date'"],
"ydus[string].parse(-1)": ["raise", "builtins.AttributeError", "'str' object has no attribute 'date'"],
"ydus[string].parse(-86400000000)": ["raise", "builtins.AttributeError", "'str' object has no attribute 'date'"],
"ydus[string].parse(-9223372036854775808)": ["raise", "builtins.AttributeError", "'str' object has no attribute 'date'"],
"ydus[string].parse(0)": ["raise", "builtins.AttributeError", "'str' object has no attribute 'date'"],
"ydus[string].parse(1)": ["raise", "builtins.AttributeError", "'str' object has no attribute 'date'"],
"ydus[string].parse(1000000000000000)": ["raise", "builtins.AttributeError", "'str' object has no attribute 'date'"],
"ydus[string].parse(18446744073709551615)": ["raise", "builtins.AttributeError", "'str' object has no attribute 'date'"],
"ydus[string].parse(40669000000)": ["raise", "builtins.AttributeError", "'str' object has no attribute 'date'"],
"ydus[string].parse(86399999999)": ["raise", "builtins.AttributeError", "'str' object has no attribute 'date'"],
"ydus[string].parse(86400000000)": ["raise", "builtins.AttributeError", "'str' object has no attribute 'date'"],
"ydus[string].parse(9223372036854775807)": ["raise", "builtins.AttributeError", "'str' object has no attribute 'date'"],
"ydus[string].parse(9223372036854775808)": ["raise", "builtins.AttributeError", "'str' object has no attribute 'date'"],
"ydus[subclass]._decode('12')": ["raise", "builtins.TypeError", "unsupported type for timedelta microseconds component: str"],
"ydus[subclass]._decode(1.5)": ["return", ["datetime.datetime", "datetime.datetime(2021, 12, 31, 0, 0, 0, 2)"]],
"ydus[subclass]._decode(10000000000000000000000000000000000000000)": ["raise", "builtins.OverflowError", "Python int too large to convert to C int"],
"ydus[subclass]._decode(None)": ["raise", "builtins.TypeError", "unsupported type for timedelta microseconds component: NoneType"],
"ydus[subclass]._decode(True)": ["return", ["datetime.datetime", "datetime.datetime(2021, 12, 31, 0, 0, 0, 1)"]],
"ydus[subclass]._decode([1])": ["raise", "builtins.TypeError", "unsupported type for timedelta microseconds component: list"],
"ydus[subclass]._decode(inf)": ["raise", "builtins.OverflowError", "cannot convert float infinity to integer"],
"ydus[subclass]._decode(nan)": ["raise", "builtins.ValueError", "cannot convert float NaN to integer"],
"ydus[subclass].parse(-1)": ["return", ["datetime.datetime", "datetime.datetime(2021, 12, 30, 23, 59, 59, 999999)"]],
"ydus[subclass].parse(-86400000000)": ["return", ["datetime.datetime", "datetime.datetime(2021, 12, 30, 0, 0)"]],
"ydus[subclass].parse(-9223372036854775808)": ["raise", "builtins.OverflowError", "date value out of range"],
"ydus[subclass].parse(0)": ["return", ["datetime.datetime", "datetime.datetime(2021, 12, 31, 0, 0)"]],
"ydus[subclass].parse(1)": ["return", ["datetime.datetime", "datetime.datetime(2021, 12, 31, 0, 0, 0, 1)"]],
"ydus[subclass].parse(1000000000000000)": ["return", ["datetime.datetime", "datetime.datetime(2053, 9, 8, 1, 46, 40)"]],
"ydus[subclass].parse(18446744073709551615)": ["raise", "builtins.OverflowError", "date value out of range"],
"ydus[subclass].parse(40669000000)": ["return", ["datetime.datetime", "datetime.datetime(2021, 12, 31, 11, 17, 49)"]],
"ydus[subclass].parse(86399999999)": ["return", ["datetime.datetime", "datetime.datetime(2021, 12, 31, 23, 59, 59, 999999)"]],
"ydus[subclass].parse(86400000000)": ["return", ["datetime.datetime", "datetime.datetime(2022, 1, 1, 0, 0)"]],
"ydus[subclass].parse(9223372036854775807)": ["raise", "builtins.OverflowError", "date value out of range"],
"ydus[subclass].parse(9223372036854775808)": ["raise", "builtins.OverflowError", "date value out of range"],
"ydus[this-nested]._decode('12')": ["raise", "builtins.TypeError", "unsupported type for timedelta microseconds component: str"],
"ydus[this-nested]._decode(1.5)": ["return", ["datetime.datetime", "datetime.datetime(2019, 1, 1, 0, 0, 0, 2)"]],
"ydus[this-nested]._decode(10000000000000000000000000000000000000000)": ["raise", "builtins.OverflowError", "Python int too large to convert to C int"],
"ydus[this-nested]._decode(None)": ["raise", "builtins.TypeError", "unsupported type for timedelta microseconds component: NoneType"],
"ydus[this-nested]._decode(True)": ["return", ["datetime.datetime", "datetime.datetime(2019, 1, 1, 0, 0, 0, 1)"]],
"ydus[this-nested]._decode([1])": ["raise", "builtins.TypeError", "unsupported type for timedelta microseconds component: list"],
"ydus[this-nested]._decode(inf)": ["raise", "builtins.OverflowError", "cannot convert float infinity to integer"],
"ydus[this-nested]._decode(nan)": ["raise", "builtins.ValueError", "cannot convert float NaN to integer"],
"ydus[this-nested].parse(-1)": ["raise", "builtins.KeyError", "'_'"],
"ydus[this-nested].parse(-86400000000)": ["raise", "builtins.KeyError", "'_'"],
"ydus[this-nested].parse(-9223372036854775808)": ["raise", "builtins.KeyError", "'_'"],
"ydus[this-nested].parse(0)": ["raise", "builtins.KeyError", "'_'"],
"ydus[this-nested].parse(1)": ["raise", "builtins.KeyError", "'_'"],
"ydus[this-nested].parse(1000000000000000)": ["raise", "builtins.KeyError", "'_'"],
"ydus[this-nested].parse(18446744073709551615)": ["raise", "builtins.KeyError", "'_'"],
"ydus[this-nested].parse(40669000000)": ["raise", "builtins.KeyError", "'_'"],
"ydus[this-nested].parse(86399999999)": ["raise", "builtins.KeyError", "'_'"],
"ydus[this-nested].parse(86400000000)": ["raise", "builtins.KeyError", "'_'"],
"ydus[this-nested].parse(9223372036854775807)": ["raise", "builtins.KeyError", "'_'"],
"ydus[this-nested].parse(9223372036854775808)": ["raise", "builtins.KeyError", "'_'"],
"ydus[this]._decode('12')": ["raise", "builtins.TypeError", "unsupported type for timedelta microseconds component: str"],
"ydus[this]._decode(1.5)": ["return", ["datetime.datetime", "datetime.datetime(2019, 1, 1, 0, 0, 0, 2)"]],
"ydus[this]._decode(10000000000000000000000000000000000000000)": ["raise", "builtins.OverflowError", "Python int too large to convert to C int"],
"ydus[this]._decode(None)": ["raise", "builtins.TypeError", "unsupported type for timedelta microseconds component: NoneType"],
"ydus[this]._decode(True)": ["return", ["datetime.datetime", "datetime.datetime(2019, 1, 1, 0, 0, 0, 1)"]],
"ydus[this]._decode([1])": ["raise", "builtins.TypeError", "unsupported type for timedelta microseconds component: list"],
"ydus[this]._decode(inf)": ["raise", "builtins.OverflowError", "cannot convert float infinity to integer"],
"ydus[this]._decode(nan)": ["raise", "builtins.ValueError", "cannot convert float NaN to integer"],
"ydus[this].parse(-1)": ["return", ["datetime.datetime", "datetime.datetime(2018, 12, 31, 23, 59, 59, 999999)"]],
"ydus[this].parse(-86400000000)": ["return", ["datetime.datetime", "datetime.datetime(2018, 12, 31, 0, 0)"]],
"ydus[this].parse(-9223372036854775808)": ["raise", "builtins.OverflowError", "date value out of range"],
"ydus[this].parse(0)": ["return", ["datetime.datetime", "datetime.datetime(2019, 1, 1, 0, 0)"]],
"ydus[this].parse(1)": ["return", ["datetime.datetime", "datetime.datetime(2019, 1, 1, 0, 0, 0, 1)"]],
"ydus[this].parse(1000000000000000)": ["return", ["datetime.datetime", "datetime.datetime(2050, 9, 9, 1, 46, 40)"]],
"ydus[this].parse(18446744073709551615)": ["raise", "builtins.OverflowError", "date value out of range"],
"ydus[this].parse(40669000000)": ["return", ["datetime.datetime", "datetime.datetime(2019, 1, 1, 11, 17, 49)"]],
"ydus[this].parse(86399999999)": ["return", ["datetime.datetime", "datetime.datetime(2019, 1, 1, 23, 59, 59, 999999)"]],
"ydus[this].parse(86400000000)": ["return", ["datetime.datetime", "datetime.datetime(2019, 1, 2, 0, 0)"]],
"ydus[this].parse(9223372036854775807)": ["raise", "builtins.OverflowError", "date value out of range"],
"ydus[this].parse(9223372036854775808)": ["raise", "builtins.OverflowError", "date value out of range"],
"ydus[type]._decode('12')": ["raise", "builtins.TypeError", "'dict' object cannot be interpreted as an integer"],
"ydus[type]._decode(1.5)": ["raise", "builtins.TypeError", "'dict' object cannot be interpreted as an integer"],
"ydus[type]._decode(10000000000000000000000000000000000000000)": ["raise", "builtins.TypeError", "'dict' object cannot be interpreted as an integer"],
"ydus[type]._decode(None)": ["raise", "builtins.TypeError", "'dict' object cannot be interpreted as an integer"],
"ydus[type]._decode(True)": ["raise", "builtins.TypeError", "'dict' object cannot be interpreted as an integer"],
"ydus[type]._decode([1])": ["raise", "builtins.TypeError", "'dict' object cannot be interpreted as an integer"],
"ydus[type]._decode(inf)": ["raise", "builtins.TypeError", "'dict' object cannot be interpreted as an integer"],
"ydus[type]._decode(nan)": ["raise", "builtins.TypeError", "'dict' object cannot be interpreted as an integer"],
"ydus[type].parse(-1)": ["raise", "builtins.TypeError", "'Container' object cannot be interpreted as an integer"],
"ydus[type].parse(-86400000000)": ["raise", "builtins.TypeError", "'Container' object cannot be interpreted as an integer"],
"ydus[type].parse(-9223372036854775808)": ["raise", "builtins.TypeError", "'Container' object cannot be interpreted as an integer"],
"ydus[type].parse(0)": ["raise", "builtins.TypeError", "'Container' object cannot be interpreted as an integer"],
"ydus[type].parse(1)": ["raise", "builtins.TypeError", "'Container' object cannot be interpreted as an integer"],
"ydus[type].parse(1000000000000000)": ["raise", "builtins.TypeError", "'Container' object cannot be interpreted as an integer"],
"ydus[type].parse(18446744073709551615)": ["raise", "builtins.TypeError", "'Container' object cannot be interpreted as an integer"],
"ydus[type].parse(40669000000)": ["raise", "builtins.TypeError", "'Container' object cannot be interpreted as an integer"],
"ydus[type].parse(86399999999)": ["raise", "builtins.TypeError", "'Container' object cannot be interpreted as an integer"],
"ydus[type].parse(86400000000)": ["raise", "builtins.TypeError", "'Container' object cannot be interpreted as an integer"],
"ydus[type].parse(9223372036854775807)": ["raise", "builtins.TypeError", "'Container' object cannot be interpreted as an integer"],
"ydus[type].parse(9223372036854775808)": ["raise", "builtins.TypeError", "'Container' object cannot be interpreted as an integer"]
}
"""


def main(argv):
    actual = json.loads(json.dumps(collect()))
    if "--record" in argv:
        lines = [f"{json.dumps(key)}: {json.dumps(actual[key])}" for key in sorted(actual)]
        sys.stdout.write("{\n" + ",\n".join(lines) + "\n}")
        return 0

    expected = json.loads(EXPECTED)
    assert sorted(actual) == sorted(expected), (sorted(actual), sorted(expected))
    mismatches = [key for key in expected if actual[key] != expected[key]]
    for key in mismatches:
        print(f"MISMATCH {key}:\n  expected {expected[key]}\n  actual   {actual[key]}")
    assert not mismatches, f"{len(mismatches)} of {len(expected)} cases differ"
    print(f"OK: {len(expected)} cases identical to the recorded behaviour")
    return 0


def test_equivalence():
    assert main([]) == 0


if __name__ == "__main__":
    sys.exit(main(sys.argv[1:]))
